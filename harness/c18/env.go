// Package c18: access-control matrix (property C18) run against a real in-process ImmuServer,
// reached through its real gRPC interceptor chain over a bufconn listener.
package c18

import (
	"context"
	"encoding/base64"
	"encoding/json"
	"fmt"
	"io"
	"net"
	"os"
	"strconv"
	"strings"
	"time"

	"github.com/codenotary/immudb/embedded/logger"
	"github.com/codenotary/immudb/pkg/api/protomodel"
	"github.com/codenotary/immudb/pkg/api/schema"
	"github.com/codenotary/immudb/pkg/auth"
	"github.com/codenotary/immudb/pkg/server"
	"github.com/codenotary/immudb/pkg/server/sessions"
	"google.golang.org/grpc"
	"google.golang.org/grpc/credentials/insecure"
	"google.golang.org/grpc/metadata"
	"google.golang.org/grpc/test/bufconn"
	"google.golang.org/protobuf/types/known/emptypb"
	"google.golang.org/protobuf/types/known/structpb"
)

const (
	sysUser   = "immudb"
	sysPass   = "immudb"
	userPass  = "Passw0rd!c18"
	dbOwn     = "c18own"
	dbOther   = "c18other"
	dbSystem  = "systemdb"
	dbDefault = "defaultdb"
	collName  = "c18col"
	tableName = "c18t"

	sessTimeout = 5 * time.Second
	guardTick   = 100 * time.Millisecond
)

type cfgKind int

const (
	cfgAuth cfgKind = iota
	cfgMaint
	cfgOpen
)

var cfgCoq = []string{"CfgAuth", "CfgMaint", "CfgOpen"}

type env struct {
	cfg   cfgKind
	dir   string
	srv   *server.ImmuServer
	lis   *bufconn.Listener
	conn  *grpc.ClientConn
	immu  schema.ImmuServiceClient
	doc   protomodel.DocumentServiceClient
	authz protomodel.AuthorizationServiceClient
	// sysadmin session on dbOwn used for set-up and repair steps (cfgAuth only)
	sysMD metadata.MD
	docID string
	seq   int
}

func silentLogger() logger.Logger {
	return logger.NewSimpleLoggerWithLevel("vh-c18", io.Discard, logger.LogError)
}

// startServer opens (or re-opens) an ImmuServer on dir with the real interceptor chain built by
// ImmuServer.Initialize, listening on an in-memory bufconn listener.
func startServer(dir string, cfg cfgKind) (*env, error) {
	lis := bufconn.Listen(4 << 20)
	so := sessions.DefaultOptions().
		WithSessionGuardCheckInterval(guardTick).
		WithTimeout(sessTimeout).
		WithMaxSessionInactivityTime(sessTimeout).
		WithMaxSessions(100000)
	opts := server.DefaultOptions().
		WithDir(dir).
		WithAuth(cfg == cfgAuth).
		WithMaintenance(cfg == cfgMaint).
		WithListener(lis).
		WithMetricsServer(false).
		WithWebServer(false).
		WithPgsqlServer(false).
		WithLogFormat("json").
		WithSynced(false).
		WithSessionOptions(so)
	srv := server.DefaultServer().WithOptions(opts).WithLogger(silentLogger()).(*server.ImmuServer)
	if err := srv.Initialize(); err != nil {
		return nil, fmt.Errorf("server initialize: %w", err)
	}
	go srv.GrpcServer.Serve(lis)
	if err := srv.SessManager.StartSessionsGuard(); err != nil {
		return nil, err
	}
	conn, err := grpc.Dial("bufconn", grpc.WithContextDialer(func(context.Context, string) (net.Conn, error) { return lis.Dial() }),
		grpc.WithTransportCredentials(insecure.NewCredentials()))
	if err != nil {
		return nil, err
	}
	return &env{cfg: cfg, dir: dir, srv: srv, lis: lis, conn: conn,
		immu:  schema.NewImmuServiceClient(conn),
		doc:   protomodel.NewDocumentServiceClient(conn),
		authz: protomodel.NewAuthorizationServiceClient(conn)}, nil
}

func (e *env) stop() {
	e.conn.Close()
	e.srv.GrpcServer.Stop()
	e.srv.SessManager.StopSessionsGuard()
	e.srv.CloseDatabases()
}

func ctxWith(md metadata.MD) (context.Context, context.CancelFunc) {
	ctx, cancel := context.WithTimeout(context.Background(), 20*time.Second)
	if md != nil {
		ctx = metadata.NewOutgoingContext(ctx, md)
	}
	return ctx, cancel
}

func (e *env) openSession(user, pass, db string) (metadata.MD, error) {
	ctx, cancel := ctxWith(nil)
	defer cancel()
	r, err := e.immu.OpenSession(ctx, &schema.OpenSessionRequest{Username: []byte(user), Password: []byte(pass), DatabaseName: db})
	if err != nil {
		return nil, err
	}
	return metadata.Pairs("sessionid", r.SessionID), nil
}

func (e *env) login(user, pass string) (metadata.MD, error) {
	ctx, cancel := ctxWith(nil)
	defer cancel()
	r, err := e.immu.Login(ctx, &schema.LoginRequest{User: []byte(user), Password: []byte(pass)})
	if err != nil {
		return nil, err
	}
	return metadata.Pairs("authorization", r.Token), nil
}

func (e *env) useDB(md metadata.MD, db string) (metadata.MD, error) {
	ctx, cancel := ctxWith(md)
	defer cancel()
	r, err := e.immu.UseDatabase(ctx, &schema.Database{DatabaseName: db})
	if err != nil {
		return nil, err
	}
	return metadata.Pairs("authorization", r.Token), nil
}

// tokenPayload decodes the public (signed, not encrypted) payload of a PASETO v2.public token
func tokenPayload(tok string) (user string, dbIndex int64, err error) {
	parts := strings.Split(strings.TrimPrefix(tok, "Bearer "), ".")
	if len(parts) < 3 {
		return "", 0, fmt.Errorf("malformed token")
	}
	raw, err := base64.RawURLEncoding.DecodeString(parts[2])
	if err != nil || len(raw) < 64 {
		return "", 0, fmt.Errorf("malformed token payload")
	}
	var m map[string]string
	if err := json.Unmarshal(raw[:len(raw)-64], &m); err != nil {
		return "", 0, err
	}
	idx, _ := strconv.ParseInt(m["database"], 10, 64)
	return m["sub"], idx, nil
}

// expiredTwin returns a token for the same user and database index, signed with the user's live key
// pair, whose expiration time lies in the past.
func expiredTwin(md metadata.MD) (metadata.MD, error) {
	v := md.Get("authorization")
	if len(v) == 0 {
		return nil, fmt.Errorf("no token")
	}
	u, idx, err := tokenPayload(v[0])
	if err != nil {
		return nil, err
	}
	t, err := auth.GenerateToken(auth.User{Username: u}, idx, -5)
	if err != nil {
		return nil, err
	}
	return metadata.Pairs("authorization", t), nil
}

func (e *env) must(what string, err error) error {
	if err != nil {
		return fmt.Errorf("set-up step %q failed: %w", what, err)
	}
	return nil
}

// withSys runs one set-up call as sysadmin in a session of its own on db; a slow machine can let the
// session guard expire the session before the call starts, so "session not found" is retried.
func (e *env) withSys(db string, f func(ctx context.Context) error) error {
	var err error
	for try := 0; try < 4; try++ {
		var md metadata.MD
		md, err = e.openSession(sysUser, sysPass, db)
		if err != nil {
			return err
		}
		ctx, cancel := ctxWith(md)
		err = f(ctx)
		cancel()
		e.closeSession(md)
		if err == nil || !strings.Contains(err.Error(), "session not found") {
			return err
		}
	}
	return err
}

// populate creates (cfgAuth server on a fresh directory) the databases, users, a table, a
// collection and a few keys the matrix refers to.
func (e *env) populate() error {
	for _, db := range []string{dbOwn, dbOther} {
		db := db
		if err := e.withSys(dbDefault, func(ctx context.Context) error {
			_, err := e.immu.CreateDatabaseV2(ctx, &schema.CreateDatabaseRequest{Name: db})
			return err
		}); err != nil {
			return e.must("create database "+db, err)
		}
	}
	mk := func(ctx context.Context, user string, perm uint32) error {
		_, err := e.immu.CreateUser(ctx, &schema.CreateUserRequest{User: []byte(user), Password: []byte(userPass), Permission: perm, Database: dbOwn})
		return err
	}
	users := []struct {
		u string
		p uint32
	}{{"c18admin", auth.PermissionAdmin}, {"c18rw", auth.PermissionRW}, {"c18r", auth.PermissionR}, {"c18none", auth.PermissionR}, {"c18victims", auth.PermissionR}}
	for _, x := range users {
		x := x
		if err := e.withSys(dbDefault, func(ctx context.Context) error { return mk(ctx, x.u, x.p) }); err != nil {
			return e.must("create user "+x.u, err)
		}
	}
	// the user without any permission: created with R on the own database, then revoked
	if err := e.withSys(dbDefault, func(ctx context.Context) error {
		_, err := e.immu.ChangePermission(ctx, &schema.ChangePermissionRequest{Action: schema.PermissionAction_REVOKE, Username: "c18none", Database: dbOwn, Permission: auth.PermissionR})
		return err
	}); err != nil {
		return e.must("revoke c18none", err)
	}
	// the user that user-administration requests act upon holds read permission on both user databases
	if err := e.withSys(dbDefault, func(ctx context.Context) error {
		_, err := e.immu.ChangePermission(ctx, &schema.ChangePermissionRequest{Action: schema.PermissionAction_GRANT, Username: "c18victims", Database: dbOther, Permission: auth.PermissionR})
		return err
	}); err != nil {
		return e.must("grant c18victims on "+dbOther, err)
	}
	// data in every user database
	for _, db := range []string{dbDefault, dbOwn, dbOther} {
		steps := []func(ctx context.Context) error{
			func(ctx context.Context) error {
				_, err := e.immu.Set(ctx, &schema.SetRequest{KVs: []*schema.KeyValue{{Key: []byte("k"), Value: []byte("v")}, {Key: []byte("k2"), Value: []byte("v2")}}})
				return err
			},
			func(ctx context.Context) error {
				_, err := e.immu.SQLExec(ctx, &schema.SQLExecRequest{Sql: "CREATE TABLE IF NOT EXISTS " + tableName + "(id INTEGER AUTO_INCREMENT, v INTEGER, PRIMARY KEY id); INSERT INTO " + tableName + "(v) VALUES (1);"})
				return err
			},
			func(ctx context.Context) error {
				_, err := e.doc.CreateCollection(ctx, &protomodel.CreateCollectionRequest{Name: collName,
					Fields: []*protomodel.Field{{Name: "n", Type: protomodel.FieldType_INTEGER}}})
				return err
			},
			func(ctx context.Context) error {
				d, _ := structpb.NewStruct(map[string]interface{}{"n": 1})
				r, err := e.doc.InsertDocuments(ctx, &protomodel.InsertDocumentsRequest{CollectionName: collName, Documents: []*structpb.Struct{d}})
				if err == nil && len(r.DocumentIds) > 0 {
					e.docID = r.DocumentIds[0]
				}
				return err
			},
		}
		for i, st := range steps {
			if err := e.withSys(db, st); err != nil {
				return e.must(fmt.Sprintf("populate %s (step %d)", db, i), err)
			}
		}
	}
	// a collection and a table of the same names in systemdb, if the server lets a sysadmin create
	// them there (that it does is one of the findings; when it does not, the RPCs simply find none)
	e.withSys(dbSystem, func(ctx context.Context) error {
		e.doc.CreateCollection(ctx, &protomodel.CreateCollectionRequest{Name: collName,
			Fields: []*protomodel.Field{{Name: "n", Type: protomodel.FieldType_INTEGER}}})
		return nil
	})
	e.withSys(dbSystem, func(ctx context.Context) error {
		ntx, err := e.immu.NewTx(ctx, &schema.NewTxRequest{Mode: schema.TxMode_ReadWrite})
		if err != nil {
			return nil
		}
		tctx := metadata.AppendToOutgoingContext(ctx, "transactionid", ntx.TransactionID)
		e.immu.TxSQLExec(tctx, &schema.SQLExecRequest{Sql: "CREATE TABLE IF NOT EXISTS " + tableName + "(id INTEGER AUTO_INCREMENT, v INTEGER, PRIMARY KEY id)"})
		e.immu.Commit(tctx, &emptypb.Empty{})
		return nil
	})
	return nil
}

func (e *env) closeSession(md metadata.MD) {
	if md == nil || len(md.Get("sessionid")) == 0 {
		return
	}
	ctx, cancel := ctxWith(md)
	defer cancel()
	e.immu.CloseSession(ctx, &emptypb.Empty{})
}

func (e *env) logout(md metadata.MD) {
	if md == nil || len(md.Get("authorization")) == 0 {
		return
	}
	ctx, cancel := ctxWith(md)
	defer cancel()
	e.immu.Logout(ctx, &emptypb.Empty{})
}

// sys returns a live sysadmin session (on the own database) for repair steps
func (e *env) sys() metadata.MD {
	if e.sysMD != nil {
		if ok, _ := e.srv.VerifCredentialsAccepted(e.sysMD); ok {
			return e.sysMD
		}
	}
	md, err := e.openSession(sysUser, sysPass, dbOwn)
	if err != nil {
		fmt.Fprintln(os.Stderr, "c18: cannot open sysadmin session:", err)
		return nil
	}
	e.sysMD = md
	return md
}
