package c18

import (
	"bufio"
	"encoding/json"
	"fmt"
	"os"
	"os/exec"
	"path/filepath"
	"runtime"
	"sort"
	"strconv"
	"strings"
	"sync"
	"time"

	"github.com/codenotary/immudb/pkg/api/protomodel"
	"github.com/codenotary/immudb/pkg/api/schema"
	"github.com/codenotary/immudb/pkg/auth"
	"google.golang.org/grpc"
	"google.golang.org/grpc/metadata"
	"verif/harness/vk"
)

// ---------------------------------------------------------------- dimensions

var kinds = []string{"sys", "adm", "rw", "ro", "none"}
var kindCoq = map[string]string{"sys": "KSys", "adm": "KAdm", "rw": "KRW", "ro": "KRO", "none": "KNone"}
var kindUser = map[string]string{"sys": sysUser, "adm": "c18admin", "rw": "c18rw", "ro": "c18r", "none": "c18none"}
var kindPerm = map[string]uint32{"sys": auth.PermissionSysAdmin, "adm": auth.PermissionAdmin, "rw": auth.PermissionRW, "ro": auth.PermissionR, "none": auth.PermissionNone}

var sels = []string{"own", "other", "system", "none"}
var selCoq = map[string]string{"own": "DOwn", "other": "DOther", "system": "DSystem", "none": "DNone"}
var selDB = map[string]string{"own": dbOwn, "other": dbOther, "system": dbSystem, "none": ""}

var hdrCoq = map[string]string{"none": "HNone", "sess": "HSess", "tok": "HTok", "tok2": "HTok2"}
var stateCoq = map[string]string{"none": "SValid", "valid": "SValid", "expired": "SExpired", "deact": "SDeact", "reperm": "SReperm",
	"lowered": "SLowered", "raised": "SRaised"}

// ChangePermission(GRANT) REPLACES the permission on the database: the next lower / higher level
var lowerKind = map[string]string{"adm": "rw", "rw": "ro"}
var higherKind = map[string]string{"none": "ro", "ro": "rw", "rw": "adm"}

// the permissions the user holds NOW, after the event that the state names
func kindNow(kind, state string) string {
	if kind == "sys" {
		return kind
	}
	switch state {
	case "reperm":
		return "none"
	case "lowered":
		if k, ok := lowerKind[kind]; ok {
			return k
		}
	case "raised":
		if k, ok := higherKind[kind]; ok {
			return k
		}
	}
	return kind
}

func permChanged(state string) bool { return state == "reperm" || state == "lowered" || state == "raised" }

const groupSize = 31

const victimUser = "c18victims"

// a credential obtained for (mechanism, user kind, requested selection)
type cred struct {
	mech, kind, selReq string
	md                 metadata.MD   // nil when no credential could be obtained
	extra              []metadata.MD // further logins of the same user (tok2)
	hdr                string        // what the requests will carry: none / sess / tok / tok2
	effSel             string        // database the credential selects
}

// obtain logs in the way a client does: open a session on / switch the token to the requested
// database; when the server refuses that selection the client keeps working with a credential on
// the database it does have access to ("own").
func (e *env) obtain(mech, kind, selReq string) *cred {
	c := &cred{mech: mech, kind: kind, selReq: selReq, hdr: "none", effSel: "none"}
	user := kindUser[kind]
	pass := passOf(user)
	switch mech {
	case "sess":
		for _, s := range []string{selReq, "own"} {
			if s == "none" {
				continue
			}
			if md, err := e.openSession(user, pass, selDB[s]); err == nil {
				c.md, c.hdr, c.effSel = md, "sess", s
				break
			}
		}
	case "tok", "tok2":
		md, err := e.login(user, pass)
		if err != nil {
			return c
		}
		c.md, c.hdr, c.effSel = md, mech, "none"
		if mech == "tok2" {
			if md2, err := e.login(user, pass); err == nil {
				c.extra = append(c.extra, md2)
			} else {
				c.hdr = "tok"
			}
		}
		for _, s := range []string{selReq, "own"} {
			if s == "none" {
				break
			}
			if md2, err := e.useDB(md, selDB[s]); err == nil {
				c.md, c.effSel = md2, s
				break
			}
		}
	}
	return c
}

func (e *env) release(c *cred) {
	if c == nil || c.md == nil {
		return
	}
	if c.hdr == "sess" {
		e.closeSession(c.md)
		return
	}
	e.logout(c.md)
	for _, x := range c.extra {
		e.logout(x)
	}
}

// ---------------------------------------------------------------- the run

type matrix struct {
	emit     func(term string, js map[string]any, bucket string, nontrivial bool)
	e        *env
	ds       []driver
	only     map[string]bool // replay: "svc/rpc" filter
	single   bool            // replay: one Coq case per cell
	outcomes map[string]int
	cells    int
	skipped  map[string]int
	texts    map[string]int // distinct (class, status text) with counts, for the evidence
	sysPaths map[string]bool
	sysWrote map[string]bool
	stale    int
	staleW   int
	other    []string
	rebuilt  int
	vioFirst map[string]string
	vioCount map[string]int
	vioOrder []string
}

func ordered(ds []driver) []driver {
	out := append([]driver{}, ds...)
	sort.SliceStable(out, func(i, j int) bool { return out[i].late < out[j].late })
	return out
}

func (m *matrix) permOn(kind, sel string) uint32 {
	if kind == "sys" {
		return auth.PermissionSysAdmin
	}
	if sel == "own" {
		return kindPerm[kind]
	}
	return auth.PermissionNone
}

// oracle: the property statement applied directly to one observed cell (authentication on).
// Returns "" when the observed behaviour is allowed, else the reason.
func (m *matrix) oracle(d *driver, c *cred, state, tgtSel string, through bool, changed []string) (string, string) {
	credOK := c.hdr != "none" && state == "valid"
	sys := c.kind == "sys"
	pSel, pTgt := m.permOn(c.kind, c.effSel), m.permOn(c.kind, tgtSel)
	if d.class == clCred {
		pTgt = m.permOn(kindNow(c.kind, state), tgtSel) // Login/OpenSession authenticate afresh: permissions as of now
	}
	atLeastR := func(p uint32) bool { return p != auth.PermissionNone }
	rw := func(p uint32) bool {
		return p == auth.PermissionRW || p == auth.PermissionAdmin || p == auth.PermissionSysAdmin
	}
	adm := func(p uint32) bool { return p == auth.PermissionAdmin || p == auth.PermissionSysAdmin }
	why, tag := "", ""
	if through {
		switch d.class {
		case clCred:
			if state == "deact" {
				why = "a deactivated user obtained a new credential"
			} else if d.needsDB && !(sys || atLeastR(pTgt)) {
				why = "session opened on a database the user holds no permission on"
			}
		case clSelect:
			if !(credOK && (sys || atLeastR(pTgt))) {
				why = "database selected without a valid login holding a permission on it"
			}
		case clSession:
			if !credOK {
				why = "session-only operation accepted without a valid credential"
			}
		case clRead:
			if !(credOK && c.effSel != "none" && (sys || atLeastR(pSel))) {
				why = "data returned without a valid credential holding at least read permission on the selected database"
			}
		case clWrite:
			if !(credOK && c.effSel != "none" && rw(pSel)) {
				why = "write accepted without a valid credential holding read-write/admin/sysadmin permission on the selected database"
			} else if c.effSel == "system" {
				why, tag = "write accepted with the system database selected", "systemdb"
			}
		case clAdminSel:
			if !(credOK && c.effSel != "none" && adm(pSel)) {
				why = "administrative operation accepted without admin rights on the selected database"
			} else if d.mutates && c.effSel == "system" {
				why, tag = "write accepted with the system database selected", "systemdb"
			}
		case clAdminTgt:
			if !(credOK && adm(pTgt)) {
				why = "administrative operation accepted without admin rights on the named database"
			} else if d.dbmgmt && tgtSel == "system" {
				why = "life-cycle operation accepted on the system database"
			}
		case clAdminAny:
			if !(credOK && (sys || c.kind == "adm")) {
				why = "user administration accepted from a caller who is admin of no database"
			}
		case clSysAdmin:
			if !(credOK && sys) {
				why = "server administration accepted from a non-sysadmin"
			}
		}
	}
	// effects: which databases got a new transaction during the cell
	for _, db := range changed {
		ok := false
		switch {
		case db == dbSystem:
			ok = why == "" && through && (d.class == clAdminTgt || d.class == clAdminAny || d.class == clSysAdmin)
			if !ok && tag == "systemdb" {
				m.sysWrote[d.svc+"/"+d.name] = true
				continue
			}
			if !ok && why == "" && d.name == "Commit" && d.svc == "ImmuService" && credOK && sys && c.effSel == "system" {
				// the statement staged by TxSQLExec (whose gate let it through on systemdb) is committed here
				m.sysPaths["ImmuService/TxSQLExec"] = true
				m.sysWrote["ImmuService/TxSQLExec"] = true
				continue
			}
		case credOK && db == selDB[c.effSel] && rw(pSel) && (d.class == clWrite || d.class == clAdminSel || d.class == clSession):
			// clSession: Commit of statements TxSQLExec was allowed to stage
			ok = true
		case credOK && db == selDB[tgtSel] && adm(pTgt) && (d.class == clAdminTgt || d.class == clSysAdmin):
			ok = true
		}
		if !ok && why == "" {
			why = fmt.Sprintf("database %s got a new transaction although the caller may not change it", db)
		}
		if !ok && tag == "" && !strings.Contains(why, "got a new transaction") {
			why += fmt.Sprintf("; database %s got a new transaction", db)
		}
	}
	if why != "" && tag == "" && !credOK && c.hdr == "tok2" && (state == "deact" || permChanged(state)) {
		tag = "stale"
	}
	return why, tag
}

func diffCounts(a, b map[string]uint64) []string {
	var out []string
	for k, v := range b {
		if a[k] != v {
			out = append(out, k)
		}
	}
	sort.Strings(out)
	return out
}

// runContext runs every RPC with the given credential in the given state
func (m *matrix) runContext(cfg cfgKind, c *cred, state string) {
	e := m.e
	tgtSel := c.selReq
	if tgtSel == "none" {
		tgtSel = "own"
	}
	var terms []string
	var recs []map[string]any
	gHdr, gSel := c.hdr, c.effSel
	flush := func() {
		if len(terms) == 0 {
			return
		}
		viol := false
		for _, x := range recs {
			if x["violates"].(bool) {
				viol = true
			}
		}
		m.emit(fmt.Sprintf("CCtx %s %s %s %s %s %s [%s]", cfgCoq[cfg], kindCoq[c.kind], hdrCoq[gHdr], selCoq[gSel], selCoq[tgtSel], stateCoq[state], strings.Join(terms, "; ")),
			map[string]any{"kind": "ctx", "cfg": cfgCoq[cfg], "mech": c.mech, "user_kind": c.kind, "user": kindUser[c.kind],
				"sel_requested": c.selReq, "sel_effective": gSel, "credential": gHdr, "named_db": selDB[tgtSel], "state": state,
				"cells": recs, "violates": viol},
			fmt.Sprintf("%s/%s", cfgCoq[cfg], state), true)
		terms, recs = nil, nil
	}
	defer flush()
	for i := range m.ds {
		d := &m.ds[i]
		if m.only != nil && !m.only[d.svc+"/"+d.name] {
			continue
		}
		if tgtSel == "system" && (d.name == "CreateUser" || d.name == "ChangeSQLPrivileges") {
			// the request is invalid for every caller (systemdb is not in the database list and the
			// name is validated before / independently of the caller's rights)
			m.skipped["request names systemdb where only user databases are valid"]++
			continue
		}
		if state == "valid" && c.md != nil {
			if ok, _ := e.srv.VerifCredentialsAccepted(c.md); !ok { // disturbed by an earlier cell: log in again
				e.release(c)
				nc := e.obtain(c.mech, c.kind, c.selReq)
				m.rebuilt++
				if nc.hdr != c.hdr || nc.effSel != c.effSel {
					m.other = append(m.other, fmt.Sprintf("C18/harness: credential for %s/%s/%s could not be re-established (%s/%s instead of %s/%s)", c.mech, c.kind, c.selReq, nc.hdr, nc.effSel, c.hdr, c.effSel))
				}
				*c = *nc
			}
		}
		cl := &call{e: e, md: c.md, user: kindUser[c.kind], tgt: selDB[tgtSel], victim: victimUser}
		if cfg == cfgOpen {
			cl.tgt = dbDefault
			if d.dbmgmt {
				cl.tgt = dbOwn
			}
		}
		before := e.srv.VerifTxCounts()
		err := d.run(cl)
		class, text := classifyErr(err)
		if state == "valid" && c.md != nil && class == "refused" && d.late < 3 {
			// a slow machine can let the session guard expire a live session in the middle of a cell:
			// when the credential is gone although this RPC does not end it, log in again and repeat
			if ok, _ := e.srv.VerifCredentialsAccepted(c.md); !ok {
				nc := e.obtain(c.mech, c.kind, c.selReq)
				m.rebuilt++
				if nc.hdr == c.hdr && nc.effSel == c.effSel {
					*c = *nc
					cl.md = c.md
					err = d.run(cl)
					class, text = classifyErr(err)
				}
			}
		}
		after := e.srv.VerifTxCounts()
		changed := diffCounts(before, after)
		through := class != "refused"
		// repairs
		if d.name == "UnloadDatabase" && class == "ok" {
			ctx, cancel := ctxWith(e.sys())
			e.immu.LoadDatabase(ctx, &schema.LoadDatabaseRequest{Database: cl.tgt})
			cancel()
		}
		m.texts[class+" | "+text]++
		why, tag := "", ""
		if cfg == cfgAuth {
			why, tag = m.oracle(d, c, state, tgtSel, through, changed)
		}
		switch {
		case tag == "systemdb":
			m.sysPaths[d.svc+"/"+d.name] = true
		case tag == "stale":
			m.stale++
			if len(changed) > 0 {
				m.staleW++
			}
		case why != "":
			// one finding per (RPC, reason): the first cell in full, the others counted
			key := d.svc + "/" + d.name + "|" + strings.SplitN(why, ";", 2)[0]
			if m.vioCount[key] == 0 {
				m.vioFirst[key] = fmt.Sprintf("C18/violation: rpc=%s/%s user=%s(%s) credential=%s state=%s selected=%s named=%s outcome=%s [%s] changed=%v: %s",
					d.svc, d.name, kindUser[c.kind], c.kind, c.hdr, state, c.effSel, tgtSel, class, text, changed, why)
				m.vioOrder = append(m.vioOrder, key)
			}
			m.vioCount[key]++
		}
		m.outcomes[fmt.Sprintf("cells %s/%s/%s", cfgCoq[cfg], state, class)]++
		m.cells++
		if m.single {
			term := fmt.Sprintf("CCell %q %q %s %s %s %s %s %s %s", d.svc, d.name, cfgCoq[cfg], kindCoq[c.kind], hdrCoq[c.hdr],
				selCoq[c.effSel], selCoq[tgtSel], stateCoq[state], vk.Bool(through))
			m.emit(term, map[string]any{"kind": "cell", "cfg": cfgCoq[cfg], "mech": c.mech, "user_kind": c.kind, "user": kindUser[c.kind],
				"sel_requested": c.selReq, "sel_effective": c.effSel, "credential": c.hdr, "named_db": cl.tgt, "state": state,
				"svc": d.svc, "rpc": d.name, "class": classNames[d.class], "outcome": class, "status": text, "changed": changed,
				"violates": why != "", "why": why},
				fmt.Sprintf("%s/%s", cfgCoq[cfg], state), true)
			continue
		}
		if c.hdr != gHdr || c.effSel != gSel || len(terms) >= groupSize {
			flush()
			gHdr, gSel = c.hdr, c.effSel
		}
		terms = append(terms, fmt.Sprintf("(%q, %q, %s)", d.svc, d.name, vk.Bool(through)))
		recs = append(recs, map[string]any{"svc": d.svc, "rpc": d.name, "class": classNames[d.class], "outcome": class, "status": text,
			"changed": changed, "violates": why != "", "why": why})
	}
}

func (m *matrix) sysDo(what string, f func(md metadata.MD) error) {
	if err := f(m.e.sys()); err != nil {
		m.other = append(m.other, fmt.Sprintf("C18/harness: set-up step %s failed: %v", what, err))
	}
}

func (m *matrix) setActive(user string, active bool) {
	m.sysDo(fmt.Sprintf("SetActiveUser(%s,%v)", user, active), func(md metadata.MD) error {
		ctx, cancel := ctxWith(md)
		defer cancel()
		_, err := m.e.immu.SetActiveUser(ctx, &schema.SetActiveUserRequest{Username: user, Active: active})
		return err
	})
}

func (m *matrix) changePerm(user string, grant bool, db string, perm uint32) {
	act := schema.PermissionAction_REVOKE
	if grant {
		act = schema.PermissionAction_GRANT
	}
	m.sysDo(fmt.Sprintf("ChangePermission(%s,%v,%s,%d)", user, grant, db, perm), func(md metadata.MD) error {
		ctx, cancel := ctxWith(md)
		defer cancel()
		_, err := m.e.immu.ChangePermission(ctx, &schema.ChangePermissionRequest{Action: act, Username: user, Database: db, Permission: perm})
		return err
	})
}

// apply / undo the event that invalidates credentials issued before it
func (m *matrix) invalidate(state, kind string, undo bool) {
	user := kindUser[kind]
	switch state {
	case "deact":
		m.setActive(user, undo)
	case "reperm": // the user's permission on the own database is revoked (undo: granted again)
		m.changePerm(user, undo, dbOwn, kindPerm[kind])
	case "lowered", "raised": // ... replaced by a GRANT of the next lower / higher level (undo: the original one)
		now := kindNow(kind, state)
		switch {
		case !undo:
			m.changePerm(user, true, dbOwn, kindPerm[now])
		case kind == "none":
			m.changePerm(user, false, dbOwn, kindPerm[now])
		default:
			m.changePerm(user, true, dbOwn, kindPerm[kind])
		}
	}
}

// one work item = one credential context (all RPCs are run in it)
type item struct {
	Cfg   string `json:"cfg"`   // CfgAuth / CfgMaint / CfgOpen
	State string `json:"state"` // none / valid / expired / deact / reperm
	Mech  string `json:"mech"`  // none / sess / tok / tok2
	Kind  string `json:"kind"`
	Sel   string `json:"sel"`
}

// plan lists the whole matrix
func plan() []item {
	var out []item
	for _, state := range []string{"expired", "none", "valid", "deact", "reperm", "lowered", "raised"} {
		mechs := []string{"sess", "tok"}
		switch state {
		case "none":
			mechs = []string{"none"}
		case "deact", "reperm", "lowered":
			mechs = []string{"sess", "tok", "tok2"}
		}
		for _, mech := range mechs {
			for _, k := range kinds {
				if k == "sys" && (state == "deact" || permChanged(state)) {
					continue // the sysadmin can be neither deactivated nor re-permissioned
				}
				if k == "none" && state == "reperm" {
					continue // nothing to revoke
				}
				if state == "lowered" && lowerKind[k] == "" || state == "raised" && higherKind[k] == "" {
					continue // no lower / higher level to grant
				}
				for _, s := range sels {
					if mech == "sess" && s == "none" {
						continue // a session is always opened on a database
					}
					out = append(out, item{"CfgAuth", state, mech, k, s})
				}
			}
		}
	}
	// two requests on one open stream, the credential invalidated in between (RPCs with driver.multi)
	for _, ev := range []string{"valid", "deact", "reperm", "lowered", "close"} {
		for _, mech := range []string{"sess", "tok", "tok2"} {
			for _, k := range []string{"sys", "adm"} {
				if k == "sys" && ev != "valid" && ev != "close" {
					continue
				}
				if mech == "tok2" && (ev == "valid" || ev == "close") {
					continue
				}
				out = append(out, item{"CfgAuth", "mid:" + ev, mech, k, "own"})
			}
		}
	}
	// maintenance mode, authentication off: no user can log in; UseDatabase hands out a token for an
	// anonymous sysadmin
	for _, s := range sels {
		out = append(out, item{"CfgMaint", "none", "none", "sys", s})
		if s != "none" {
			out = append(out, item{"CfgMaint", "valid", "tok", "sys", s})
		}
	}
	// authentication off, only defaultdb
	out = append(out, item{"CfgOpen", "none", "none", "sys", "own"})
	return out
}

func (m *matrix) runAuthItems(items []item) {
	e := m.e
	// --- expired: issue all credentials first, let the session guard expire the sessions, then run
	var cs []*cred
	for _, it := range items {
		if it.State != "expired" {
			continue
		}
		c := e.obtain(it.Mech, it.Kind, it.Sel)
		if c.hdr == "tok" {
			live := c.md
			if x, err := expiredTwin(c.md); err == nil {
				c.md = x
				c.extra = append(c.extra, live)
			} else {
				m.other = append(m.other, "C18/harness: cannot mint an expired token: "+err.Error())
			}
		}
		cs = append(cs, c)
	}
	if len(cs) > 0 {
		time.Sleep(sessTimeout + 4*guardTick)
	}
	for _, c := range cs {
		m.runContext(cfgAuth, c, "expired")
		for _, x := range c.extra {
			e.logout(x)
		}
	}
	for _, it := range items {
		switch it.State {
		case "none":
			m.runContext(cfgAuth, &cred{mech: "none", kind: it.Kind, selReq: it.Sel, hdr: "none", effSel: "none"}, "none")
		case "valid":
			c := e.obtain(it.Mech, it.Kind, it.Sel)
			m.runContext(cfgAuth, c, "valid")
			e.release(c)
		case "mid:valid", "mid:deact", "mid:reperm", "mid:lowered", "mid:close":
			m.runMidStream(it)
		case "deact", "reperm", "lowered", "raised":
			c := e.obtain(it.Mech, it.Kind, it.Sel)
			m.invalidate(it.State, it.Kind, false)
			m.runContext(cfgAuth, c, it.State)
			m.invalidate(it.State, it.Kind, true)
			e.release(c)
		}
	}
}

// runMidStream: for every RPC that serves several requests on one stream, two requests on ONE
// stream; between them the caller's credential is invalidated (or not: mid:valid).
func (m *matrix) runMidStream(it item) {
	e := m.e
	event := strings.TrimPrefix(it.State, "mid:")
	coqState := map[string]string{"valid": "SValid", "deact": "SDeact", "reperm": "SReperm", "lowered": "SLowered", "close": "SExpired"}[event]
	for i := range m.ds {
		d := &m.ds[i]
		if d.multi == nil {
			continue
		}
		c := e.obtain(it.Mech, it.Kind, it.Sel)
		undo := func() {}
		between := func() {
			switch event {
			case "deact", "reperm", "lowered":
				m.invalidate(event, it.Kind, false)
				undo = func() { m.invalidate(event, it.Kind, true) }
			case "close": // the caller ends the credential itself
				if c.hdr == "sess" {
					e.closeSession(c.md)
				} else {
					e.logout(c.md)
				}
			}
		}
		cl := &call{e: e, md: c.md, user: kindUser[c.kind], tgt: selDB[it.Sel], victim: victimUser}
		e1, e2 := d.multi(cl, between)
		undo()
		e.release(c)
		c1, t1 := classifyErr(e1)
		c2, t2 := classifyErr(e2)
		through1, through2 := c1 != "refused", c2 != "refused"
		why, tag := "", ""
		if through2 && event != "valid" {
			why = fmt.Sprintf("second request on an OPEN stream was served after the caller's credential was invalidated (%s): stream opened and request 1 answered [%s %s], then %s, then request 2 on the same stream answered [%s %s]",
				event, c1, t1, map[string]string{"deact": "SetActiveUser(" + kindUser[it.Kind] + ",false) by the sysadmin",
					"reperm": "ChangePermission(REVOKE) by the sysadmin", "lowered": "ChangePermission(GRANT of a lower permission) by the sysadmin",
					"close": "CloseSession / Logout by the caller"}[event], c2, t2)
			if c.hdr == "tok2" {
				tag = "stale"
			}
		}
		switch {
		case tag == "stale":
			m.stale++
		case why != "":
			key := d.svc + "/" + d.name + "|mid-stream " + event
			if m.vioCount[key] == 0 {
				m.vioFirst[key] = fmt.Sprintf("C18/violation: rpc=%s/%s user=%s(%s) credential=%s selected=%s: %s", d.svc, d.name, kindUser[it.Kind], it.Kind, c.hdr, c.effSel, why)
				m.vioOrder = append(m.vioOrder, key)
			}
			m.vioCount[key]++
		}
		m.outcomes[fmt.Sprintf("stream-cells %s/%s", it.State, c2)]++
		m.cells++
		m.emit(fmt.Sprintf("CStream %q %q CfgAuth %s %s %s %s %s %s %s", d.svc, d.name, kindCoq[c.kind], hdrCoq[c.hdr], selCoq[c.effSel], selCoq[it.Sel], coqState, vk.Bool(through1), vk.Bool(through2)),
			map[string]any{"kind": "stream", "cfg": "CfgAuth", "mech": it.Mech, "user_kind": it.Kind, "user": kindUser[it.Kind], "sel_requested": it.Sel,
				"sel_effective": c.effSel, "credential": c.hdr, "state": it.State, "svc": d.svc, "rpc": d.name,
				"request1": c1 + " " + t1, "request2": c2 + " " + t2, "violates": why != "", "why": why},
			"CfgAuth/"+it.State, true)
	}
}

func (m *matrix) runMaintItems(items []item) {
	for _, it := range items {
		c := &cred{mech: it.Mech, kind: "sys", selReq: it.Sel, hdr: "none", effSel: "none"}
		if it.Mech == "tok" {
			if md, err := m.e.useDB(nil, selDB[it.Sel]); err == nil {
				c.md, c.hdr, c.effSel = md, "tok", it.Sel
			} else {
				m.other = append(m.other, "C18/harness: maintenance mode UseDatabase failed: "+err.Error())
			}
		}
		m.runContext(cfgMaint, c, it.State)
	}
}

// execute runs the given items on servers of its own (fresh data directories)
func (m *matrix) execute(items []item) error {
	var au, ma, op []item
	for _, it := range items {
		switch it.Cfg {
		case "CfgAuth":
			au = append(au, it)
		case "CfgMaint":
			ma = append(ma, it)
		case "CfgOpen":
			op = append(op, it)
		}
	}
	if len(au)+len(ma) > 0 {
		dir, err := os.MkdirTemp("", "vh-c18-")
		if err != nil {
			return err
		}
		defer os.RemoveAll(dir)
		e, err := startServer(dir, cfgAuth)
		if err != nil {
			return err
		}
		m.e = e
		if err := e.populate(); err != nil {
			e.stop()
			return err
		}
		m.runAuthItems(au)
		e.stop()
		if len(ma) > 0 { // maintenance mode on the same data directory
			e, err = startServer(dir, cfgMaint)
			if err != nil {
				return fmt.Errorf("maintenance-mode server: %w", err)
			}
			m.e = e
			m.runMaintItems(ma)
			e.stop()
		}
	}
	if len(op) > 0 {
		dir2, err := os.MkdirTemp("", "vh-c18o-")
		if err != nil {
			return err
		}
		defer os.RemoveAll(dir2)
		e, err := startServer(dir2, cfgOpen)
		if err != nil {
			return fmt.Errorf("auth-off server: %w", err)
		}
		m.e = e
		for range op {
			m.runContext(cfgOpen, &cred{mech: "none", kind: "sys", selReq: "own", hdr: "none", effSel: "none"}, "none")
		}
		e.stop()
	}
	return nil
}

// ---------------------------------------------------------------- aggregation across workers

type agg struct {
	Cells    int            `json:"cells"`
	Rebuilt  int            `json:"rebuilt"`
	Skipped  map[string]int `json:"skipped"`
	Texts    map[string]int `json:"texts"`
	SysPaths []string       `json:"sys_paths"`
	SysWrote []string       `json:"sys_wrote"`
	Stale    int            `json:"stale"`
	StaleW   int            `json:"stale_w"`
	Other    []string       `json:"other"`
	VioFirst map[string]string `json:"vio_first"`
	VioCount map[string]int    `json:"vio_count"`
	VioOrder []string          `json:"vio_order"`
	Outcomes map[string]int    `json:"outcomes"`
}

func keys(m map[string]bool) []string {
	var out []string
	for k := range m {
		out = append(out, k)
	}
	sort.Strings(out)
	return out
}

func (m *matrix) aggregate() agg {
	return agg{Cells: m.cells, Rebuilt: m.rebuilt, Skipped: m.skipped, Texts: m.texts, SysPaths: keys(m.sysPaths),
		SysWrote: keys(m.sysWrote), Stale: m.stale, StaleW: m.staleW, Other: m.other,
		VioFirst: m.vioFirst, VioCount: m.vioCount, VioOrder: m.vioOrder, Outcomes: m.outcomes}
}

func (m *matrix) absorb(a agg) {
	m.cells += a.Cells
	m.rebuilt += a.Rebuilt
	for k, v := range a.Skipped {
		m.skipped[k] += v
	}
	for k, v := range a.Texts {
		m.texts[k] += v
	}
	for _, k := range a.SysPaths {
		m.sysPaths[k] = true
	}
	for _, k := range a.SysWrote {
		m.sysWrote[k] = true
	}
	m.stale += a.Stale
	m.staleW += a.StaleW
	m.other = append(m.other, a.Other...)
	for k, v := range a.Outcomes {
		m.outcomes[k] += v
	}
	for _, k := range a.VioOrder {
		if m.vioCount[k] == 0 {
			m.vioFirst[k] = a.VioFirst[k]
			m.vioOrder = append(m.vioOrder, k)
		}
		m.vioCount[k] += a.VioCount[k]
	}
}

type wline struct {
	Term   string         `json:"t,omitempty"`
	JS     map[string]any `json:"js,omitempty"`
	Bucket string         `json:"b,omitempty"`
	NT     bool           `json:"nt,omitempty"`
	Agg    *agg           `json:"agg,omitempty"`
}

// WorkerMain: `vh-C18 worker <index> <count> <outfile>` runs every count-th item of the plan in a
// process of its own (the auth package keeps global state, so servers of different configurations
// cannot share a process) and writes the cases as JSON lines.
func WorkerMain(args []string) {
	var idx, cnt int
	if len(args) != 3 {
		fmt.Fprintln(os.Stderr, "usage: worker <index> <count> <outfile>")
		os.Exit(2)
	}
	fmt.Sscan(args[0], &idx)
	fmt.Sscan(args[1], &cnt)
	f, err := os.Create(args[2])
	if err != nil {
		fmt.Fprintln(os.Stderr, err)
		os.Exit(3)
	}
	w := bufio.NewWriterSize(f, 1<<20)
	enc := json.NewEncoder(w)
	m := newMatrix()
	m.emit = func(term string, js map[string]any, bucket string, nt bool) {
		enc.Encode(wline{Term: term, JS: js, Bucket: bucket, NT: nt})
	}
	var mine []item
	for i, it := range plan() {
		if i%cnt == idx {
			mine = append(mine, it)
		}
	}
	if err := m.execute(mine); err != nil {
		fmt.Fprintln(os.Stderr, "c18 worker:", err)
		os.Exit(3)
	}
	a := m.aggregate()
	enc.Encode(wline{Agg: &a})
	w.Flush()
	f.Close()
}

func (m *matrix) specCases() {
	for _, d := range m.ds {
		m.emit(fmt.Sprintf("CSpec %q %q %d %s %s", d.svc, d.name, d.class, vk.Bool(d.mutates), vk.Bool(d.dbmgmt)),
			map[string]any{"kind": "spec", "svc": d.svc, "rpc": d.name, "class": classNames[d.class]}, "spec-row", false)
	}
}

// every RPC of the three services must have a driver
func (m *matrix) coverage() {
	have := map[string]bool{}
	for _, d := range m.ds {
		have[d.svc+"/"+d.name] = true
	}
	check := func(svc string, sd grpc.ServiceDesc) {
		for _, x := range sd.Methods {
			if !have[svc+"/"+x.MethodName] {
				m.other = append(m.other, fmt.Sprintf("C18/violation: rpc=%s/%s exists in the service descriptor but is not in the access-control matrix (new RPC: classify it and add a driver)", svc, x.MethodName))
			}
			delete(have, svc+"/"+x.MethodName)
		}
		for _, x := range sd.Streams {
			if x.ClientStreams && x.ServerStreams {
				for _, d := range m.ds {
					if d.svc == svc && d.name == x.StreamName && d.multi == nil {
						m.other = append(m.other, fmt.Sprintf("C18/violation: rpc=%s/%s is a bidirectional stream but has no mid-stream driver in the access-control matrix", svc, x.StreamName))
					}
				}
			}
			if !have[svc+"/"+x.StreamName] {
				m.other = append(m.other, fmt.Sprintf("C18/violation: rpc=%s/%s exists in the service descriptor but is not in the access-control matrix (new RPC: classify it and add a driver)", svc, x.StreamName))
			}
			delete(have, svc+"/"+x.StreamName)
		}
	}
	check("ImmuService", schema.ImmuService_ServiceDesc)
	check("DocumentService", protomodel.DocumentService_ServiceDesc)
	check("AuthorizationService", protomodel.AuthorizationService_ServiceDesc)
	for k := range have {
		m.other = append(m.other, "C18/harness: driver for an RPC that no longer exists: "+k)
	}
}

func (m *matrix) report(r *vk.Run) {
	for _, p := range keys(m.sysPaths) {
		wrote := "no (the request failed after the gate)"
		if m.sysWrote[p] {
			wrote = "yes"
		}
		r.Finding(fmt.Sprintf("C18/systemdb-write: rpc=%s goes through with systemdb selected (sysadmin credential); systemdb got a new transaction: %s", p, wrote))
	}
	if m.stale > 0 {
		r.Finding(fmt.Sprintf("C18/stale-login: login token of a user with a second live login is still accepted after SetActiveUser(false)/ChangePermission: %d matrix cells went through, %d of them changed a database", m.stale, m.staleW))
	}
	for _, k := range m.vioOrder {
		r.Finding(fmt.Sprintf("%s (and %d more matrix cells with the same RPC and reason; every run of bin/check C18 contains these cells)", m.vioFirst[k], m.vioCount[k]-1))
	}
	seen := map[string]bool{}
	for _, o := range m.other {
		if !seen[o] {
			seen[o] = true
			r.Finding(o)
		}
	}
	// the distinct status texts and how they were classified (for review)
	var ts []string
	for t, n := range m.texts {
		ts = append(ts, fmt.Sprintf("%6d  %s", n, t))
	}
	sort.Strings(ts)
	os.WriteFile(r.Dir+"/status_texts.txt", []byte(strings.Join(ts, "\n")+"\n"), 0o644)
	for k, v := range m.outcomes {
		r.Stats[k] = v
	}
	r.Stats["_cells_total"] = m.cells
	r.Stats["_credentials_reissued"] = m.rebuilt
	for k, n := range m.skipped {
		r.Stats["_skipped: "+k] = n
	}
}

func newMatrix() *matrix {
	return &matrix{ds: ordered(drivers()), skipped: map[string]int{}, texts: map[string]int{},
		sysPaths: map[string]bool{}, sysWrote: map[string]bool{}, vioFirst: map[string]string{}, vioCount: map[string]int{}, outcomes: map[string]int{}}
}

func workers() int {
	n := runtime.NumCPU() / 2
	if v, err := strconv.Atoi(os.Getenv("VERIF_C18_WORKERS")); err == nil && v > 0 {
		n = v
	}
	if n < 1 {
		n = 1
	}
	if n > 8 {
		n = 8
	}
	return n
}

// Gen runs the full matrix (n is ignored: the matrix is finite and always run completely), split over
// worker processes; the cases are merged in plan order of each worker.
func Gen(r *vk.Run, n int) error {
	m := newMatrix()
	m.emit = r.Case
	m.coverage()
	m.specCases()
	exe, err := os.Executable()
	if err != nil {
		return err
	}
	k := workers()
	type res struct {
		file string
		err  error
		out  []byte
	}
	rs := make([]res, k)
	var wg sync.WaitGroup
	for i := 0; i < k; i++ {
		rs[i].file = filepath.Join(r.Dir, fmt.Sprintf("worker_%d.jsonl", i))
		wg.Add(1)
		go func(i int) {
			defer wg.Done()
			cmd := exec.Command(exe, "worker", strconv.Itoa(i), strconv.Itoa(k), rs[i].file)
			rs[i].out, rs[i].err = cmd.CombinedOutput()
		}(i)
	}
	wg.Wait()
	for i := 0; i < k; i++ {
		if rs[i].err != nil {
			o := string(rs[i].out)
			if len(o) > 3000 {
				o = o[len(o)-3000:]
			}
			return fmt.Errorf("worker %d failed: %v\n%s", i, rs[i].err, o)
		}
		f, err := os.Open(rs[i].file)
		if err != nil {
			return err
		}
		dec := json.NewDecoder(bufio.NewReaderSize(f, 1<<20))
		for {
			var l wline
			if err := dec.Decode(&l); err != nil {
				break
			}
			if l.Agg != nil {
				m.absorb(*l.Agg)
				continue
			}
			r.Case(l.Term, l.JS, l.Bucket, l.NT)
		}
		f.Close()
		os.Remove(rs[i].file)
	}
	m.report(r)
	return nil
}

// Replay re-runs, in this process and with one Coq case per cell, the cell or the group of cells
// stored in a replay file.
func Replay(r *vk.Run, c map[string]any) error {
	s := func(k string) string { v, _ := c[k].(string); return v }
	m := newMatrix()
	m.emit = r.Case
	m.single = true
	m.only = map[string]bool{}
	switch s("kind") {
	case "cell":
		m.only[s("svc")+"/"+s("rpc")] = true
	case "stream":
	case "ctx":
		cells, _ := c["cells"].([]any)
		for _, x := range cells {
			if cm, ok := x.(map[string]any); ok {
				sv, _ := cm["svc"].(string)
				rp, _ := cm["rpc"].(string)
				m.only[sv+"/"+rp] = true
			}
		}
	default:
		return Gen(r, 0)
	}
	if err := m.execute([]item{{Cfg: s("cfg"), State: s("state"), Mech: s("mech"), Kind: s("user_kind"), Sel: s("sel_requested")}}); err != nil {
		return err
	}
	m.report(r)
	return nil
}
