package main

import (
	"os"

	"verif/harness/c18"
	"verif/harness/vk"
)

func main() {
	if len(os.Args) > 1 && os.Args[1] == "worker" {
		c18.WorkerMain(os.Args[2:])
		return
	}
	vk.Main("Tie.C18", c18.Gen, c18.Replay)
}
