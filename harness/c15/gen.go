package c15

import (
	"math"
	"math/rand"
	"time"

	"github.com/codenotary/immudb/embedded/sql"
	"verif/harness/vk"
)

// ---------------------------------------------------------------- boundary-heavy value pools
func intPool(rng *rand.Rand, extra int) []sval {
	xs := []int64{math.MinInt64, math.MinInt64 + 1, -1 << 62, -(1 << 56) - 1, -1 << 56, -1 << 32, -65536, -256, -255, -129, -128, -127, -2, -1,
		0, 1, 2, 127, 128, 255, 256, 65535, 1 << 32, (1 << 56) - 1, 1 << 56, 1 << 62, math.MaxInt64 - 1, math.MaxInt64}
	for k := 0; k < extra; k++ {
		switch rng.Intn(3) {
		case 0:
			xs = append(xs, int64(rng.Uint64()))
		case 1:
			xs = append(xs, int64(rng.Intn(2001)-1000))
		default: // around a power of two, either sign
			p := int64(1) << uint(rng.Intn(63))
			d := int64(rng.Intn(3) - 1)
			if rng.Intn(2) == 0 {
				xs = append(xs, p+d)
			} else {
				xs = append(xs, -p+d)
			}
		}
	}
	out := make([]sval, len(xs))
	for i, x := range xs {
		out[i] = vInt(x)
	}
	return out
}

func floatPool(rng *rand.Rand, extra int) []sval {
	const sgn = uint64(1) << 63
	pos := []uint64{
		0,                  // +0
		1,                  // smallest subnormal
		2,                  //
		0x000fffffffffffff, // largest subnormal
		0x0010000000000000, // smallest normal
		0x0010000000000001,
		0x3ff0000000000000, // 1.0
		0x3ff0000000000001,
		0x3fefffffffffffff,
		0x4000000000000000, // 2.0
		0x7fefffffffffffff, // MaxFloat64
		0x7ff0000000000000, // +Inf
		0x7ff0000000000001, // signalling NaN, smallest payload
		0x7ff8000000000000, // quiet NaN
		0x7ff8000000000001,
		0x7fffffffffffffff, // NaN, all ones
	}
	var xs []uint64
	for _, p := range pos {
		xs = append(xs, p, p|sgn)
	}
	for k := 0; k < extra; k++ {
		switch rng.Intn(4) {
		case 0:
			xs = append(xs, rng.Uint64())
		case 1:
			xs = append(xs, math.Float64bits(rng.NormFloat64()*math.Pow(10, float64(rng.Intn(40)-20))))
		case 2: // neighbours of an existing pattern
			b := xs[rng.Intn(len(xs))]
			xs = append(xs, b+uint64(rng.Intn(3))-1)
		default: // exponent boundary, random mantissa, random sign
			e := uint64(rng.Intn(2048))
			xs = append(xs, (uint64(rng.Intn(2))<<63)|(e<<52)|(rng.Uint64()&0x000fffffffffffff))
		}
	}
	out := make([]sval, len(xs))
	for i, x := range xs {
		out[i] = vFloat(x)
	}
	return out
}

// byte strings of length <= maxLen with the shapes that matter for padding + length suffix
func bytesPool(rng *rand.Rand, maxLen int, extra int, text bool) [][]byte {
	rep := func(b byte, n int) []byte {
		s := make([]byte, n)
		for i := range s {
			s[i] = b
		}
		return s
	}
	cand := [][]byte{{}, {0}, {0, 0}, {0, 1}, {1}, {'a'}, {'a', 0}, {'a', 0, 0}, {'a', 0, 1}, {'a', 1}, {'a', 'b'}, {'b'}, {0xff}, {0xff, 0}, {0xff, 0xff},
		{0x7f}, {0x80}, rep(0, maxLen), rep(0xff, maxLen), rep('a', maxLen)}
	if maxLen > 1 {
		cand = append(cand, rep(0, maxLen-1), rep(0xff, maxLen-1), append(rep('a', maxLen-1), 0), append(rep(0, maxLen-1), 1))
	}
	for k := 0; k < extra; k++ {
		var s []byte
		switch rng.Intn(4) {
		case 0:
			s = vk.RandBytes(rng, rng.Intn(maxLen+1))
		case 1: // shares a prefix with an earlier candidate, then diverges / stops
			b := cand[rng.Intn(len(cand))]
			s = append(vk.Clone(b[:rng.Intn(len(b)+1)]), vk.SmallBiased(rng, rng.Intn(3))...)
		case 2: // zero-heavy
			s = make([]byte, rng.Intn(maxLen+1))
			for i := range s {
				if rng.Intn(3) == 0 {
					s[i] = byte(rng.Intn(256))
				}
			}
		default:
			s = vk.SmallBiased(rng, rng.Intn(maxLen+1))
		}
		cand = append(cand, s)
	}
	// multi-byte UTF-8 (2-, 3-, 4-byte runes), truncated runes and invalid bytes: the column length is a
	// BYTE length, these fill the slot with fewer characters than bytes
	for _, n := range []int{maxLen, maxLen - 1, maxLen - 2} {
		if n > 0 {
			cand = append(cand, utf8Fill(rng, n, true), utf8Fill(rng, n, false))
		}
	}
	var out [][]byte
	for _, s := range cand {
		if len(s) <= maxLen {
			out = append(out, s)
		}
	}
	return out
}

var utf8Runes = []string{"a", "b", "é", "ß", "€", "日", "𝄞", "😀"}
var utf8Broken = [][]byte{{0xc3}, {0xe2, 0x82}, {0xf0, 0x9f, 0x98}, {0xff}, {0x80}, {0xc0, 0xaf}}

// a string of exactly n bytes made of runes of mixed widths (wide ones first); when the runes do not fit
// exactly the tail is ASCII (valid) or a truncated / invalid sequence
func utf8Fill(rng *rand.Rand, n int, valid bool) []byte {
	var s []byte
	for len(s) < n {
		r := utf8Runes[rng.Intn(len(utf8Runes))]
		if !valid && rng.Intn(4) == 0 {
			r = string(utf8Broken[rng.Intn(len(utf8Broken))])
		}
		if len(s)+len(r) > n {
			if valid {
				r = "a"
			} else {
				r = r[:n-len(s)]
			}
		}
		s = append(s, r...)
	}
	return s
}

// strings around the column length n in BYTES whose CHARACTER count stays at or below n:
// byte lengths n+1 .. 2n+2 (rejected by a byte-length check, accepted by a character count)
func utf8OverLength(rng *rand.Rand, n int) [][]byte {
	var out [][]byte
	add := func(s string) {
		if len(s) > n && len([]rune(s)) <= n {
			out = append(out, []byte(s))
		}
	}
	for _, w := range []string{"é", "€", "𝄞"} {
		for k := 1; k <= n; k++ { // k wide runes, the rest ASCII, exactly n characters and fewer
			s := ""
			for i := 0; i < k; i++ {
				s += w
			}
			for i := k; i < n; i++ {
				s += string(rune('a' + rng.Intn(3)))
			}
			add(s)
			if k < n {
				add(s[:len(s)-1]) // one character fewer
			}
			if k > 3 {
				break
			}
		}
	}
	if n >= 4 { // same wide prefix, different ASCII tails beyond the slot: distinct values
		add("ééab")
		add("éécd")
	}
	return out
}

func uuidPool(rng *rand.Rand, extra int) []sval {
	mk := func(f func(i int) byte) []byte {
		u := make([]byte, 16)
		for i := range u {
			u[i] = f(i)
		}
		return u
	}
	xs := [][]byte{
		mk(func(int) byte { return 0 }), mk(func(int) byte { return 0xff }),
		mk(func(i int) byte { return byte(i) }), mk(func(i int) byte { return byte(255 - i) }),
		mk(func(i int) byte {
			if i == 15 {
				return 1
			}
			return 0
		}),
		mk(func(i int) byte {
			if i == 0 {
				return 0x80
			}
			return 0
		}),
		mk(func(i int) byte {
			if i == 0 {
				return 0x7f
			}
			return 0xff
		}),
		mk(func(i int) byte {
			if i == 0 {
				return 1
			}
			return 0
		}),
	}
	for k := 0; k < extra; k++ {
		u := vk.RandBytes(rng, 16)
		if rng.Intn(2) == 0 { // differ from an earlier one in a single byte
			u = vk.Clone(xs[rng.Intn(len(xs))])
			u[rng.Intn(16)] = byte(rng.Intn(256))
		}
		xs = append(xs, u)
	}
	out := make([]sval, len(xs))
	for i, x := range xs {
		out[i] = vUUID(x)
	}
	return out
}

// timestamps as the engine holds them (UTC, truncated to microseconds) unless subMicro
func tsPool(rng *rand.Rand, extra int, subMicro bool) []sval {
	us := time.Microsecond
	xs := []time.Time{
		time.Unix(0, 0), time.Unix(0, 0).Add(us), time.Unix(0, 0).Add(-us), time.Unix(0, 0).Add(-time.Second), time.Unix(1, 0),
		time.Unix(-1, 999999000), time.Unix(0, 999999000),
		time.Date(1969, 12, 31, 23, 59, 59, 999999000, time.UTC),
		time.Date(1900, 1, 1, 0, 0, 0, 0, time.UTC),
		time.Date(2038, 1, 19, 3, 14, 8, 0, time.UTC),
		time.Date(2024, 2, 29, 12, 0, 0, 123456000, time.UTC),
		minNano.Truncate(us).Add(us),     // first microsecond inside the UnixNano range
		minNano.Truncate(us),             // last microsecond below it
		minNano.Truncate(us).Add(-us),    //
		maxNano.Truncate(us),             // last microsecond inside
		maxNano.Truncate(us).Add(us),     // first microsecond above
		maxNano.Truncate(us).Add(2 * us), //
		time.Date(1677, 9, 21, 0, 0, 0, 0, time.UTC),
		time.Date(1678, 1, 1, 0, 0, 0, 0, time.UTC),
		time.Date(1600, 1, 1, 0, 0, 0, 0, time.UTC),
		time.Date(1385, 6, 12, 0, 0, 0, 0, time.UTC), // one full int64 period (~584.5 years) before 1970
		time.Date(1, 1, 1, 0, 0, 0, 0, time.UTC),
		time.Date(2262, 4, 11, 23, 47, 16, 854775000, time.UTC),
		time.Date(2262, 4, 12, 0, 0, 0, 0, time.UTC),
		time.Date(2300, 1, 1, 0, 0, 0, 0, time.UTC),
		time.Date(9999, 12, 31, 23, 59, 59, 999999000, time.UTC),
	}
	for k := 0; k < extra; k++ {
		switch rng.Intn(4) {
		case 0: // inside the UnixNano range
			xs = append(xs, time.Unix(0, int64(rng.Uint64())).Truncate(us))
		case 1: // recent
			xs = append(xs, time.Unix(1600000000+int64(rng.Intn(200000000)), int64(rng.Intn(1000000))*1000))
		case 2: // years 1 .. 9999
			xs = append(xs, time.Date(1+rng.Intn(9999), time.Month(1+rng.Intn(12)), 1+rng.Intn(28), rng.Intn(24), rng.Intn(60), rng.Intn(60), rng.Intn(1000000)*1000, time.UTC))
		default: // close to another one
			xs = append(xs, xs[rng.Intn(len(xs))].Add(time.Duration(rng.Intn(5)-2)*us))
		}
	}
	out := make([]sval, 0, len(xs))
	for _, x := range xs {
		x = x.UTC()
		if subMicro {
			x = x.Add(time.Duration(1 + rng.Intn(999)))
		}
		out = append(out, vTs(x))
	}
	return out
}

func pool(rng *rand.Rand, ty, maxLen, extra int) []sval {
	switch ty {
	case tInt:
		return intPool(rng, extra)
	case tBool:
		return []sval{vBool(false), vBool(true)}
	case tStr, tBlob:
		var out []sval
		for _, b := range bytesPool(rng, maxLen, extra, ty == tStr) {
			if ty == tStr {
				out = append(out, vStr(b))
			} else {
				out = append(out, vBlob(b))
			}
		}
		return out
	case tUUID:
		return uuidPool(rng, extra)
	case tTs:
		return tsPool(rng, extra, false)
	case tFloat:
		return floatPool(rng, extra)
	}
	return nil
}

func maxLenFor(ty, declared int) int {
	if fixedLen[ty] != 0 {
		return fixedLen[ty]
	}
	return declared
}

// ---------------------------------------------------------------- the SQL value stream
func (g *gen) genSQL(budget int) {
	rng := g.r.Rng
	sql.MaxKeyLen = 1024
	varLens := []int{1, 2, 3, 5, 8, 16, 33}
	scale := budget / 2000 // extra random values per pool
	if scale < 4 {
		scale = 4
	}
	for ty := tInt; ty <= tFloat; ty++ {
		lens := []int{fixedLen[ty]}
		if fixedLen[ty] == 0 {
			lens = varLens
		}
		for _, ml := range lens {
			extra := scale * 3
			if fixedLen[ty] == 0 {
				extra = scale
			}
			vals := append(pool(rng, ty, ml, extra), vNull())
			// --- single values: both encoders, both decoders on the produced bytes, round trips
			for _, v := range vals {
				v := v
				if key := g.caseKey(v, ty, ml, "valid"); key != nil {
					g.caseKeyDec(key, ty, ml, "of-encoder", &v)
				}
				for _, nullable := range []bool{false, true} {
					vl := 0
					if fixedLen[ty] == 0 && rng.Intn(2) == 0 {
						vl = ml
					}
					if enc := g.caseVal(v, ty, vl, nullable, "valid"); enc != nil {
						if nullable && !v.null && (ty == tStr || ty == tBlob) && len(v.bs) == 0 {
							g.nullableEmpty(v, ty, enc)
						}
						g.caseValDec(enc, ty, nullable, "of-encoder", &v)
					}
				}
			}
			// --- pairs: all pairs of the boundary part (sampled when large) + random pairs
			np := len(vals)
			want := 40 * scale
			if fixedLen[ty] == 0 {
				want = 12 * scale
			}
			if np*np <= want {
				for _, a := range vals {
					for _, b := range vals {
						g.casePair(a, b, ty, ml, "all")
					}
				}
			} else {
				for k := 0; k < want; k++ {
					a, b := vals[rng.Intn(np)], vals[rng.Intn(np)]
					if k%7 == 0 {
						b = a
					}
					g.casePair(a, b, ty, ml, "sampled")
				}
			}
		}
	}
	// dedicated float pairs: every boundary pattern against every other
	fb := floatPool(rng, 0)
	for _, a := range fb {
		for _, b := range fb {
			g.casePair(a, b, tFloat, 8, "boundary")
		}
	}
	tb := tsPool(rng, 0, false)
	for _, a := range tb {
		for _, b := range tb {
			g.casePair(a, b, tTs, 8, "boundary")
		}
	}
	ib := intPool(rng, 0)
	for k := 0; k < 300; k++ {
		g.casePair(ib[rng.Intn(len(ib))], ib[rng.Intn(len(ib))], tInt, 8, "boundary")
	}
	// max-length strings / blobs (MaxKeyLen): few, they are large terms
	for _, ty := range []int{tStr, tBlob} {
		ml := sql.MaxKeyLen
		mk := func(b []byte) sval {
			if ty == tStr {
				return vStr(b)
			}
			return vBlob(b)
		}
		full := vk.RandBytes(rng, ml)
		full2 := vk.Clone(full)
		full2[ml-1] ^= 1
		vs := []sval{mk(full), mk(full2), mk(full[:ml-1]), mk(make([]byte, ml)), mk(make([]byte, ml-1)), mk(nil)}
		for _, v := range vs {
			v := v
			if key := g.caseKey(v, ty, ml, "maxkeylen"); key != nil {
				g.caseKeyDec(key, ty, ml, "maxkeylen", &v)
			}
		}
		for i := range vs {
			g.casePair(vs[i], vs[(i+1)%len(vs)], ty, ml, "maxkeylen")
		}
	}
	// sub-microsecond timestamps (not SQL values: the engine truncates; the encoders accept them)
	for _, v := range tsPool(rng, scale, true) {
		v := v
		if key := g.caseKey(v, tTs, 8, "submicro"); key != nil {
			g.caseKeyDec(key, tTs, 8, "submicro", &v)
		}
		if enc := g.caseVal(v, tTs, 0, false, "submicro"); enc != nil {
			g.caseValDec(enc, tTs, false, "submicro", &v)
		}
	}
	g.genSQLErrors(scale)
	g.genSQLMalformed(budget / 10)
}

// EncodeNullableValue / DecodeNullableValue (used by the file sorter) on an empty VARCHAR/BLOB
func (g *gen) nullableEmpty(v sval, ty int, enc []byte) {
	tv, _, err := sql.DecodeNullableValue(enc, sqlTy[ty])
	if err == nil && tv.IsNull() {
		g.finding("nullable-empty-varchar-or-blob", "value round trip: EncodeNullableValue/DecodeNullableValue (file sorter row codec) "+
			"turn an empty "+tyName[ty]+" into NULL")
	}
}

// guards of the encoders: maxLen 0 / above MaxKeyLen / wrong fixed width / value longer than the column
func (g *gen) genSQLErrors(scale int) {
	rng := g.r.Rng
	for ty := tInt; ty <= tFloat; ty++ {
		vals := pool(rng, ty, 4, 2)
		for _, ml := range []int{0, 1, 2, 7, 8, 9, 15, 16, 17, sql.MaxKeyLen, sql.MaxKeyLen + 1, 5000} {
			for k := 0; k < 3; k++ {
				v := vals[rng.Intn(len(vals))]
				if k == 0 {
					v = vNull()
				}
				g.caseKey(v, ty, ml, "guards")
			}
		}
	}
	for _, ty := range []int{tStr, tBlob} {
		for _, ml := range []int{1, 2, 5} {
			for _, n := range []int{ml + 1, ml + 2, 2 * ml} {
				b := vk.RandBytes(rng, n)
				v := vStr(b)
				if ty == tBlob {
					v = vBlob(b)
				}
				g.caseKey(v, ty, ml, "too-long")
				g.caseVal(v, ty, ml, false, "too-long")
				g.caseVal(v, ty, 0, false, "unlimited")
			}
		}
	}
	// VARCHAR[n]/BLOB[n]: n is a byte length. Multi-byte strings with at most n characters but more than n bytes
	for _, ty := range []int{tStr, tBlob} {
		for _, ml := range []int{1, 2, 3, 4, 5, 8, 16} {
			mk := func(b []byte) sval {
				if ty == tStr {
					return vStr(b)
				}
				return vBlob(b)
			}
			over := utf8OverLength(rng, ml)
			for i, b := range over {
				v := mk(b)
				if key := g.caseKey(v, ty, ml, "utf8-over-length"); key != nil {
					g.caseKeyDec(key, ty, ml, "utf8-over-length", &v) // (only when the encoder accepted it)
				}
				if enc := g.caseVal(v, ty, ml, false, "utf8-over-length"); enc != nil {
					g.caseValDec(enc, ty, false, "utf8-over-length", &v)
				}
				g.casePair(v, mk(over[(i+1)%len(over)]), ty, ml, "utf8-over-length")
			}
			// exactly n and n-1 bytes of multi-byte text: accepted, round trip, order
			var fit []sval
			for k := 0; k < 4; k++ {
				fit = append(fit, mk(utf8Fill(rng, ml, k%2 == 0)), mk(utf8Fill(rng, ml-1, k%2 == 1)))
			}
			for i, v := range fit {
				v := v
				if key := g.caseKey(v, ty, ml, "utf8-fit"); key != nil {
					g.caseKeyDec(key, ty, ml, "utf8-fit", &v)
				}
				g.casePair(v, fit[(i+3)%len(fit)], ty, ml, "utf8-fit")
			}
		}
	}
	old := sql.MaxKeyLen
	sql.MaxKeyLen = 256 // the engine option that lowers the limit
	for _, ml := range []int{255, 256, 257} {
		g.caseKey(vStr([]byte("abc")), tStr, ml, "maxkeylen-256")
	}
	sql.MaxKeyLen = old
}

// decoders on malformed bytes: mutations of valid encodings + small random strings
func (g *gen) genSQLMalformed(budget int) {
	rng := g.r.Rng
	per := budget / 14
	if per < 8 {
		per = 8
	}
	for ty := tInt; ty <= tFloat; ty++ {
		ml := maxLenFor(ty, 5)
		vals := pool(rng, ty, ml, 3)
		for k := 0; k < 4; k++ {
			v := vals[rng.Intn(len(vals))]
			if key, _, p, err := g.encKey(v, ty, ml); !p && err == nil {
				for _, m := range vk.Mutations(rng, key, per/4) {
					g.caseKeyDec(m, ty, ml, "mutated", nil)
				}
				g.caseKeyDec(append(vk.Clone(key), 7, 7), ty, ml, "trailing", nil)
				// a key of this type decoded with another column length
				g.caseKeyDec(key, ty, ml+1, "wrong-maxlen", nil)
			}
			if enc, err := sql.EncodeRawValue(v.raw(), sqlTy[ty], 0, true); err == nil {
				for _, m := range vk.Mutations(rng, enc, per/4) {
					g.caseValDec(m, ty, rng.Intn(2) == 0, "mutated", nil)
				}
			}
		}
		for k := 0; k < per/2; k++ {
			b := vk.SmallBiased(rng, rng.Intn(16))
			if len(b) > 0 && rng.Intn(2) == 0 {
				b[0] = []byte{0x20, 0x80}[rng.Intn(2)]
			}
			g.caseKeyDec(b, ty, ml, "random", nil)
			g.caseValDec(vk.SmallBiased(rng, rng.Intn(16)), ty, rng.Intn(2) == 0, "random", nil)
		}
	}
}
