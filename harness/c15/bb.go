package c15

import (
	"bytes"
	"fmt"
	"math"
	"time"

	"github.com/codenotary/immudb/embedded/sql"
	"github.com/codenotary/immudb/embedded/store"
	"github.com/codenotary/immudb/pkg/api/schema"
	"github.com/google/uuid"
	"google.golang.org/protobuf/proto"
)

// Black-box round trips of the protocol conversions (NOT modelled in Coq): store value -> protobuf
// message -> wire bytes -> protobuf message -> store value must give an equal value. Counted in the
// bucket statistics through r.Stats only (no Coq case); a failure is a direct finding.
func (g *gen) bb(bucket string) { g.r.Stats["blackbox/"+bucket]++ }

func (g *gen) genProto(n int) {
	rng := g.r.Rng
	for k := 0; k < n; k++ {
		// --- TxMetadata (a truncation id 0 is not producible: TruncateUptoTx requires a committed tx id >= 1)
		md := randTxMd(g, k%4)
		if md.HasTruncatedTxID() {
			if id, _ := md.GetTruncatedTxID(); id == 0 {
				md.WithTruncatedTxID(1 + uint64(rng.Intn(1000)))
			}
		}
		pm := schema.TxMetadataToProto(md)
		wire, err := proto.Marshal(pm)
		pm2 := &schema.TxMetadata{}
		if err == nil {
			err = proto.Unmarshal(wire, pm2)
		}
		back := schema.TxMetadataFromProto(pm2)
		g.bb("txmd")
		if err != nil || back == nil || !txMdEqual(md, back) {
			g.finding("other", fmt.Sprintf("protobuf round trip of TxMetadata %x: err=%v", md.Bytes(), err))
		}
		// --- KVMetadata
		kv := randKvMd(g, k%8)
		pk := schema.KVMetadataToProto(kv)
		wire, err = proto.Marshal(pk)
		pk2 := &schema.KVMetadata{}
		if err == nil {
			err = proto.Unmarshal(wire, pk2)
		}
		kvb := schema.KVMetadataFromProto(pk2)
		g.bb("kvmd")
		if err != nil || !kvMdEqual(kv, kvb) {
			g.finding("other", fmt.Sprintf("protobuf round trip of KVMetadata %x: err=%v", kv.Bytes(), err))
		}
		// --- TxHeader (NEntries as a store can produce them: MaxTxEntries is an int32-sized option)
		h := g.randHdr(true)
		if h.NEntries > math.MaxInt32 {
			h.NEntries = 1 + rng.Intn(math.MaxInt32)
		}
		if h.Metadata != nil && h.Metadata.HasTruncatedTxID() {
			if id, _ := h.Metadata.GetTruncatedTxID(); id == 0 {
				h.Metadata.WithTruncatedTxID(7)
			}
		}
		phd := schema.TxHeaderToProto(h)
		wire, err = proto.Marshal(phd)
		phd2 := &schema.TxHeader{}
		if err == nil {
			err = proto.Unmarshal(wire, phd2)
		}
		hb := schema.TxHeaderFromProto(phd2)
		g.bb("txhdr")
		if err != nil || !hdrEqual(h, hb) || h.Alh() != hb.Alh() {
			g.finding("other", fmt.Sprintf("protobuf round trip of TxHeader id=%d version=%d nentries=%d: err=%v", h.ID, h.Version, h.NEntries, err))
		}
	}
	// --- SQL values: TypedValue -> schema.SQLValue -> wire -> schema.SQLValue -> raw Go value
	for ty := tInt; ty <= tFloat; ty++ {
		for _, v := range pool(rng, ty, 8, n/20) {
			if tsSubMicro(v) {
				continue
			}
			sv := schema.TypedValueToRowValue(v.typed(ty))
			wire, err := proto.Marshal(sv)
			sv2 := &schema.SQLValue{}
			if err == nil {
				err = proto.Unmarshal(wire, sv2)
			}
			raw := schema.RawValue(sv2)
			ok := err == nil
			switch ty {
			case tInt:
				x, is := raw.(int64)
				ok = ok && is && x == v.i
			case tBool:
				x, is := raw.(bool)
				ok = ok && is && x == v.b
			case tStr:
				x, is := raw.(string)
				ok = ok && is && x == string(v.bs)
				if !utf8ok(v.bs) {
					ok = true // protobuf strings must be UTF-8; arbitrary bytes are outside the wire domain
				}
			case tBlob:
				x, is := raw.([]byte)
				ok = ok && is && bytes.Equal(x, v.bs)
			case tUUID: // rendered as text
				x, is := raw.(string)
				u, perr := uuid.Parse(x)
				ok = ok && is && perr == nil && bytes.Equal(u[:], v.bs)
			case tTs:
				x, is := raw.(time.Time)
				ok = ok && is && x.Equal(v.t)
			case tFloat:
				x, is := raw.(float64)
				ok = ok && is && (math.Float64bits(x) == v.f || (isNaN(v) && x != x))
			}
			g.bb("sqlvalue/" + tyName[ty])
			if !ok {
				g.finding("other", fmt.Sprintf("protobuf round trip of SQL value type=%s v=%s gives %v (err=%v)", tyName[ty], v, raw, err))
			}
			// parameter direction: Go value -> AsSQLValue -> RawValue
			if ty != tUUID {
				pv, err := schema.AsSQLValue(v.raw())
				if err == nil {
					back := schema.RawValue(pv)
					same := false
					switch x := back.(type) {
					case int64:
						same = x == v.i
					case bool:
						same = x == v.b
					case string:
						same = x == string(v.bs)
					case []byte:
						same = bytes.Equal(x, v.bs)
					case time.Time:
						same = x.Equal(v.t)
					case float64:
						same = math.Float64bits(x) == v.f
					}
					g.bb("sqlparam/" + tyName[ty])
					if !same {
						g.finding("other", fmt.Sprintf("AsSQLValue/RawValue round trip type=%s v=%s gives %v", tyName[ty], v, back))
					}
				}
			}
		}
	}
}

func utf8ok(b []byte) bool {
	for _, r := range string(b) {
		if r == 0xFFFD {
			return false
		}
	}
	return true
}

var _ = store.NewTxMetadata
var _ = sql.MaxKeyLen
