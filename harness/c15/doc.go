package c15

import (
	"context"
	"errors"
	"fmt"
	"io"
	"math"
	"os"

	"github.com/codenotary/immudb/embedded/document"
	"github.com/codenotary/immudb/embedded/logger"
	"github.com/codenotary/immudb/embedded/store"
	"github.com/codenotary/immudb/pkg/api/protomodel"
	"google.golang.org/protobuf/proto"
	"google.golang.org/protobuf/types/known/structpb"
)

// Black-box round trip of the document codec (NOT modelled): documents inserted through
// document.Engine are read back and must equal what was inserted (apart from the generated _id).
func (g *gen) genDocs(n int) error {
	rng := g.r.Rng
	ctx := context.Background()
	dir, err := os.MkdirTemp("", "vh-c15-doc")
	if err != nil {
		return err
	}
	defer os.RemoveAll(dir)
	st, err := store.Open(dir, store.DefaultOptions().WithSynced(false).WithMultiIndexing(true).
		WithLogger(logger.NewSimpleLoggerWithLevel("vh", io.Discard, logger.LogError)))
	if err != nil {
		return err
	}
	defer st.Close()
	eng, err := document.NewEngine(st, document.DefaultOptions().WithPrefix([]byte("doc.")))
	if err != nil {
		return err
	}
	err = eng.CreateCollection(ctx, "admin", "c", "", []*protomodel.Field{
		{Name: "s", Type: protomodel.FieldType_STRING},
		{Name: "n", Type: protomodel.FieldType_INTEGER},
		{Name: "b", Type: protomodel.FieldType_BOOLEAN},
		{Name: "d", Type: protomodel.FieldType_DOUBLE},
	}, []*protomodel.Index{{Fields: []string{"s"}}, {Fields: []string{"n", "d"}}})
	if err != nil {
		return err
	}
	strs := []string{"", "a", "a\x00b", "héllo wörld", "日本語", "\u0000", "quote\"back\\slash", "line\nbreak"}
	// INTEGER fields arrive as float64: boundaries of the exactly-representable range (2^53) and of int64
	// (2^63 is NOT an int64; 2^63-1024 is the largest float64 below it; -2^63 is an int64, the next
	// float64 below it is not). A value is either rejected or stored: never stored as another number.
	ints := []float64{0, 1, -1, 255, 1 << 31, -(1 << 31), 1 << 52, -(1 << 52), 9007199254740991, -9007199254740991,
		9007199254740992, 9007199254740994, -9007199254740992, -9007199254740994,
		9223372036854775808.0, math.Nextafter(9223372036854775808.0, 0), -9223372036854775808.0,
		math.Nextafter(-9223372036854775808.0, math.Inf(-1)), 4611686018427387904.0, -4611686018427387904.0, 1e19, -1e19}
	dbls := []float64{0, math.Copysign(0, -1), 1.5, -1.5, math.SmallestNonzeroFloat64, math.MaxFloat64, -math.MaxFloat64, 1e-300, 0.1}
	inserted := map[string]*structpb.Struct{}
	for k := 0; k < n; k++ {
		f := map[string]*structpb.Value{}
		if rng.Intn(5) > 0 {
			f["s"] = structpb.NewStringValue(strs[rng.Intn(len(strs))])
		}
		if k < 2*len(ints) { // every boundary at least twice, then random picks
			f["n"] = structpb.NewNumberValue(ints[k%len(ints)])
		} else if rng.Intn(5) > 0 {
			f["n"] = structpb.NewNumberValue(ints[rng.Intn(len(ints))])
		}
		if rng.Intn(5) > 0 {
			f["b"] = structpb.NewBoolValue(rng.Intn(2) == 0)
		}
		if rng.Intn(5) > 0 {
			f["d"] = structpb.NewNumberValue(dbls[rng.Intn(len(dbls))])
		}
		// fields outside the schema: nested objects, lists, null
		if rng.Intn(2) == 0 {
			f["extra"] = structpb.NewStructValue(&structpb.Struct{Fields: map[string]*structpb.Value{
				"k":    structpb.NewNumberValue(float64(k)),
				"list": structpb.NewListValue(&structpb.ListValue{Values: []*structpb.Value{structpb.NewStringValue("x"), structpb.NewNullValue(), structpb.NewNumberValue(dbls[rng.Intn(len(dbls))])}}),
			}})
		}
		doc := &structpb.Struct{Fields: f}
		_, id, err := eng.InsertDocument(ctx, "admin", "c", proto.Clone(doc).(*structpb.Struct))
		g.bb("document")
		if err != nil {
			g.r.Stats["blackbox/document-rejected"]++
			continue
		}
		inserted[id.EncodeToHexString()] = doc
	}
	rd, err := eng.GetDocuments(ctx, &protomodel.Query{CollectionName: "c"}, 0)
	if err != nil {
		return err
	}
	seen := 0
	for {
		d, err := rd.Read(ctx)
		if errors.Is(err, document.ErrNoMoreDocuments) {
			break
		}
		if err != nil {
			return err
		}
		seen++
		got := proto.Clone(d.Document).(*structpb.Struct)
		idv := got.Fields[document.DefaultDocumentIDField].GetStringValue()
		delete(got.Fields, document.DefaultDocumentIDField)
		want, ok := inserted[idv]
		if !ok || !structEqual(want, got) {
			g.finding("other", fmt.Sprintf("document round trip: inserted %v read back %v", want, got))
		}
	}
	rd.Close()
	if seen != len(inserted) {
		g.finding("other", fmt.Sprintf("document round trip: %d documents inserted, %d read back", len(inserted), seen))
	}
	// the INDEXED copy of the INTEGER field must be the number the document holds: comparisons on the
	// field select exactly the stored documents whose payload value satisfies them
	ops := []struct {
		op   protomodel.ComparisonOperator
		name string
		ok   func(x, t float64) bool
	}{
		{protomodel.ComparisonOperator_GT, ">", func(x, t float64) bool { return x > t }},
		{protomodel.ComparisonOperator_LT, "<", func(x, t float64) bool { return x < t }},
		{protomodel.ComparisonOperator_EQ, "=", func(x, t float64) bool { return x == t }},
	}
	for _, t := range []float64{0, 1 << 52, -(1 << 52), 4611686018427387904.0, -4611686018427387904.0, -9223372036854775808.0,
		math.Nextafter(9223372036854775808.0, 0)} {
		for _, o := range ops {
			want := map[string]bool{}
			for id, d := range inserted {
				if v, has := d.Fields["n"]; has && o.ok(v.GetNumberValue(), t) {
					want[id] = true
				}
			}
			rd, err := eng.GetDocuments(ctx, &protomodel.Query{CollectionName: "c", Expressions: []*protomodel.QueryExpression{{
				FieldComparisons: []*protomodel.FieldComparison{{Field: "n", Operator: o.op, Value: structpb.NewNumberValue(t)}}}}}, 0)
			if err != nil {
				return err
			}
			got := map[string]bool{}
			for {
				d, err := rd.Read(ctx)
				if errors.Is(err, document.ErrNoMoreDocuments) {
					break
				}
				if err != nil {
					rd.Close()
					return err
				}
				got[d.Document.Fields[document.DefaultDocumentIDField].GetStringValue()] = true
			}
			rd.Close()
			g.bb("document-query")
			for id := range want {
				if !got[id] {
					g.finding("other", fmt.Sprintf("document INTEGER field: stored document with n=%v is not returned by the query n %s %v",
						inserted[id].Fields["n"].GetNumberValue(), o.name, t))
					break
				}
			}
			for id := range got {
				if _, has := inserted[id].Fields["n"]; !has {
					// a document WITHOUT the field is returned by `n < t` (the engine orders NULL below every
					// value); whether that is right is a question about search semantics (C19), not about codecs
					g.r.Stats["blackbox/document-query-null-field-returned"]++
					continue
				}
				if !want[id] {
					g.finding("other", fmt.Sprintf("document INTEGER field: stored document with n=%v is returned by the query n %s %v",
						inserted[id].Fields["n"].GetNumberValue(), o.name, t))
					break
				}
			}
		}
	}
	return nil
}

// structural equality; numbers by value (so -0.0 == 0.0, as JSON text does not keep the sign of zero)
func structEqual(a, b *structpb.Struct) bool {
	if len(a.GetFields()) != len(b.GetFields()) {
		return false
	}
	for k, va := range a.GetFields() {
		vb, ok := b.GetFields()[k]
		if !ok || !valueEqual(va, vb) {
			return false
		}
	}
	return true
}

func valueEqual(a, b *structpb.Value) bool {
	switch x := a.Kind.(type) {
	case *structpb.Value_NumberValue:
		y, ok := b.Kind.(*structpb.Value_NumberValue)
		return ok && x.NumberValue == y.NumberValue
	case *structpb.Value_StructValue:
		y, ok := b.Kind.(*structpb.Value_StructValue)
		return ok && structEqual(x.StructValue, y.StructValue)
	case *structpb.Value_ListValue:
		y, ok := b.Kind.(*structpb.Value_ListValue)
		if !ok || len(x.ListValue.Values) != len(y.ListValue.Values) {
			return false
		}
		for i := range x.ListValue.Values {
			if !valueEqual(x.ListValue.Values[i], y.ListValue.Values[i]) {
				return false
			}
		}
		return true
	}
	return proto.Equal(a, b)
}
