package c15

import (
	"bytes"
	"context"
	"encoding/binary"
	"encoding/hex"
	"errors"
	"fmt"
	"io"
	"os"
	"strings"
	"time"

	"github.com/codenotary/immudb/embedded/logger"
	"github.com/codenotary/immudb/embedded/sql"
	"github.com/codenotary/immudb/embedded/store"
	"github.com/google/uuid"
	"verif/harness/vk"
)

// One schema = a table t(id INTEGER PK, c0.., ) with one composite index over (c0..); rows are
// inserted through the real engine, then
//   - every index entry key is read back from the store and handed to the model (CIndex),
//   - the order in which a scan of the index returns the rows is compared with Tuple.Compare,
//   - every row is read back and compared with what was inserted (row payload round trip).

type colSpec struct {
	ty, ml int
}

func (c colSpec) sqlDecl() string {
	switch c.ty {
	case tStr:
		return fmt.Sprintf("VARCHAR[%d]", c.ml)
	case tBlob:
		return fmt.Sprintf("BLOB[%d]", c.ml)
	}
	return tyName[c.ty]
}

func colsTerm(cs []colSpec) string {
	ts := make([]string, len(cs))
	for i, c := range cs {
		ts[i] = fmt.Sprintf("(%s, %d)", coqTy[c.ty], maxLenFor(c.ty, c.ml))
	}
	return vk.List(ts)
}

func valsTerm(vs []sval) string {
	ts := make([]string, len(vs))
	for i, v := range vs {
		ts[i] = v.term()
	}
	return vk.List(ts)
}

func valsString(vs []sval) string {
	ts := make([]string, len(vs))
	for i, v := range vs {
		ts[i] = v.String()
	}
	return strings.Join(ts, " | ")
}

type schemaCase struct {
	cols []colSpec
	rows [][]sval // index column values; the primary key of row i is ids[i]
	ids  []int64
}

func (g *gen) randSchema(nrows int) schemaCase {
	rng := g.r.Rng
	nc := 1 + rng.Intn(3)
	sc := schemaCase{}
	for i := 0; i < nc; i++ {
		ty := rng.Intn(7)
		sc.cols = append(sc.cols, colSpec{ty, []int{1, 2, 3, 6}[rng.Intn(4)]})
	}
	pools := make([][]sval, nc)
	for i, c := range sc.cols {
		p := pool(rng, c.ty, maxLenFor(c.ty, c.ml), 2)
		// few distinct values per column, so that later columns and the primary key get to decide
		k := 2 + rng.Intn(4)
		for j := 0; j < k; j++ {
			pools[i] = append(pools[i], p[rng.Intn(len(p))])
		}
		pools[i] = append(pools[i], vNull())
	}
	idPool := intPool(rng, nrows)
	seen := map[int64]bool{}
	for len(sc.rows) < nrows {
		id := idPool[rng.Intn(len(idPool))].i
		if seen[id] {
			continue
		}
		seen[id] = true
		row := make([]sval, nc)
		for i := range row {
			row[i] = pools[i][rng.Intn(len(pools[i]))]
		}
		sc.rows = append(sc.rows, row)
		sc.ids = append(sc.ids, id)
	}
	return sc
}

func rowClass(rows ...[]sval) string {
	cls := "other"
	for _, r := range rows {
		for _, v := range r {
			switch {
			case isNaN(v):
				return "float-nan-operand"
			case isZeroF(v) && v.f != 0:
				cls = "float-negative-zero"
			case tsOutOfRange(v):
				return "timestamp-outside-unixnano-range"
			}
		}
	}
	return cls
}

func (g *gen) runSchema(sc schemaCase, bucket string) error {
	ctx := context.Background()
	dir, err := os.MkdirTemp("", "vh-c15-sql")
	if err != nil {
		return err
	}
	defer os.RemoveAll(dir)
	st, err := store.Open(dir, store.DefaultOptions().WithSynced(false).WithMultiIndexing(true).
		WithLogger(logger.NewSimpleLoggerWithLevel("vh", io.Discard, logger.LogError)))
	if err != nil {
		return err
	}
	defer st.Close()
	prefix := []byte("sql.")
	eng, err := sql.NewEngine(st, sql.DefaultOptions().WithPrefix(prefix))
	if err != nil {
		return err
	}
	var decl, names []string
	for i, c := range sc.cols {
		decl = append(decl, fmt.Sprintf("c%d %s", i, c.sqlDecl()))
		names = append(names, fmt.Sprintf("c%d", i))
	}
	ddl := fmt.Sprintf("CREATE TABLE t (id INTEGER, %s, PRIMARY KEY id); CREATE INDEX ON t(%s);", strings.Join(decl, ", "), strings.Join(names, ", "))
	if _, _, err := eng.Exec(ctx, nil, ddl, nil); err != nil {
		return fmt.Errorf("%s: %w", ddl, err)
	}
	ph := make([]string, len(names))
	for i := range names {
		ph[i] = "@" + names[i]
	}
	ins := fmt.Sprintf("INSERT INTO t(id, %s) VALUES (@id, %s)", strings.Join(names, ", "), strings.Join(ph, ", "))
	var okRows [][]sval
	var okIDs []int64
	for r, row := range sc.rows {
		params := map[string]interface{}{"id": sc.ids[r]}
		for i, v := range row {
			params[names[i]] = v.raw()
			if u, isUUID := params[names[i]].(uuid.UUID); isUUID {
				params[names[i]] = u.String() // the engine takes UUID parameters in text form
			}
		}
		if _, _, err := eng.Exec(ctx, nil, ins, params); err != nil {
			// a value the engine refuses to store is outside the property's domain
			g.r.Stats["engine/insert-rejected"]++
			if os.Getenv("C15_DEBUG") != "" {
				fmt.Fprintln(os.Stderr, "rejected:", valsString(row), err)
			}
			continue
		}
		okRows, okIDs = append(okRows, row), append(okIDs, sc.ids[r])
	}
	sc.rows, sc.ids = okRows, okIDs
	if err := st.WaitForIndexingUpto(ctx, st.LastCommittedTxID()); err != nil {
		return err
	}
	cat, err := eng.Catalog(ctx, nil)
	if err != nil {
		return err
	}
	tbl, err := cat.GetTableByName("t")
	if err != nil {
		return err
	}
	var idx *sql.Index
	for _, ix := range tbl.GetIndexes() {
		if !ix.IsPrimary() {
			idx = ix
		}
	}
	if idx == nil {
		return errors.New("index not found")
	}
	// --- the real index entry keys
	ipfx := sql.MapKey(prefix, sql.MappedPrefix, sql.EncodeID(tbl.ID()), sql.EncodeID(idx.ID()))
	rtx, err := st.NewTx(ctx, store.DefaultTxOptions().WithMode(store.ReadOnlyTx))
	if err != nil {
		return err
	}
	defer rtx.Cancel()
	rd, err := rtx.NewKeyReader(store.KeyReaderSpec{Prefix: ipfx})
	if err != nil {
		return err
	}
	keyByID := map[int64][]byte{}
	nkeys := 0
	for {
		k, _, err := rd.Read(ctx)
		if errors.Is(err, store.ErrNoMoreEntries) {
			break
		}
		if err != nil {
			rd.Close()
			return err
		}
		nkeys++
		if len(k) >= 9 && k[len(k)-9] == sql.KeyValPrefixNotNull {
			id := int64(binary.BigEndian.Uint64(k[len(k)-8:]) ^ (1 << 63)) // the primary key part: INTEGER id
			keyByID[id] = vk.Clone(k)
		}
	}
	rd.Close()
	if nkeys != len(sc.rows) {
		g.finding(rowClass(sc.rows...), fmt.Sprintf("index holds %d entries for %d rows with distinct primary keys: cols=%s", nkeys, len(sc.rows), colsTerm(sc.cols)))
	}
	pk := []colSpec{{tInt, 8}}
	for r, row := range sc.rows {
		k, ok := keyByID[sc.ids[r]]
		if !ok {
			g.finding("other", fmt.Sprintf("no index entry for row id=%d %s", sc.ids[r], valsString(row)))
			continue
		}
		g.r.Case(fmt.Sprintf("CIndex %d %s %d %d %s %s %s %s %s", sql.MaxKeyLen, vk.Hex(prefix), tbl.ID(), idx.ID(),
			colsTerm(sc.cols), valsTerm(row), colsTerm(pk), valsTerm([]sval{vInt(sc.ids[r])}), vk.Hex(k)),
			map[string]any{"kind": "index", "cols": colsTerm(sc.cols), "row": valsString(row), "id": sc.ids[r], "key": hex.EncodeToString(k)},
			"index/"+bucket, true)
	}
	// --- scan order of the index vs Tuple.Compare
	q := fmt.Sprintf("SELECT id, %s FROM t USE INDEX ON (%s)", strings.Join(names, ", "), strings.Join(names, ", "))
	rr, err := eng.Query(ctx, nil, q, nil)
	if err != nil {
		return err
	}
	defer rr.Close()
	rowByID := map[int64][]sval{}
	for r, row := range sc.rows {
		rowByID[sc.ids[r]] = row
	}
	var prev sql.Tuple
	var prevRow []sval
	n := 0
	for {
		row, err := rr.Read(ctx)
		if errors.Is(err, sql.ErrNoMoreRows) {
			break
		}
		if err != nil {
			return err
		}
		n++
		id := row.ValuesByPosition[0].RawValue().(int64)
		want := rowByID[id]
		// row payload round trip (timestamps are truncated to microseconds by the engine)
		for i, tv := range row.ValuesByPosition[1:] {
			got, ok := fromTyped(tv)
			exp := want[i]
			if !exp.null && exp.ty == tTs {
				exp = vTs(exp.t.Truncate(time.Microsecond))
			}
			if !ok || !same(got, exp) {
				g.finding("other", fmt.Sprintf("row round trip: column c%d %s inserted %s read back %s", i, sc.cols[i].sqlDecl(), exp, got))
			}
		}
		tup := append(sql.Tuple{}, row.ValuesByPosition[1:]...)
		tup = append(tup, row.ValuesByPosition[0])
		if prev != nil {
			c, _, err := prev.Compare(tup)
			if err != nil || c > 0 {
				g.finding(rowClass(prevRow, want), fmt.Sprintf("index scan order disagrees with Tuple.Compare: cols=%s row %s comes before row %s (compare=%d err=%v)",
					colsTerm(sc.cols), valsString(prevRow), valsString(want), c, err))
			}
		}
		prev, prevRow = tup, want
	}
	if n != len(sc.rows) {
		g.finding(rowClass(sc.rows...), fmt.Sprintf("index scan returned %d of %d rows: cols=%s", n, len(sc.rows), colsTerm(sc.cols)))
	}
	return nil
}

func (g *gen) genEngine(nschemas, nrows int) error {
	sql.MaxKeyLen = 1024
	for k := 0; k < nschemas; k++ {
		if err := g.runSchema(g.randSchema(nrows), "random"); err != nil {
			return err
		}
	}
	// one dedicated schema per type with its full boundary pool in the first column
	for ty := tInt; ty <= tFloat; ty++ {
		sc := schemaCase{cols: []colSpec{{ty, 3}, {tInt, 8}}}
		vals := pool(g.r.Rng, ty, maxLenFor(ty, 3), 0)
		for i, v := range vals {
			if i >= 36 {
				break
			}
			sc.rows = append(sc.rows, []sval{v, vInt(int64(i % 3))})
			sc.ids = append(sc.ids, int64(i)-5)
		}
		if err := g.runSchema(sc, "pool-"+tyName[ty]); err != nil {
			return err
		}
	}
	return nil
}

var _ = bytes.Compare
