package c15

import (
	"bytes"
	"fmt"
	"math"

	"github.com/codenotary/immudb/embedded/store"
	"github.com/codenotary/immudb/pkg/api/schema"

	"verif/harness/c16"
	"verif/harness/vk"
)

// Protocol conversions of pkg/api/schema/database_protoconv.go tied to coq/Store/ProtoConv.v at the
// level of the generated message structs (the protobuf wire itself stays a black box, bb.go).
// Every case records the store value, the message the conversion produced and what the reverse
// conversion made of it; the Coq side recomputes both with the model.

func pTxMdTerm(p *schema.TxMetadata) string {
	return fmt.Sprintf("{| pt_trunc := %d; pt_extra := %s |}", p.TruncatedTxID, vk.Hex(p.Extra))
}

func optPTxMdTerm(p *schema.TxMetadata) string {
	if p == nil {
		return "None"
	}
	return "(Some " + pTxMdTerm(p) + ")"
}

func pKvMdTerm(p *schema.KVMetadata) string {
	exp := "None"
	if p.Expiration != nil {
		exp = fmt.Sprintf("(Some %d)", uint64(p.Expiration.ExpiresAt))
	}
	return fmt.Sprintf("{| pk_deleted := %s; pk_exp := %s; pk_nonidx := %s |}", vk.Bool(p.Deleted), exp, vk.Bool(p.NonIndexable))
}

func optPKvMdTerm(p *schema.KVMetadata) string {
	if p == nil {
		return "None"
	}
	return "(Some " + pKvMdTerm(p) + ")"
}

func optKvMdTerm(md *store.KVMetadata) string {
	if md == nil {
		return "None"
	}
	return "(Some " + c16.KvMdTerm(md) + ")"
}

func pHdrTerm(p *schema.TxHeader) string {
	return fmt.Sprintf("{| ph_id := %d; ph_prevalh := %s; ph_ts := %d; ph_version := %d; ph_md := %s; ph_nentries := %d; ph_eh := %s; ph_bltxid := %d; ph_blroot := %s |}",
		p.Id, vk.Hex(p.PrevAlh), uint64(p.Ts), uint32(p.Version), optPTxMdTerm(p.Metadata), uint32(p.Nentries), vk.Hex(p.EH), p.BlTxId, vk.Hex(p.BlRoot))
}

// an int is written as its 64-bit two's-complement pattern (the model's representation)
func hdrTermU(h *store.TxHeader) string {
	md := "None"
	if h.Metadata != nil {
		md = "(Some " + c16.TxMdTerm(h.Metadata) + ")"
	}
	return fmt.Sprintf("{| h_id := %d; h_prevalh := %s; h_ts := %d; h_version := %d; h_md := %s; h_nentries := %d; h_eh := %s; h_bltxid := %d; h_blroot := %s |}",
		h.ID, vk.Hex(h.PrevAlh[:]), uint64(h.Ts), uint64(h.Version), md, uint64(h.NEntries), vk.Hex(h.Eh[:]), h.BlTxID, vk.Hex(h.BlRoot[:]))
}

func (g *gen) caseProtoTxMd(md *store.TxMetadata, bucket string) {
	p := schema.TxMetadataToProto(md)
	back := schema.TxMetadataFromProto(p)
	lossless := back != nil && bytes.Equal(md.Bytes(), back.Bytes())
	g.r.Case(fmt.Sprintf("CPTxMd %s %s %s", c16.TxMdTerm(md), pTxMdTerm(p), c16.TxMdTerm(back)),
		map[string]any{"kind": "ptxmd", "bytes": fmt.Sprintf("%x", md.Bytes()), "violates": !lossless},
		"proto-txmd/"+bucket, len(md.Bytes()) > 0)
	if !lossless {
		class := "other"
		tr, _ := md.GetTruncatedTxID()
		if (md.HasTruncatedTxID() && tr == 0) || (md.Extra() != nil && len(md.Extra()) == 0) {
			class = "proto-txmd-degenerate-attribute"
		}
		g.finding(class, fmt.Sprintf("TxMetadataFromProto(TxMetadataToProto(md)) differs from md: md.Bytes()=%x back.Bytes()=%x", md.Bytes(), back.Bytes()))
	}
}

func (g *gen) caseProtoTxMdFrom(p *schema.TxMetadata, bucket string) {
	back := schema.TxMetadataFromProto(p)
	g.r.Case(fmt.Sprintf("CPTxMdFrom %s %s", pTxMdTerm(p), c16.TxMdTerm(back)),
		map[string]any{"kind": "ptxmdfrom", "trunc": p.TruncatedTxID, "extralen": len(p.Extra)},
		"proto-txmd-from/"+bucket, p.TruncatedTxID > 0 || len(p.Extra) > 0)
}

func (g *gen) caseProtoKvMd(md *store.KVMetadata, bucket string) {
	p := schema.KVMetadataToProto(md)
	back := schema.KVMetadataFromProto(p)
	lossless := back != nil && kvMdEqual(md, back)
	g.r.Case(fmt.Sprintf("CPKvMd %s %s %s", c16.KvMdTerm(md), pKvMdTerm(p), c16.KvMdTerm(back)),
		map[string]any{"kind": "pkvmd", "bytes": fmt.Sprintf("%x", md.Bytes()), "violates": !lossless},
		"proto-kvmd/"+bucket, len(md.Bytes()) > 0)
	if !lossless {
		g.finding("other", fmt.Sprintf("KVMetadataFromProto(KVMetadataToProto(md)) differs from md: md.Bytes()=%x", md.Bytes()))
	}
}

// inDomain: the guard txhdr_proto_ok of the theorem (digests are arrays on the Go side)
func hdrProtoDomain(h *store.TxHeader) bool {
	if h.Version < 0 || h.Version > math.MaxInt32 || h.NEntries < 0 || h.NEntries > math.MaxInt32 {
		return false
	}
	if h.Metadata != nil {
		tr, _ := h.Metadata.GetTruncatedTxID()
		if h.Metadata.HasTruncatedTxID() && tr == 0 {
			return false
		}
		if h.Metadata.Extra() != nil && len(h.Metadata.Extra()) == 0 {
			return false
		}
	}
	return true
}

func (g *gen) caseProtoHdr(h *store.TxHeader, bucket string) {
	p := schema.TxHeaderToProto(h)
	back := schema.TxHeaderFromProto(p)
	same := hdrEqual(h, back)
	dom := hdrProtoDomain(h)
	g.r.Case(fmt.Sprintf("CPHdr %s %s %s", hdrTermU(h), pHdrTerm(p), hdrTermU(back)),
		map[string]any{"kind": "phdr", "id": h.ID, "version": h.Version, "nentries": h.NEntries, "violates": dom && !same},
		"proto-txhdr/"+bucket, true)
	if dom && !same {
		g.finding("other", fmt.Sprintf("TxHeaderFromProto(TxHeaderToProto(h)) differs from h: id=%d version=%d nentries=%d", h.ID, h.Version, h.NEntries))
	}
}

func (g *gen) caseProtoHdrFrom(p *schema.TxHeader, bucket string) {
	back := schema.TxHeaderFromProto(p)
	g.r.Case(fmt.Sprintf("CPHdrFrom %s %s", pHdrTerm(p), hdrTermU(back)),
		map[string]any{"kind": "phdrfrom", "id": p.Id, "lens": []int{len(p.PrevAlh), len(p.EH), len(p.BlRoot)}},
		"proto-txhdr-from/"+bucket, true)
}

func (g *gen) caseProtoEntry(key []byte, md *store.KVMetadata, vLen int, hVal [32]byte, bucket string) {
	e := store.NewTxEntry(key, md, vLen, hVal, 0)
	p := schema.TxEntryToProto(e)
	// the per-entry part of schema.TxFromProto
	b := store.NewTxEntry(p.Key, schema.KVMetadataFromProto(p.Metadata), int(p.VLen), schema.DigestFromProto(p.HValue), 0)
	bh := b.HVal()
	same := bytes.Equal(b.Key(), key) && b.VLen() == vLen && bh == hVal &&
		((md == nil && b.Metadata() == nil) || (md != nil && b.Metadata() != nil && kvMdEqual(md, b.Metadata())))
	dom := vLen >= 0 && vLen <= math.MaxInt32
	sterm := func(k []byte, m *store.KVMetadata, vl int, hv [32]byte) string {
		return fmt.Sprintf("{| se_key := %s; se_md := %s; se_vlen := %d; se_hval := %s |}", vk.Hex(k), optKvMdTerm(m), uint64(vl), vk.Hex(hv[:]))
	}
	pterm := fmt.Sprintf("{| pe_key := %s; pe_md := %s; pe_hvalue := %s; pe_vlen := %d |}", vk.Hex(p.Key), optPKvMdTerm(p.Metadata), vk.Hex(p.HValue), uint32(p.VLen))
	g.r.Case(fmt.Sprintf("CPEntry %s %s %s", sterm(key, md, vLen, hVal), pterm, sterm(b.Key(), b.Metadata(), b.VLen(), bh)),
		map[string]any{"kind": "pentry", "keylen": len(key), "vlen": vLen, "violates": dom && !same},
		"proto-entry/"+bucket, true)
	if dom && !same {
		g.finding("other", fmt.Sprintf("TxEntryToProto / TxFromProto entry round trip differs: key=%x vlen=%d", key, vLen))
	}
}

func (g *gen) caseProtoDigests(l [][]byte, bucket string) {
	back := schema.DigestsFromProto(l)
	in, out := make([]string, len(l)), make([]string, len(back))
	same := len(l) == len(back)
	for i := range l {
		in[i] = vk.Hex(l[i])
	}
	for i := range back {
		out[i] = vk.Hex(back[i][:])
		if i < len(l) && len(l[i]) == 32 && !bytes.Equal(l[i], back[i][:]) {
			same = false
		}
	}
	g.r.Case(fmt.Sprintf("CPDigests %s %s", vk.List(in), vk.List(out)),
		map[string]any{"kind": "pdigests", "n": len(l), "violates": !same}, "proto-digests/"+bucket, len(l) > 0)
	if !same {
		g.finding("other", fmt.Sprintf("DigestsFromProto changed a 32-byte term or the number of terms (%d -> %d)", len(l), len(back)))
	}
}

// genProtoConv: budget n conversions of each kind.
func (g *gen) genProtoConv(n int) {
	rng := g.r.Rng
	// the two degenerate attributes TxMetadata.ReadFrom accepts (always, first): known finding
	for _, bs := range [][]byte{{0, 0, 0, 0, 0, 0, 0, 0, 0}, {1, 0, 0}, {0, 0, 0, 0, 0, 0, 0, 0, 0, 1, 0, 0}} {
		md := store.NewTxMetadata()
		if err := md.ReadFrom(bs); err != nil {
			g.finding("other", fmt.Sprintf("TxMetadata.ReadFrom(%x) = %v (the degenerate-attribute probe of the protocol conversion no longer applies)", bs, err))
			continue
		}
		g.caseProtoTxMd(md, "degenerate")
		h := g.randHdr(true)
		h.Version = 1
		h.Metadata = md
		g.caseProtoHdr(h, "degenerate-metadata")
	}
	bigs := []int{1<<31 - 1, 1 << 31, 1<<31 + 5, 1<<32 - 1, 1 << 32, 1<<32 + 1, 1<<40 + 3, math.MaxInt64, -1, -2, math.MinInt32, math.MinInt32 - 1, math.MinInt64}
	extras := []int{0, 1, 2, 255, 256, 257, 300}
	dlens := []int{0, 1, 31, 32, 32, 32, 33, 40, 64}
	for k := 0; k < n; k++ {
		md := randTxMd(g, k%4)
		if md.HasTruncatedTxID() && rng.Intn(8) > 0 {
			if id, _ := md.GetTruncatedTxID(); id == 0 {
				md.WithTruncatedTxID(1 + uint64(rng.Intn(1000)))
			}
		}
		g.caseProtoTxMd(md, "api")
		pm := &schema.TxMetadata{}
		if rng.Intn(2) == 0 {
			pm.TruncatedTxID = []uint64{0, 1, 2, 1 << 40, math.MaxUint64, rng.Uint64()}[rng.Intn(6)]
		}
		if rng.Intn(4) > 0 {
			pm.Extra = vk.RandBytes(rng, extras[rng.Intn(len(extras))])
			if len(pm.Extra) == 0 && rng.Intn(2) == 0 {
				pm.Extra = nil
			}
		}
		g.caseProtoTxMdFrom(pm, "message")
		g.caseProtoKvMd(randKvMd(g, k%8), "api")

		h := g.randHdr(rng.Intn(4) > 0)
		bucket := "valid"
		switch rng.Intn(6) {
		case 0:
			h.Version = bigs[rng.Intn(len(bigs))]
			bucket = "version-outside-int32"
		case 1:
			h.NEntries = bigs[rng.Intn(len(bigs))]
			bucket = "nentries-outside-int32"
		case 2:
			if rng.Intn(2) == 0 {
				h.Metadata = nil
			} else {
				h.Metadata = store.NewTxMetadata()
			}
			bucket = "nil-or-empty-metadata"
		}
		g.caseProtoHdr(h, bucket)

		ph := schema.TxHeaderToProto(g.randHdr(true))
		switch rng.Intn(4) {
		case 0:
			ph.PrevAlh = vk.RandBytes(rng, dlens[rng.Intn(len(dlens))])
		case 1:
			ph.EH = vk.RandBytes(rng, dlens[rng.Intn(len(dlens))])
		case 2:
			ph.BlRoot = vk.RandBytes(rng, dlens[rng.Intn(len(dlens))])
		case 3:
			ph.PrevAlh, ph.EH, ph.BlRoot = nil, vk.RandBytes(rng, 33), vk.RandBytes(rng, 5)
		}
		if rng.Intn(3) == 0 {
			ph.Version = int32(bigs[rng.Intn(len(bigs))])
			ph.Nentries = int32(bigs[rng.Intn(len(bigs))])
		}
		if rng.Intn(3) == 0 {
			ph.Metadata = pm
		}
		g.caseProtoHdrFrom(ph, "message")

		var hv [32]byte
		rng.Read(hv[:])
		var kmd *store.KVMetadata
		if rng.Intn(3) > 0 {
			kmd = randKvMd(g, rng.Intn(8))
		}
		vl := []int{0, 1, 255, 1 << 16, 1<<31 - 1, rng.Intn(1 << 20)}[rng.Intn(6)]
		bucket = "valid"
		if rng.Intn(8) == 0 {
			vl = bigs[rng.Intn(len(bigs))]
			bucket = "vlen-outside-int32"
		}
		g.caseProtoEntry(vk.RandBytes(rng, []int{0, 1, 5, 32, 300}[rng.Intn(5)]), kmd, vl, hv, bucket)
		if k%4 == 0 {
			terms := make([][]byte, rng.Intn(6))
			bucket = "32-byte-terms"
			for i := range terms {
				terms[i] = vk.RandBytes(rng, 32)
				if k%8 == 0 && rng.Intn(2) == 0 {
					terms[i] = vk.RandBytes(rng, dlens[rng.Intn(len(dlens))])
					bucket = "odd-length-terms"
				}
			}
			g.caseProtoDigests(terms, bucket)
		}
	}
}
