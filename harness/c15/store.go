package c15

import (
	"bytes"
	"context"
	"encoding/hex"
	"fmt"
	"io"
	"math"
	"os"
	"time"

	"github.com/codenotary/immudb/embedded/logger"
	"github.com/codenotary/immudb/embedded/store"
	"verif/harness/c16"
	"verif/harness/vk"
)

// ---------------------------------------------------------------- TxMetadata / KVMetadata / TxHeader
func randTxMd(g *gen, shape int) *store.TxMetadata {
	rng := g.r.Rng
	md := store.NewTxMetadata()
	if shape&1 != 0 {
		ids := []uint64{0, 1, 2, 255, 256, 1 << 32, math.MaxUint64 - 1, math.MaxUint64, rng.Uint64()}
		md.WithTruncatedTxID(ids[rng.Intn(len(ids))])
	}
	if shape&2 != 0 {
		lens := []int{1, 2, 3, 7, 8, 255, 256, 1 + rng.Intn(40)}
		md.WithExtra(vk.RandBytes(rng, lens[rng.Intn(len(lens))]))
	}
	return md
}

func txMdEqual(a, b *store.TxMetadata) bool {
	if a.HasTruncatedTxID() != b.HasTruncatedTxID() {
		return false
	}
	x, _ := a.GetTruncatedTxID()
	y, _ := b.GetTruncatedTxID()
	return (!a.HasTruncatedTxID() || x == y) && bytes.Equal(a.Extra(), b.Extra())
}

func (g *gen) caseTxMd(md *store.TxMetadata, bucket string) {
	bs := md.Bytes()
	back := store.NewTxMetadata()
	p, err := guard(func() error { return back.ReadFrom(vk.Exact(bs)) })
	ok := ""
	if !p && err == nil {
		ok = c16.TxMdTerm(back)
	}
	g.r.Case(fmt.Sprintf("CTxMd %s %s %s", c16.TxMdTerm(md), vk.Hex(bs), resTerm(p, err, ok)),
		map[string]any{"kind": "txmd", "bytes": hex.EncodeToString(bs), "panic": p, "err": errStr(err),
			"violates": p || err != nil || !txMdEqual(md, back)},
		"txmd/"+bucket, len(bs) > 0)
	if p || err != nil || !txMdEqual(md, back) {
		g.finding("other", fmt.Sprintf("TxMetadata round trip: Bytes()=%x ReadFrom err=%v panic=%v", bs, err, p))
	}
}

func randKvMd(g *gen, shape int) *store.KVMetadata {
	rng := g.r.Rng
	md := store.NewKVMetadata()
	if shape&1 != 0 {
		md.AsDeleted(true)
	}
	if shape&2 != 0 {
		ts := []int64{0, 1, -1, 1 << 31, 1 << 32, 4000000000, math.MaxInt64, math.MinInt64, rng.Int63(), -rng.Int63()}
		md.ExpiresAt(time.Unix(ts[rng.Intn(len(ts))], 0))
	}
	if shape&4 != 0 {
		md.AsNonIndexable(true)
	}
	return md
}

func kvMdEqual(a, b *store.KVMetadata) bool {
	if a == nil || b == nil {
		return (a == nil || len(a.Bytes()) == 0) && (b == nil || len(b.Bytes()) == 0)
	}
	if a.Deleted() != b.Deleted() || a.NonIndexable() != b.NonIndexable() || a.IsExpirable() != b.IsExpirable() {
		return false
	}
	if a.IsExpirable() {
		x, _ := a.ExpirationTime()
		y, _ := b.ExpirationTime()
		return x.Unix() == y.Unix()
	}
	return true
}

func (g *gen) caseKvMd(md *store.KVMetadata, bucket string) {
	bs := md.Bytes()
	var back *store.KVMetadata
	p, err := guard(func() error {
		var e error
		back, e = store.VerifKVMetadataFromBytes(vk.Exact(bs))
		return e
	})
	ok := ""
	good := !p && err == nil
	if good {
		ok = c16.KvMdTerm(back)
		good = kvMdEqual(md, back)
	}
	g.r.Case(fmt.Sprintf("CKvMd %s %s %s", c16.KvMdTerm(md), vk.Hex(bs), resTerm(p, err, ok)),
		map[string]any{"kind": "kvmd", "bytes": hex.EncodeToString(bs), "panic": p, "err": errStr(err), "violates": !good},
		"kvmd/"+bucket, len(bs) > 0)
	if !good {
		g.finding("other", fmt.Sprintf("KVMetadata round trip: Bytes()=%x decode err=%v panic=%v", bs, err, p))
	}
}

func hdrEqual(a, b *store.TxHeader) bool {
	mdE := func(x, y *store.TxMetadata) bool {
		xe := x == nil || len(x.Bytes()) == 0
		ye := y == nil || len(y.Bytes()) == 0
		if xe || ye {
			return xe && ye
		}
		return txMdEqual(x, y)
	}
	return a.ID == b.ID && a.PrevAlh == b.PrevAlh && a.Ts == b.Ts && a.Version == b.Version && mdE(a.Metadata, b.Metadata) &&
		a.NEntries == b.NEntries && a.Eh == b.Eh && a.BlTxID == b.BlTxID && a.BlRoot == b.BlRoot
}

// inside the encoder's validity domain (the guard of C15_txhdr_roundtrip)
func hdrValid(h *store.TxHeader) bool {
	if h.ID < 1 || h.BlTxID >= h.ID || h.NEntries < 1 {
		return false
	}
	switch h.Version {
	case 0:
		return (h.Metadata == nil || len(h.Metadata.Bytes()) == 0) && h.NEntries < 1<<16
	case 1:
		return h.NEntries < 1<<32
	}
	return false
}

func (g *gen) caseHdr(h *store.TxHeader, bucket string) {
	var bs []byte
	p, err := guard(func() error {
		var e error
		bs, e = h.Bytes()
		return e
	})
	back := &store.TxHeader{}
	backTerm := "(Err 0)"
	var p2 bool
	var err2 error
	if !p && err == nil {
		p2, err2 = guard(func() error { return back.ReadFrom(vk.Exact(bs)) })
		ok := ""
		if !p2 && err2 == nil {
			ok = c16.HdrTerm(back)
		}
		backTerm = resTerm(p2, err2, ok)
	}
	viol := hdrValid(h) && (p || err != nil || p2 || err2 != nil || !hdrEqual(h, back))
	g.r.Case(fmt.Sprintf("CHdr %s %s %s", c16.HdrTerm(h), resTerm(p, err, vk.Hex(bs)), backTerm),
		map[string]any{"kind": "hdr", "bytes": hex.EncodeToString(bs), "panic": p || p2, "err": errStr(err) + errStr(err2), "violates": viol,
			"valid": hdrValid(h)},
		"hdr/"+bucket, true)
	if viol {
		g.finding("other", fmt.Sprintf("TxHeader round trip: %s Bytes()=%x err=%v ReadFrom err=%v", c16.HdrTerm(h), bs, err, err2))
	}
}

func (g *gen) randHdr(valid bool) *store.TxHeader {
	rng := g.r.Rng
	ids := []uint64{1, 2, 3, 255, 256, 1 << 32, math.MaxUint64, 2 + uint64(rng.Intn(100000))}
	h := &store.TxHeader{ID: ids[rng.Intn(len(ids))], Version: rng.Intn(2)}
	tss := []int64{0, 1, -1, math.MaxInt64, math.MinInt64, rng.Int63(), 1700000000}
	h.Ts = tss[rng.Intn(len(tss))]
	switch rng.Intn(3) {
	case 0:
		h.BlTxID = 0
	case 1:
		h.BlTxID = h.ID - 1
	default:
		h.BlTxID = rng.Uint64() % h.ID
	}
	rng.Read(h.PrevAlh[:])
	rng.Read(h.Eh[:])
	if rng.Intn(4) > 0 {
		rng.Read(h.BlRoot[:])
	}
	nes := []int{1, 2, 255, 256, 65535}
	if h.Version == 1 {
		nes = append(nes, 65536, 1<<31-1, 1<<31, 1<<32-1, 1+rng.Intn(1<<20))
		if rng.Intn(5) > 0 {
			h.Metadata = randTxMd(g, rng.Intn(4))
		}
	} else if rng.Intn(3) == 0 {
		h.Metadata = store.NewTxMetadata() // empty metadata is accepted by version 0
	}
	h.NEntries = nes[rng.Intn(len(nes))]
	if !valid { // step outside the encoder's domain: the model must still agree with the code
		switch rng.Intn(6) {
		case 0:
			h.ID = 0
			h.BlTxID = 0
		case 1:
			h.BlTxID = h.ID
		case 2:
			h.NEntries = 0
		case 3:
			h.Version = 2 + rng.Intn(3)
		case 4:
			h.Version = 0
			h.Metadata = randTxMd(g, 1+rng.Intn(3))
		case 5:
			h.Version = 0
			h.NEntries = 65536 + rng.Intn(3) // uint16 truncation
		}
	}
	return h
}

func (g *gen) genStoreCodecs(budget int) {
	per := budget / 4
	for k := 0; k < per; k++ {
		g.caseTxMd(randTxMd(g, k%4), "api")
	}
	for k := 0; k < per; k++ {
		g.caseKvMd(randKvMd(g, k%8), "api")
	}
	for k := 0; k < per; k++ {
		g.caseHdr(g.randHdr(true), "valid")
	}
	for k := 0; k < per/2; k++ {
		g.caseHdr(g.randHdr(false), "outside-domain")
	}
}

// ---------------------------------------------------------------- ExportTx -> ReplicateTx on real stores
func entryTerm(key []byte, md *store.KVMetadata, val []byte) string {
	mdt := "None"
	if md != nil {
		mdt = "(Some " + c16.KvMdTerm(md) + ")"
	}
	return fmt.Sprintf("{| x_key := %s; x_md := %s; x_val := %s |}", vk.Hex(key), mdt, vk.Hex(val))
}

type rentry struct {
	key []byte
	md  *store.KVMetadata
	val []byte
}

func readTxOf(s *store.ImmuStore, id uint64) (*store.TxHeader, []rentry, error) {
	holder := store.NewTx(s.MaxTxEntries(), s.MaxKeyLen())
	if err := s.ReadTx(id, false, holder); err != nil {
		return nil, nil, err
	}
	h := *holder.Header()
	var es []rentry
	for _, e := range holder.Entries() {
		v, err := s.ReadValue(e)
		if err != nil {
			return nil, nil, err
		}
		es = append(es, rentry{vk.Clone(e.Key()), e.Metadata(), vk.Clone(v)})
	}
	return &h, es, nil
}

func entriesTerm(es []rentry) string {
	ts := make([]string, len(es))
	for i, e := range es {
		ts[i] = entryTerm(e.key, e.md, e.val)
	}
	return vk.List(ts)
}

func (g *gen) genExport(ntx int) error {
	rng := g.r.Rng
	ctx := context.Background()
	for _, cfg := range []struct {
		name     string
		version  int
		embedded bool
	}{{"v1", 1, false}, {"v1-embedded", 1, true}, {"v0", 0, false}} {
		pdir, err := os.MkdirTemp("", "vh-c15-p")
		if err != nil {
			return err
		}
		defer os.RemoveAll(pdir)
		rdir, err := os.MkdirTemp("", "vh-c15-r")
		if err != nil {
			return err
		}
		defer os.RemoveAll(rdir)
		opts := store.DefaultOptions().WithSynced(false).WithMaxConcurrency(4).WithWriteTxHeaderVersion(cfg.version).
			WithEmbeddedValues(cfg.embedded).WithLogger(logger.NewSimpleLoggerWithLevel("vh", io.Discard, logger.LogError))
		primary, err := store.Open(pdir, opts)
		if err != nil {
			return err
		}
		defer primary.Close()
		replica, err := store.Open(rdir, opts)
		if err != nil {
			return err
		}
		defer replica.Close()

		for t := 1; t <= ntx; t++ {
			tx, err := primary.NewWriteOnlyTx(ctx)
			if err != nil {
				return err
			}
			if cfg.version == 1 && t%3 != 0 {
				md := store.NewTxMetadata()
				md.WithExtra(vk.RandBytes(rng, []int{1, 2, 100, 256}[rng.Intn(4)]))
				tx.WithMetadata(md)
			}
			ne := []int{1, 1, 2, 3, 5, 9}[rng.Intn(6)]
			for e := 0; e < ne; e++ {
				var md *store.KVMetadata
				if cfg.version == 1 && rng.Intn(3) > 0 {
					md = randKvMd(g, rng.Intn(8))
					if md.IsExpirable() { // keep it readable: not yet expired
						md.ExpiresAt(time.Unix(4000000000+int64(rng.Intn(1000)), 0))
					}
				}
				klen := []int{1, 2, 3, 17, 40, 255}[rng.Intn(6)]
				if t == 2 && e == 0 {
					klen = primary.MaxKeyLen()
				}
				key := vk.RandBytes(rng, klen)
				key[0] = byte(t)
				if klen > 1 {
					key[1] = byte(e)
				}
				vlen := []int{0, 0, 1, 2, 33, 150}[rng.Intn(6)]
				if err := tx.Set(key, md, vk.RandBytes(rng, vlen)); err != nil {
					return err
				}
			}
			hdr, err := tx.Commit(ctx)
			if err != nil {
				return err
			}
			id := hdr.ID
			holder := store.NewTx(primary.MaxTxEntries(), primary.MaxKeyLen())
			etx, err := primary.ExportTx(id, false, false, holder)
			if err != nil {
				return err
			}
			ph, pes, err := readTxOf(primary, id)
			if err != nil {
				return err
			}
			if _, err := replica.ReplicateTx(ctx, vk.Exact(etx), false, false); err != nil {
				g.finding("other", fmt.Sprintf("export round trip: ReplicateTx rejected the bytes ExportTx produced for tx %d (%s): %v", id, cfg.name, err))
				return nil
			}
			rh, res, err := readTxOf(replica, id)
			if err != nil {
				return err
			}
			same := hdrEqual(ph, rh) && len(pes) == len(res)
			for i := 0; same && i < len(pes); i++ {
				same = bytes.Equal(pes[i].key, res[i].key) && kvMdEqual(pes[i].md, res[i].md) && bytes.Equal(pes[i].val, res[i].val)
			}
			g.r.Case(fmt.Sprintf("CExport %s %s false %s %s %s", c16.HdrTerm(ph), entriesTerm(pes), vk.Hex(etx), c16.HdrTerm(rh), entriesTerm(res)),
				map[string]any{"kind": "export", "store": cfg.name, "tx": id, "bytes": hex.EncodeToString(etx), "violates": !same},
				"export/"+cfg.name, true)
			if !same {
				g.finding("other", fmt.Sprintf("export round trip: tx %d of store %s differs on the replica (exported %x)", id, cfg.name, etx))
			}
		}
	}
	return nil
}
