package main

import (
	"verif/harness/c15"
	"verif/harness/vk"
)

func main() { vk.Main("Tie.C15", c15.Gen, c15.Replay) }
