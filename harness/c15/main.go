package c15

import (
	"fmt"

	"verif/harness/vk"
)

// Gen generates the cases of one run (budget n) and runs them on the implementation.
func Gen(r *vk.Run, n int) error {
	g := &gen{r: r, perCls: map[string]int{}}
	g.genSQL(n)
	return nil
}

// Replay re-runs one recorded case on the implementation.
func Replay(r *vk.Run, c map[string]any) error {
	g := &gen{r: r, perCls: map[string]int{}}
	num := func(k string) int { f, _ := c[k].(float64); return int(f) }
	str := func(k string) string { s, _ := c[k].(string); return s }
	switch c["kind"] {
	case "key":
		v, err := parseSval(str("v"))
		if err != nil {
			return err
		}
		g.caseKey(v, num("ty"), num("maxlen"), "replay")
	default:
		return fmt.Errorf("case kind %v is replayed by seed: bin/check C15 --seed <seed of the run>", c["kind"])
	}
	return nil
}
