package c15

import (
	"encoding/hex"
	"fmt"

	"verif/harness/vk"
)

// Gen generates the cases of one run (budget n) and runs them on the implementation.
func Gen(r *vk.Run, n int) error {
	g := &gen{r: r, perCls: map[string]int{}}
	g.genSQL(n)
	g.genStoreCodecs(n / 16)
	if err := g.genExport(4 + n/4000); err != nil {
		return err
	}
	if err := g.genEngine(6+n/1500, 10); err != nil {
		return err
	}
	g.genProto(100 + n/40)
	g.genProtoConv(40 + n/60)
	return g.genDocs(60 + n/200)
}

// Replay re-runs one recorded case on the implementation.
func Replay(r *vk.Run, c map[string]any) error {
	g := &gen{r: r, perCls: map[string]int{}}
	num := func(k string) int { f, _ := c[k].(float64); return int(f) }
	str := func(k string) string { s, _ := c[k].(string); return s }
	flag := func(k string) bool { b, _ := c[k].(bool); return b }
	val := func(k string) (sval, error) { return parseSval(str(k)) }
	switch c["kind"] {
	case "key":
		v, err := val("v")
		if err != nil {
			return err
		}
		if key := g.caseKey(v, num("ty"), num("maxlen"), "replay"); key != nil {
			g.caseKeyDec(key, num("ty"), num("maxlen"), "replay", &v)
		}
	case "keydec":
		b, err := hex.DecodeString(str("buf"))
		if err != nil {
			return err
		}
		g.caseKeyDec(b, num("ty"), num("maxlen"), "replay", nil)
	case "val":
		v, err := val("v")
		if err != nil {
			return err
		}
		if enc := g.caseVal(v, num("ty"), num("maxlen"), flag("nullable"), "replay"); enc != nil {
			g.caseValDec(enc, num("ty"), flag("nullable"), "replay", &v)
		}
	case "valdec":
		b, err := hex.DecodeString(str("buf"))
		if err != nil {
			return err
		}
		g.caseValDec(b, num("ty"), flag("nullable"), "replay", nil)
	case "pair":
		a, err := val("a")
		if err != nil {
			return err
		}
		b, err := val("b")
		if err != nil {
			return err
		}
		g.casePair(a, b, num("ty"), num("maxlen"), "replay")
	default:
		return fmt.Errorf("a case of kind %v depends on generated state (store / engine): replay it with the seed of the run, bin/check C15 --seed <seed>", c["kind"])
	}
	return nil
}
