// Package c15: correspondence cases and direct property checks for C15
// ("codecs round-trip, and key encodings preserve SQL order").
package c15

import (
	"bytes"
	"encoding/hex"
	"fmt"
	"math"
	"math/big"
	"strconv"
	"strings"
	"time"

	"github.com/codenotary/immudb/embedded/sql"
	"github.com/google/uuid"
	"verif/harness/vk"
)

// ---------------------------------------------------------------- values
const (
	tInt = iota
	tBool
	tStr
	tBlob
	tUUID
	tTs
	tFloat
)

var coqTy = []string{"TInteger", "TBoolean", "TVarchar", "TBlob", "TUuid", "TTimestamp", "TFloat"}
var sqlTy = []sql.SQLValueType{sql.IntegerType, sql.BooleanType, sql.VarcharType, sql.BLOBType, sql.UUIDType, sql.TimestampType, sql.Float64Type}
var tyName = []string{"INTEGER", "BOOLEAN", "VARCHAR", "BLOB", "UUID", "TIMESTAMP", "FLOAT"}

// fixed Column.MaxLen() of a type (0: declared length)
var fixedLen = []int{8, 1, 0, 0, 16, 8, 8}

type sval struct {
	null bool
	ty   int
	i    int64
	b    bool
	bs   []byte
	t    time.Time
	f    uint64 // IEEE-754 bits
}

func vNull() sval             { return sval{null: true} }
func vInt(i int64) sval       { return sval{ty: tInt, i: i} }
func vBool(b bool) sval       { return sval{ty: tBool, b: b} }
func vStr(b []byte) sval      { return sval{ty: tStr, bs: b} }
func vBlob(b []byte) sval     { return sval{ty: tBlob, bs: b} }
func vUUID(b []byte) sval     { return sval{ty: tUUID, bs: b} }
func vTs(t time.Time) sval    { return sval{ty: tTs, t: t} }
func vFloat(bits uint64) sval { return sval{ty: tFloat, f: bits} }

// nanoseconds since the Unix epoch as an exact integer
func nanos(t time.Time) *big.Int {
	n := new(big.Int).Mul(big.NewInt(t.Unix()), big.NewInt(1000000000))
	return n.Add(n, big.NewInt(int64(t.Nanosecond())))
}

func timeOfNanos(n *big.Int) time.Time {
	q, m := new(big.Int).DivMod(n, big.NewInt(1000000000), new(big.Int))
	return time.Unix(q.Int64(), m.Int64()).UTC()
}

func zTerm(s string) string {
	if strings.HasPrefix(s, "-") {
		return "(" + s + ")"
	}
	return s
}

func (v sval) term() string {
	if v.null {
		return "VNull"
	}
	switch v.ty {
	case tInt:
		return "(VInt " + zTerm(strconv.FormatInt(v.i, 10)) + ")"
	case tBool:
		return "(VBool " + vk.Bool(v.b) + ")"
	case tStr:
		return "(VStr " + vk.Hex(v.bs) + ")"
	case tBlob:
		return "(VBlob " + vk.Hex(v.bs) + ")"
	case tUUID:
		return "(VUuid " + vk.Hex(v.bs) + ")"
	case tTs:
		return "(VTs " + zTerm(nanos(v.t).String()) + ")"
	case tFloat:
		return "(VFloat " + strconv.FormatUint(v.f, 10) + ")"
	}
	panic("term")
}

// textual form used in JSON descriptions and replays: "<kind>:<payload>"
func (v sval) String() string {
	if v.null {
		return "null:"
	}
	switch v.ty {
	case tInt:
		return "int:" + strconv.FormatInt(v.i, 10)
	case tBool:
		return "bool:" + strconv.FormatBool(v.b)
	case tStr:
		return "str:" + hex.EncodeToString(v.bs)
	case tBlob:
		return "blob:" + hex.EncodeToString(v.bs)
	case tUUID:
		return "uuid:" + hex.EncodeToString(v.bs)
	case tTs:
		return "ts:" + nanos(v.t).String() + " (" + v.t.Format("2006-01-02T15:04:05.999999999Z") + ")"
	case tFloat:
		return fmt.Sprintf("float:%016x (%v)", v.f, math.Float64frombits(v.f))
	}
	panic("String")
}

func parseSval(s string) (sval, error) {
	k, p, _ := strings.Cut(s, ":")
	if i := strings.Index(p, " "); i >= 0 {
		p = p[:i]
	}
	switch k {
	case "null":
		return vNull(), nil
	case "int":
		i, err := strconv.ParseInt(p, 10, 64)
		return vInt(i), err
	case "bool":
		return vBool(p == "true"), nil
	case "str", "blob", "uuid":
		b, err := hex.DecodeString(p)
		if k == "str" {
			return vStr(b), err
		} else if k == "blob" {
			return vBlob(b), err
		}
		return vUUID(b), err
	case "ts":
		n, ok := new(big.Int).SetString(p, 10)
		if !ok {
			return sval{}, fmt.Errorf("bad ts")
		}
		return vTs(timeOfNanos(n)), nil
	case "float":
		f, err := strconv.ParseUint(p, 16, 64)
		return vFloat(f), err
	}
	return sval{}, fmt.Errorf("bad value %q", s)
}

// the Go value handed to EncodeRawValueAsKey / EncodeRawValue
func (v sval) raw() interface{} {
	if v.null {
		return nil
	}
	switch v.ty {
	case tInt:
		return v.i
	case tBool:
		return v.b
	case tStr:
		return string(v.bs)
	case tBlob:
		return v.bs
	case tUUID:
		var u uuid.UUID
		copy(u[:], v.bs)
		return u
	case tTs:
		return v.t
	case tFloat:
		return math.Float64frombits(v.f)
	}
	panic("raw")
}

// the engine's typed value (what Compare is called on)
func (v sval) typed(ty int) sql.TypedValue {
	if v.null {
		return sql.NewNull(sqlTy[ty])
	}
	switch v.ty {
	case tInt:
		return sql.NewInteger(v.i)
	case tBool:
		return sql.NewBool(v.b)
	case tStr:
		return sql.NewVarchar(string(v.bs))
	case tBlob:
		return sql.NewBlob(v.bs)
	case tUUID:
		var u uuid.UUID
		copy(u[:], v.bs)
		return sql.NewUUID(u)
	case tTs:
		return sql.VerifNewTimestamp(v.t)
	case tFloat:
		return sql.NewFloat64(math.Float64frombits(v.f))
	}
	panic("typed")
}

func fromTyped(tv sql.TypedValue) (sval, bool) {
	if tv == nil {
		return sval{}, false
	}
	if tv.IsNull() {
		return vNull(), true
	}
	switch x := tv.RawValue().(type) {
	case int64:
		return vInt(x), true
	case bool:
		return vBool(x), true
	case string:
		return vStr([]byte(x)), true
	case []byte:
		return vBlob(x), true
	case uuid.UUID:
		return vUUID(x[:]), true
	case time.Time:
		return vTs(x), true
	case float64:
		return vFloat(math.Float64bits(x)), true
	}
	return sval{}, false
}

// same SQL value (bit-exact for floats, instant-exact for timestamps)
func same(a, b sval) bool {
	if a.null || b.null {
		return a.null && b.null
	}
	if a.ty != b.ty {
		return false
	}
	switch a.ty {
	case tInt:
		return a.i == b.i
	case tBool:
		return a.b == b.b
	case tStr, tBlob, tUUID:
		return bytes.Equal(a.bs, b.bs)
	case tTs:
		return a.t.Equal(b.t)
	case tFloat:
		return a.f == b.f
	}
	return false
}

func isNaN(v sval) bool { return !v.null && v.ty == tFloat && v.f&0x7fffffffffffffff > 0x7ff0000000000000 }
func isZeroF(v sval) bool {
	return !v.null && v.ty == tFloat && v.f&0x7fffffffffffffff == 0
}

var minNano = time.Unix(0, math.MinInt64).UTC()
var maxNano = time.Unix(0, math.MaxInt64).UTC()

func tsOutOfRange(v sval) bool {
	return !v.null && v.ty == tTs && (v.t.Before(minNano) || v.t.After(maxNano))
}
func tsSubMicro(v sval) bool { return !v.null && v.ty == tTs && v.t.Nanosecond()%1000 != 0 }

// ---------------------------------------------------------------- outcome helpers
func guard(f func() error) (panicked bool, err error) {
	defer func() {
		if r := recover(); r != nil {
			panicked = true
		}
	}()
	err = f()
	return
}

func resTerm(p bool, err error, ok string) string {
	if p {
		return "Panic"
	}
	if err != nil {
		return "(Err 0)"
	}
	return "(Ok " + ok + ")"
}

func errStr(err error) string {
	if err == nil {
		return ""
	}
	return err.Error()
}

func cmpTerm(c int) string {
	switch {
	case c < 0:
		return "Lt"
	case c > 0:
		return "Gt"
	}
	return "Eq"
}

func sign(c int) int {
	switch {
	case c < 0:
		return -1
	case c > 0:
		return 1
	}
	return 0
}

// ---------------------------------------------------------------- generator state
type gen struct {
	r      *vk.Run
	perCls map[string]int
}

// a direct violation of the property statement observed on the implementation
func (g *gen) finding(class, text string) {
	g.perCls[class]++
	if g.perCls[class] <= 3 {
		g.r.Finding("C15 " + text + " class=" + class)
	}
}

// classes of value pairs / values for which a violation is a listed known finding
func pairClass(a, b sval) string {
	switch {
	case isNaN(a) || isNaN(b):
		return "float-nan-operand"
	case isZeroF(a) && isZeroF(b):
		return "float-negative-zero"
	case tsOutOfRange(a) || tsOutOfRange(b):
		return "timestamp-outside-unixnano-range"
	}
	return "other"
}

// ---------------------------------------------------------------- single-value cases
func (g *gen) encKey(v sval, ty, maxLen int) (key []byte, n int, p bool, err error) {
	p, err = guard(func() error {
		var e error
		key, n, e = sql.EncodeRawValueAsKey(v.raw(), sqlTy[ty], maxLen)
		return e
	})
	return
}

func (g *gen) caseKey(v sval, ty, maxLen int, bucket string) []byte {
	key, n, p, err := g.encKey(v, ty, maxLen)
	g.r.Case(fmt.Sprintf("CKey %d %s %d %s %s", sql.MaxKeyLen, coqTy[ty], maxLen, v.term(),
		resTerm(p, err, fmt.Sprintf("(%s, %d)", vk.Hex(key), n))),
		map[string]any{"kind": "key", "ty": ty, "maxlen": maxLen, "v": v.String(), "panic": p, "err": errStr(err),
			"key": hex.EncodeToString(key)},
		"key/"+tyName[ty]+"/"+bucket, !v.null)
	if p {
		g.finding("panic", fmt.Sprintf("EncodeRawValueAsKey panicked: type=%s maxLen=%d v=%s", tyName[ty], maxLen, v))
	}
	if p || err != nil {
		return nil
	}
	return key
}

func (g *gen) caseKeyDec(buf []byte, ty, maxLen int, bucket string, orig *sval) {
	buf = vk.Exact(buf)
	var tv sql.TypedValue
	var n int
	p, err := guard(func() error {
		var e error
		tv, n, e = sql.DecodeValueFromKey(buf, sqlTy[ty], maxLen)
		return e
	})
	ok := ""
	var back sval
	if !p && err == nil {
		var good bool
		back, good = fromTyped(tv)
		if !good {
			g.finding("other", fmt.Sprintf("DecodeValueFromKey returned an unknown value kind: type=%s buf=%x", tyName[ty], buf))
			return
		}
		ok = fmt.Sprintf("(%s, %d)", back.term(), n)
	}
	g.r.Case(fmt.Sprintf("CKeyDec %s %d %s %s", coqTy[ty], maxLen, vk.Hex(buf), resTerm(p, err, ok)),
		map[string]any{"kind": "keydec", "ty": ty, "maxlen": maxLen, "buf": hex.EncodeToString(buf), "panic": p, "err": errStr(err)},
		"keydec/"+tyName[ty]+"/"+bucket, len(buf) > 1)
	if p {
		g.finding("panic", fmt.Sprintf("DecodeValueFromKey panicked: type=%s maxLen=%d buf=%x", tyName[ty], maxLen, buf))
	}
	if orig != nil {
		// round trip: the decoded value is the encoded one (for floats: equal under the SQL comparison)
		okrt := !p && err == nil && n == len(buf) && (same(back, *orig) || (isZeroF(back) && isZeroF(*orig)))
		if !okrt {
			g.finding(pairClass(*orig, *orig), fmt.Sprintf("key round trip: type=%s maxLen=%d v=%s key=%x decoded=%s err=%v",
				tyName[ty], maxLen, *orig, buf, back, err))
		}
	}
}

func (g *gen) caseVal(v sval, ty, maxLen int, nullable bool, bucket string) []byte {
	var enc []byte
	p, err := guard(func() error {
		var e error
		enc, e = sql.EncodeRawValue(v.raw(), sqlTy[ty], maxLen, nullable)
		return e
	})
	g.r.Case(fmt.Sprintf("CVal %s %d %s %s %s", coqTy[ty], maxLen, vk.Bool(nullable), v.term(), resTerm(p, err, vk.Hex(enc))),
		map[string]any{"kind": "val", "ty": ty, "maxlen": maxLen, "nullable": nullable, "v": v.String(), "panic": p, "err": errStr(err)},
		"val/"+tyName[ty]+"/"+bucket, !v.null)
	if p {
		g.finding("panic", fmt.Sprintf("EncodeRawValue panicked: type=%s v=%s", tyName[ty], v))
	}
	if p || err != nil {
		return nil
	}
	return enc
}

func (g *gen) caseValDec(buf []byte, ty int, nullable bool, bucket string, orig *sval) {
	buf = vk.Exact(buf)
	var tv sql.TypedValue
	var n int
	p, err := guard(func() error {
		var e error
		if nullable {
			tv, n, e = sql.DecodeNullableValue(buf, sqlTy[ty])
		} else {
			tv, n, e = sql.DecodeValue(buf, sqlTy[ty])
		}
		return e
	})
	ok := ""
	var back sval
	if !p && err == nil {
		var good bool
		back, good = fromTyped(tv)
		if !good {
			g.finding("other", fmt.Sprintf("DecodeValue returned an unknown value kind: type=%s buf=%x", tyName[ty], buf))
			return
		}
		ok = fmt.Sprintf("(%s, %d)", back.term(), n)
	}
	g.r.Case(fmt.Sprintf("CValDec %s %s %s %s", coqTy[ty], vk.Bool(nullable), vk.Hex(buf), resTerm(p, err, ok)),
		map[string]any{"kind": "valdec", "ty": ty, "nullable": nullable, "buf": hex.EncodeToString(buf), "panic": p, "err": errStr(err)},
		"valdec/"+tyName[ty]+"/"+bucket, len(buf) > 4)
	// (a panic on arbitrary bytes is C16's subject; here only round trips are judged)
	if orig != nil {
		exp := *orig
		// nullable decoding cannot tell an empty string/blob from NULL: the row codec never asks it to
		// (NULLs are not serialised, nullable=false is used), so that is outside the round-trip claim
		okrt := !p && err == nil && n == len(buf) && same(back, exp)
		if nullable && !orig.null && (orig.ty == tStr || orig.ty == tBlob) && len(orig.bs) == 0 {
			okrt = true
		}
		if !okrt && !tsSubMicro(exp) {
			g.finding("other", fmt.Sprintf("value round trip: type=%s nullable=%v v=%s enc=%x decoded=%s err=%v",
				tyName[ty], nullable, exp, buf, back, err))
		}
	}
}

// ---------------------------------------------------------------- pairs
func (g *gen) casePair(a, b sval, ty, maxLen int, bucket string) {
	ka, _, pa, ea := g.encKey(a, ty, maxLen)
	kb, _, pb, eb := g.encKey(b, ty, maxLen)
	if pa || pb || ea != nil || eb != nil {
		return
	}
	kc := bytes.Compare(ka, kb)
	var sc int
	p, err := guard(func() error {
		var e error
		sc, e = a.typed(ty).Compare(b.typed(ty))
		return e
	})
	scTerm := "None"
	if !p && err == nil {
		scTerm = "(Some " + cmpTerm(sc) + ")"
	}
	cls := pairClass(a, b)
	viol := p || err != nil || sign(sc) != kc || (sc == 0 && !bytes.Equal(ka, kb))
	g.r.Case(fmt.Sprintf("CPair %d %s %d %s %s %s %s", sql.MaxKeyLen, coqTy[ty], maxLen, a.term(), b.term(), cmpTerm(kc), scTerm),
		map[string]any{"kind": "pair", "ty": ty, "maxlen": maxLen, "a": a.String(), "b": b.String(), "keycmp": kc, "sqlcmp": sc,
			"err": errStr(err), "violates": viol, "class": cls},
		"pair/"+tyName[ty]+"/"+bucket, !same(a, b))
	if viol {
		g.finding(cls, fmt.Sprintf("key order disagrees with the SQL comparison: type=%s maxLen=%d a=%s b=%s keys=%x/%x bytes.Compare=%d a.Compare(b)=%d err=%v",
			tyName[ty], maxLen, a, b, ka, kb, kc, sc, err))
	}
}
