package c01

import (
	"context"
	"crypto/sha256"
	"fmt"
	"io"
	"os"
	"time"

	"github.com/codenotary/immudb/embedded/logger"
	"github.com/codenotary/immudb/embedded/store"
	"verif/harness/vk"
)

type spec struct {
	key, val []byte
	md       *store.KVMetadata
}

func randKvMd(r *vk.Run) *store.KVMetadata {
	if r.Rng.Intn(2) == 0 {
		return nil
	}
	md := store.NewKVMetadata()
	if r.Rng.Intn(3) == 0 {
		md.AsDeleted(true)
	}
	if r.Rng.Intn(3) == 0 {
		md.ExpiresAt(time.Unix(int64(4000000000+r.Rng.Intn(1000000)), 0)) // far future: never expired
	}
	if r.Rng.Intn(4) == 0 {
		md.AsNonIndexable(true)
	}
	return md
}

// storeHistory: a real ImmuStore in a temp dir, ntx random transactions, header version `version`;
// everything the store says (headers, Alh, Eh, proofs) against the model; honest proofs must verify;
// alterations of them must not prove anything but the genuine transactions.
func storeHistory(r *vk.Run, ntx, version int, withHist bool, pairs int) error {
	dir, err := os.MkdirTemp("", "vh-c01-store")
	if err != nil {
		return err
	}
	defer os.RemoveAll(dir)
	ts := int64(1500000000 + r.Rng.Intn(1<<28))
	opts := store.DefaultOptions().WithSynced(false).WithMaxConcurrency(2).WithMaxTxEntries(16).
		WithLogger(logger.NewSimpleLoggerWithLevel("vh", io.Discard, logger.LogError)).
		WithWriteTxHeaderVersion(version).
		WithTimeFunc(func() time.Time { ts += int64(1 + r.Rng.Intn(1000)); return time.Unix(ts, 0) })
	st, err := store.Open(dir, opts)
	if err != nil {
		return err
	}
	defer st.Close()
	ctx := context.Background()
	specs := make([][]spec, ntx)
	for i := 0; i < ntx; i++ {
		tx, err := st.NewWriteOnlyTx(ctx)
		if err != nil {
			return err
		}
		if version == 1 {
			if md := randTxMd(r); md != nil && !md.HasTruncatedTxID() {
				tx.WithMetadata(md)
			}
		}
		ne := 1 + r.Rng.Intn(5)
		if r.Rng.Intn(6) == 0 {
			ne = 6 + r.Rng.Intn(10)
		}
		seen := map[string]bool{}
		for e := 0; e < ne; e++ {
			var k []byte
			switch r.Rng.Intn(4) {
			case 0: // SQL / document-like prefixed keys
				k = append([]byte{2}, vk.RandBytes(r.Rng, 4+r.Rng.Intn(12))...)
			case 1: // sorted-set / reference like
				k = append([]byte{1}, vk.RandBytes(r.Rng, 1+r.Rng.Intn(40))...)
			default:
				k = append([]byte{0}, vk.RandBytes(r.Rng, 1+r.Rng.Intn(8))...)
			}
			if seen[string(k)] {
				continue
			}
			seen[string(k)] = true
			v := vk.RandBytes(r.Rng, r.Rng.Intn(40))
			var md *store.KVMetadata
			if version == 1 {
				md = randKvMd(r)
			}
			if err := tx.Set(k, md, v); err != nil {
				return err
			}
			specs[i] = append(specs[i], spec{k, v, md})
		}
		if _, err := tx.Commit(ctx); err != nil {
			return fmt.Errorf("commit %d (version %d): %w", i+1, version, err)
		}
	}
	g := &genuine{}
	for id := uint64(1); id <= uint64(ntx); id++ {
		h, err := st.ReadTxHeader(id, false, false)
		if err != nil {
			return err
		}
		checkInner(r, h)
		g.hdrs = append(g.hdrs, h)
		g.alhs = append(g.alhs, h.Alh())
	}
	vs := fmt.Sprintf("v%d", version)
	if withHist {
		r.Case("CHist "+hdrsTerm(g.hdrs), map[string]any{"kind": "hist", "n": ntx, "version": version}, "hist/store", true)
	}
	for _, h := range g.hdrs {
		if r.Rng.Intn(3) == 0 {
			caseAlh(r, h, vs)
		}
	}
	// ---- entries: digests, Eh, inclusion proofs
	holder := store.NewTx(st.MaxTxEntries(), st.MaxKeyLen())
	for q := 0; q < 2; q++ {
		id := uint64(1 + r.Rng.Intn(ntx))
		if err := st.ReadTx(id, false, holder); err != nil {
			return err
		}
		hdr := holder.Header()
		dfn, err := hdr.TxEntryDigest()
		if err != nil {
			return err
		}
		var digests []dig
		var es []string
		for _, e := range holder.Entries() {
			d, err := dfn(e)
			if err != nil {
				return err
			}
			digests = append(digests, d)
			hv := e.HVal()
			es = append(es, fmt.Sprintf("(%s, %s, %s)", optKvMdTerm(e.Metadata()), hx(e.Key()), hx(hv[:])))
		}
		r.Case(fmt.Sprintf("CEh %d %s %s", hdr.Version, vk.List(es), hx(hdr.Eh[:])),
			map[string]any{"kind": "eh", "tx": id, "nentries": len(es)}, "eh/"+vs, true)
		sfn, _ := store.EntrySpecDigestFor(hdr.Version)
		for k, sp := range specs[id-1] {
			if k > 1 && r.Rng.Intn(3) > 0 {
				continue
			}
			e := holder.Entries()[k]
			hv := e.HVal()
			// TxEntryDigest on the stored entry, EntrySpecDigest on the original {key, md, value}
			r.Case(fmt.Sprintf("CTxDigest %d %s %s %s (Ok %s)", hdr.Version, optKvMdTerm(e.Metadata()), hx(e.Key()), hx(hv[:]), hx(digests[k][:])),
				map[string]any{"kind": "txdigest", "tx": id, "entry": k}, "digest/tx/"+vs, true)
			sd := sfn(&store.EntrySpec{Key: sp.key, Metadata: sp.md, Value: sp.val})
			r.Case(fmt.Sprintf("CSpecDigest %d %s %s %s (Some %s)", hdr.Version, optKvMdTerm(sp.md), hx(sp.key), hx(sp.val), hx(sd[:])),
				map[string]any{"kind": "specdigest", "tx": id, "entry": k}, "digest/spec/"+vs, true)
			if sd != digests[k] {
				r.Finding(fmt.Sprintf("completeness: EntrySpecDigest of the committed {key, metadata, value} differs from the stored TxEntryDigest (tx %d entry %d, header version %d) seed=%d", id, k, hdr.Version, r.Seed))
			}
			ip, err := holder.Proof(sp.key)
			if err != nil {
				return err
			}
			if !caseEntry(r, ip, sd, hdr.Eh, "honest/"+vs) {
				r.Finding(fmt.Sprintf("completeness: store.VerifyInclusion rejected Tx.Proof(key) of tx %d entry %d seed=%d", id, k, r.Seed))
			}
			if k == 0 {
				mutateEntry(r, ip, sd, hdr.Eh, digests, vs)
			}
			if k < 2 {
				r.Case(fmt.Sprintf("CEntryGen %d %s %d ((%d)%%Z, (%d)%%Z, %s)", hdr.Version, vk.List(es), k, ip.Leaf, ip.Width, digList(ip.Terms)),
					map[string]any{"kind": "entrygen", "tx": id, "entry": k}, "gen/entry/"+vs, true)
			}
		}
	}
	// digest functions on inputs the store refuses: metadata with header version 0, unknown version
	if md := randKvMd(r); true {
		k, v := vk.RandBytes(r.Rng, 1+r.Rng.Intn(6)), vk.RandBytes(r.Rng, r.Rng.Intn(9))
		hv := sha256.Sum256(v)
		for _, ver := range []int{0, 1} {
			hdr := &store.TxHeader{Version: ver}
			dfn, _ := hdr.TxEntryDigest()
			d, err := dfn(store.NewTxEntry(k, md, len(v), hv, 0))
			out := "(Ok " + hx(d[:]) + ")"
			if err != nil {
				out = "(Err 0)"
			}
			r.Case(fmt.Sprintf("CTxDigest %d %s %s %s %s", ver, optKvMdTerm(md), hx(k), hx(hv[:]), out),
				map[string]any{"kind": "txdigest", "synthetic": true}, "digest/tx/synthetic", true)
			sfn, _ := store.EntrySpecDigestFor(ver)
			sd := sfn(&store.EntrySpec{Key: k, Metadata: md, Value: v})
			r.Case(fmt.Sprintf("CSpecDigest %d %s %s %s (Some %s)", ver, optKvMdTerm(md), hx(k), hx(v), hx(sd[:])),
				map[string]any{"kind": "specdigest", "synthetic": true}, "digest/spec/synthetic", true)
		}
		if _, err := store.EntrySpecDigestFor(2); err != nil {
			r.Case(fmt.Sprintf("CSpecDigest 2 None %s %s None", hx(k), hx(v)), map[string]any{"kind": "specdigest", "version": 2}, "digest/spec/synthetic", false)
		}
	}
	// ---- linear proofs
	chainAlh := func(k uint64) (dig, bool) {
		if k < 1 || k > uint64(ntx) {
			return dig{}, false
		}
		return g.alhs[k-1], true
	}
	for q := 0; q < 2; q++ {
		i := uint64(1 + r.Rng.Intn(ntx))
		j := i + uint64(r.Rng.Intn(minInt(ntx-int(i), 12)+1))
		lp, err := st.LinearProof(i, j)
		if err != nil {
			return err
		}
		r.Case(fmt.Sprintf("CLinGen %s %d %d %s", hdrsTerm(g.hdrs[:j]), i, j, digList(lp.Terms)),
			map[string]any{"kind": "lingen", "i": i, "j": j}, "lingen/"+vs, true)
		if !caseLin(r, lp, i, j, g.alhs[i-1], g.alhs[j-1], "honest/"+vs) {
			r.Finding(fmt.Sprintf("completeness: store.VerifyLinearProof rejected LinearProof(%d,%d) seed=%d", i, j, r.Seed))
		}
		mutateLin(r, lp, i, j, g.alhs[i-1], g.alhs[j-1], chainAlh, vs)
	}
	// ---- dual proofs
	first := true
	for q := 0; q < pairs; q++ {
		i := uint64(1 + r.Rng.Intn(ntx))
		j := i + uint64(r.Rng.Intn(ntx-int(i)+1))
		switch r.Rng.Intn(5) {
		case 0:
			j = uint64(ntx)
		case 1:
			j = i
		}
		hs, ht := g.hdrs[i-1], g.hdrs[j-1]
		p, err := st.DualProof(hs, ht)
		if err != nil {
			return err
		}
		shape := "src>=tgtBl"
		if i < ht.BlTxID {
			shape = "src<tgtBl"
		}
		if i == j {
			shape = "src=tgt"
		}
		_, acc := caseDual(r, p, i, j, g.alhs[i-1], g.alhs[j-1], "store/honest/"+vs+"/"+shape)
		if !acc {
			r.Finding(fmt.Sprintf("completeness: store.VerifyDualProof rejected ImmuStore.DualProof(%d,%d) seed=%d", i, j, r.Seed))
		}
		if ntx <= 16 && q < 3 {
			r.Case(fmt.Sprintf("CDualGen %s %d %d %s", hdrsTerm(g.hdrs), i, j, dualRecord(p)),
				map[string]any{"kind": "dualgen", "i": i, "j": j}, "gen/dual/store/"+vs, true)
		}
		if err := mutateDual(r, g, p, i, j, g.alhs[i-1], g.alhs[j-1], first, 36, 8, "store/"+vs); err != nil {
			return err
		}
		p2, err := st.DualProofV2(hs, ht)
		if err != nil {
			return err
		}
		_, acc = caseDual2(r, p2, i, j, g.alhs[i-1], g.alhs[j-1], "store/honest/"+vs+"/"+shape)
		if !acc {
			r.Finding(fmt.Sprintf("completeness: store.VerifyDualProofV2 rejected ImmuStore.DualProofV2(%d,%d) seed=%d", i, j, r.Seed))
		}
		if err := mutateDual2(r, g, p2, i, j, g.alhs[i-1], g.alhs[j-1], first, 18, 4, "store/"+vs); err != nil {
			return err
		}
		first = false
	}
	return nil
}

func minInt(a, b int) int {
	if a < b {
		return a
	}
	return b
}
