package c01

import (
	"bytes"
	"context"
	"crypto/ecdsa"
	"crypto/elliptic"
	"crypto/rand"
	"fmt"
	"io"
	"os"

	"github.com/codenotary/immudb/embedded/logger"
	"github.com/codenotary/immudb/embedded/store"
	"github.com/codenotary/immudb/pkg/api/schema"
	"github.com/codenotary/immudb/pkg/client"
	"github.com/codenotary/immudb/pkg/client/clienttest"
	"github.com/codenotary/immudb/pkg/database"
	"github.com/codenotary/immudb/pkg/signer"
	"google.golang.org/grpc"
	"google.golang.org/protobuf/proto"
	"verif/harness/vk"
)

// The client-side flow driven OFFLINE: the real pkg/client code (VerifiedGet / VerifiedGetAt /
// VerifiedTxByID / VerifiedSet / VerifiedSetReference / VerifiedZAdd) with its ServiceClient
// replaced by a mock that answers from real pkg/database.DB instances and signs the states like
// pkg/server does:
//   A       the genuine database; the client's trusted state is always a state of A;
//   forks   three other real databases with a self-consistent but DIFFERENT history: same length
//           (same keys and operations, different values from tx 1 on), longer, shorter.
// For every operation, with the proven transaction older than / equal to / newer than the trusted
// state:
//   honest   answered by A: must succeed, return what A holds, leave a state of A;
//   forked   answered by a fork: MUST FAIL and leave the locally stored state untouched;
//   altered  answered by A with one field of the response altered: must fail and leave the state
//            untouched (fields every verification depends on: entry value / tx id / metadata, every
//            header field of source and target, the returned Tx, the state signature), or — for
//            proof terms that a particular verification may not use — at least return genuine data
//            and leave a state of A.
// The trusted (id, hash) must come from the client's own state, never from the response.

type memState struct{ st *schema.ImmutableState }

func (m *memState) GetState(ctx context.Context, db string) (*schema.ImmutableState, error) {
	if m.st != nil {
		return m.st, nil
	}
	return &schema.ImmutableState{Db: db}, nil // no state yet: TxId 0
}
func (m *memState) SetState(db string, s *schema.ImmutableState) error { m.st = s; return nil }
func (m *memState) CacheLock() error                                  { return nil }
func (m *memState) CacheUnlock() error                                { return nil }
func (m *memState) SetServerIdentity(identity string)                 {}

func flipBytes(r *vk.Run, b []byte) []byte {
	c := append([]byte{}, b...)
	if len(c) == 0 {
		return []byte{1}
	}
	c[r.Rng.Intn(len(c))] ^= 1
	return c
}

// an alteration of a response; strict: every verification depends on the altered field
type alter struct {
	name   string
	strict bool
	vtx    func(r *vk.Run, t *schema.VerifiableTx) bool // false: not applicable to this response
	vent   func(r *vk.Run, e *schema.VerifiableEntry) bool
}

func hdrAlters(side string, get func(t *schema.VerifiableTx) *schema.TxHeader) []alter {
	mk := func(n string, f func(r *vk.Run, h *schema.TxHeader)) alter {
		return alter{name: "DualProof." + side + "." + n, strict: true, vtx: func(r *vk.Run, t *schema.VerifiableTx) bool {
			if t.DualProof == nil || get(t) == nil {
				return false
			}
			f(r, get(t))
			return true
		}}
	}
	return []alter{
		mk("Id+1", func(r *vk.Run, h *schema.TxHeader) { h.Id++ }),
		mk("Id-1", func(r *vk.Run, h *schema.TxHeader) { h.Id-- }),
		mk("PrevAlh", func(r *vk.Run, h *schema.TxHeader) { h.PrevAlh = flipBytes(r, h.PrevAlh) }),
		mk("Ts", func(r *vk.Run, h *schema.TxHeader) { h.Ts++ }),
		mk("Version", func(r *vk.Run, h *schema.TxHeader) { h.Version ^= 1 }),
		mk("Nentries", func(r *vk.Run, h *schema.TxHeader) { h.Nentries++ }),
		mk("EH", func(r *vk.Run, h *schema.TxHeader) { h.EH = flipBytes(r, h.EH) }),
		mk("BlTxId+1", func(r *vk.Run, h *schema.TxHeader) { h.BlTxId++ }),
		mk("BlTxId-1", func(r *vk.Run, h *schema.TxHeader) { h.BlTxId-- }),
		mk("BlRoot", func(r *vk.Run, h *schema.TxHeader) { h.BlRoot = flipBytes(r, h.BlRoot) }),
		mk("Metadata", func(r *vk.Run, h *schema.TxHeader) { h.Metadata = &schema.TxMetadata{Extra: []byte{7}} }),
	}
}

func flipTerm(r *vk.Run, ts [][]byte) bool {
	if len(ts) == 0 {
		return false
	}
	k := r.Rng.Intn(len(ts))
	ts[k] = flipBytes(r, ts[k])
	return true
}

func vtxAlters() []alter {
	var as []alter
	as = append(as, hdrAlters("SourceTxHeader", func(t *schema.VerifiableTx) *schema.TxHeader { return t.DualProof.SourceTxHeader })...)
	as = append(as, hdrAlters("TargetTxHeader", func(t *schema.VerifiableTx) *schema.TxHeader { return t.DualProof.TargetTxHeader })...)
	as = append(as,
		alter{name: "DualProof.swapheaders", strict: true, vtx: func(r *vk.Run, t *schema.VerifiableTx) bool {
			if t.DualProof.SourceTxHeader.Id == t.DualProof.TargetTxHeader.Id {
				return false
			}
			t.DualProof.SourceTxHeader, t.DualProof.TargetTxHeader = t.DualProof.TargetTxHeader, t.DualProof.SourceTxHeader
			return true
		}},
		alter{name: "Signature.absent", strict: true, vtx: func(r *vk.Run, t *schema.VerifiableTx) bool { t.Signature = nil; return true }},
		alter{name: "Signature.flipped", strict: true, vtx: func(r *vk.Run, t *schema.VerifiableTx) bool {
			if t.Signature == nil {
				return false
			}
			t.Signature.Signature = flipBytes(r, t.Signature.Signature)
			return true
		}},
		// proof terms: a particular verification may not use them
		alter{name: "DualProof.TargetBlTxAlh", vtx: func(r *vk.Run, t *schema.VerifiableTx) bool {
			t.DualProof.TargetBlTxAlh = flipBytes(r, t.DualProof.TargetBlTxAlh)
			return true
		}},
		alter{name: "DualProof.InclusionProof", vtx: func(r *vk.Run, t *schema.VerifiableTx) bool { return flipTerm(r, t.DualProof.InclusionProof) }},
		alter{name: "DualProof.ConsistencyProof", vtx: func(r *vk.Run, t *schema.VerifiableTx) bool { return flipTerm(r, t.DualProof.ConsistencyProof) }},
		alter{name: "DualProof.LastInclusionProof", vtx: func(r *vk.Run, t *schema.VerifiableTx) bool { return flipTerm(r, t.DualProof.LastInclusionProof) }},
		alter{name: "DualProof.LinearProof.Terms", vtx: func(r *vk.Run, t *schema.VerifiableTx) bool {
			return t.DualProof.LinearProof != nil && flipTerm(r, t.DualProof.LinearProof.Terms)
		}},
		alter{name: "DualProof.LinearProof.TargetTxId", vtx: func(r *vk.Run, t *schema.VerifiableTx) bool {
			if t.DualProof.LinearProof == nil {
				return false
			}
			t.DualProof.LinearProof.TargetTxId++
			return true
		}},
		// the returned transaction
		alter{name: "Tx.Header.EH", strict: true, vtx: func(r *vk.Run, t *schema.VerifiableTx) bool { t.Tx.Header.EH = flipBytes(r, t.Tx.Header.EH); return true }},
		alter{name: "Tx.Header.Ts", strict: true, vtx: func(r *vk.Run, t *schema.VerifiableTx) bool { t.Tx.Header.Ts++; return true }},
		alter{name: "Tx.Header.Id", strict: true, vtx: func(r *vk.Run, t *schema.VerifiableTx) bool { t.Tx.Header.Id++; return true }},
		alter{name: "Tx.Entries[0].Key", strict: true, vtx: func(r *vk.Run, t *schema.VerifiableTx) bool {
			if len(t.Tx.Entries) == 0 {
				return false
			}
			t.Tx.Entries[0].Key = flipBytes(r, t.Tx.Entries[0].Key)
			return true
		}},
		alter{name: "Tx.Entries[0].HValue", strict: true, vtx: func(r *vk.Run, t *schema.VerifiableTx) bool {
			if len(t.Tx.Entries) == 0 {
				return false
			}
			t.Tx.Entries[0].HValue = flipBytes(r, t.Tx.Entries[0].HValue)
			return true
		}},
		alter{name: "Tx.Entries[0].Metadata", strict: true, vtx: func(r *vk.Run, t *schema.VerifiableTx) bool {
			if len(t.Tx.Entries) == 0 {
				return false
			}
			t.Tx.Entries[0].Metadata = &schema.KVMetadata{NonIndexable: true}
			return true
		}},
	)
	return as
}

// alterations of a VerifiableGet response: those of the embedded VerifiableTx (its Tx is not
// what VerifiedGet returns, so alterations of it are not strict there) plus the entry itself
func ventAlters() []alter {
	var as []alter
	for _, a := range vtxAlters() {
		a := a
		strict := a.strict && len(a.name) >= 3 && a.name[:3] != "Tx."
		as = append(as, alter{name: a.name, strict: strict, vent: func(r *vk.Run, e *schema.VerifiableEntry) bool { return a.vtx(r, e.VerifiableTx) }})
	}
	target := func(e *schema.VerifiableEntry) *schema.Entry { // the entry whose content the proof covers
		return e.Entry
	}
	as = append(as,
		alter{name: "Entry.Value", strict: true, vent: func(r *vk.Run, e *schema.VerifiableEntry) bool {
			target(e).Value = flipBytes(r, target(e).Value)
			return true
		}},
		alter{name: "Entry.Tx+1", strict: true, vent: func(r *vk.Run, e *schema.VerifiableEntry) bool {
			if e.Entry.ReferencedBy != nil {
				e.Entry.ReferencedBy.Tx++
			} else {
				e.Entry.Tx++
			}
			return true
		}},
		alter{name: "Entry.Tx-1", strict: true, vent: func(r *vk.Run, e *schema.VerifiableEntry) bool {
			if e.Entry.ReferencedBy != nil {
				e.Entry.ReferencedBy.Tx--
			} else {
				e.Entry.Tx--
			}
			return true
		}},
		alter{name: "Entry.Metadata.deleted", strict: true, vent: func(r *vk.Run, e *schema.VerifiableEntry) bool {
			if e.Entry.ReferencedBy != nil {
				e.Entry.ReferencedBy.Metadata = &schema.KVMetadata{Deleted: true}
			} else {
				e.Entry.Metadata = &schema.KVMetadata{Deleted: true}
			}
			return true
		}},
		alter{name: "Entry.Key", strict: true, vent: func(r *vk.Run, e *schema.VerifiableEntry) bool {
			e.Entry.Key = flipBytes(r, e.Entry.Key)
			return true
		}},
		alter{name: "InclusionProof.Leaf+1", vent: func(r *vk.Run, e *schema.VerifiableEntry) bool { e.InclusionProof.Leaf++; return true }},
		alter{name: "InclusionProof.Width+1", vent: func(r *vk.Run, e *schema.VerifiableEntry) bool { e.InclusionProof.Width++; return true }},
		alter{name: "InclusionProof.Terms", vent: func(r *vk.Run, e *schema.VerifiableEntry) bool { return flipTerm(r, e.InclusionProof.Terms) }},
	)
	return as
}

// classOf names the four places where the client returned a response field that no check covered;
// three were closed by /repo commits 3e5b5ad and ec7862b (a recurrence is a violation), the value of
// a resolved reference is still not proven (known finding); any other acceptance carries class=none
func classOf(op, alteration string) string {
	switch {
	case (op == "VerifiedGet" || op == "VerifiedGetAt") && alteration == "Entry.Key":
		return "class=entry-key-not-compared-with-request"
	case op == "VerifiedGetAt" && (alteration == "Entry.Tx+1" || alteration == "Entry.Tx-1"):
		return "class=entry-tx-not-compared-with-AtTx"
	case op == "VerifiedGet(reference)" && alteration == "Entry.Value":
		return "class=referenced-value-not-proven"
	case (op == "VerifiedSet" || op == "VerifiedSetReference" || op == "VerifiedZAdd") && alteration == "Tx.Header.EH":
		return "class=returned-tx-header-EH-not-compared"
	}
	return "class=none"
}

type cfDB struct {
	name string
	db   database.DB
	dir  string
}

type cfEnv struct {
	r      *vk.Run
	ctx    context.Context
	A      *cfDB
	forks  []*cfDB
	alhs   [][]byte // alhs[k-1] = Alh of A's transaction k
	cl     client.ImmuClient
	ms     *memState
	route  *cfDB // who answers the next request
	alt    *alter
	altHit bool // the alteration was applicable and applied
	sign   func(db string, h *schema.TxHeader) *schema.Signature
	keys   [][]byte
}

func (e *cfEnv) last() uint64 { return uint64(len(e.alhs)) }

func (e *cfEnv) refreshA() error {
	st, err := e.A.db.CurrentState()
	if err != nil {
		return err
	}
	for id := e.last() + 1; id <= st.TxId; id++ {
		t, err := e.A.db.TxByID(e.ctx, &schema.TxRequest{Tx: id})
		if err != nil {
			return err
		}
		a := schema.TxHeaderFromProto(t.Header).Alh()
		e.alhs = append(e.alhs, a[:])
	}
	return nil
}

func (e *cfEnv) setState(s uint64) *schema.ImmutableState {
	st := &schema.ImmutableState{Db: "defaultdb", TxId: s, TxHash: append([]byte{}, e.alhs[s-1]...)}
	e.ms.st = st
	return st
}

func (e *cfEnv) isStateOfA(st *schema.ImmutableState) bool {
	return st != nil && st.TxId >= 1 && st.TxId <= e.last() && bytes.Equal(st.TxHash, e.alhs[st.TxId-1])
}

func sameState(a, b *schema.ImmutableState) bool {
	return a != nil && b != nil && a.TxId == b.TxId && bytes.Equal(a.TxHash, b.TxHash)
}

// the skeleton of operations every database executes (values differ by salt)
func buildHistory(ctx context.Context, d database.DB, salt byte, n int, keys [][]byte) error {
	for i := 0; i < n; i++ {
		k := keys[i%len(keys)]
		v := []byte{salt, byte(i), byte(i * 7), salt ^ byte(i)}
		var err error
		switch {
		case i == 3:
			_, err = d.SetReference(ctx, &schema.ReferenceRequest{Key: []byte("ref"), ReferencedKey: keys[0]})
		case i == 5:
			_, err = d.ZAdd(ctx, &schema.ZAddRequest{Set: []byte("zs"), Score: float64(salt), Key: keys[1]})
		case i%4 == 2:
			_, err = d.Set(ctx, &schema.SetRequest{KVs: []*schema.KeyValue{{Key: k, Value: v}, {Key: append([]byte("x"), k...), Value: v}}})
		default:
			_, err = d.Set(ctx, &schema.SetRequest{KVs: []*schema.KeyValue{{Key: k, Value: v}}})
		}
		if err != nil {
			return err
		}
	}
	return nil
}

func openCfDB(name string, quiet logger.Logger) (*cfDB, error) {
	dir, err := os.MkdirTemp("", "vh-c01-db")
	if err != nil {
		return nil, err
	}
	so := store.DefaultOptions().WithSynced(false).WithMaxConcurrency(4).WithLogger(quiet)
	d, err := database.NewDB("defaultdb", nil, database.DefaultOptions().WithDBRootPath(dir).WithStoreOptions(so), quiet)
	if err != nil {
		os.RemoveAll(dir)
		return nil, err
	}
	return &cfDB{name: name, db: d, dir: dir}, nil
}

func (c *cfDB) close() { c.db.Close(); os.RemoveAll(c.dir) }

// one adversarial or honest call: op runs the client operation and says what it returned
type cfOp struct {
	name   string
	proven uint64 // the transaction being proven (0: a new transaction, newer than every state)
	run    func() (ret any, err error)
	// genuine: is the returned value what A holds?
	genuine func(ret any) bool
}

func clientFlow(r *vk.Run) (err error) {
	defer func() {
		if rec := recover(); rec != nil {
			r.Finding(fmt.Sprintf("client flow: panic: %v", rec))
			err = nil
		}
	}()
	quiet := logger.NewSimpleLoggerWithLevel("vh", io.Discard, logger.LogError)
	ctx := context.Background()
	e := &cfEnv{r: r, ctx: ctx, ms: &memState{}}
	e.keys = [][]byte{[]byte("ka"), []byte("kb"), []byte("kc"), []byte("kd")}
	n := 12 + r.Rng.Intn(8)
	for i, spec := range []struct {
		name string
		salt byte
		n    int
	}{{"A", 1, n}, {"fork-same-length", 2, n}, {"fork-longer", 3, n + 3}, {"fork-shorter", 4, n - 4}} {
		d, err := openCfDB(spec.name, quiet)
		if err != nil {
			return err
		}
		defer d.close()
		if err := buildHistory(ctx, d.db, spec.salt, spec.n, e.keys); err != nil {
			return err
		}
		if i == 0 {
			e.A = d
		} else {
			e.forks = append(e.forks, d)
		}
	}
	if err := e.refreshA(); err != nil {
		return err
	}
	pk, err := ecdsa.GenerateKey(elliptic.P256(), rand.Reader)
	if err != nil {
		return err
	}
	sg := signer.NewSignerFromPKey(rand.Reader, pk)
	e.sign = func(db string, h *schema.TxHeader) *schema.Signature {
		a := schema.TxHeaderFromProto(h).Alh()
		st := &schema.ImmutableState{Db: db, TxId: h.Id, TxHash: a[:]}
		sig, pub, err := sg.Sign(st.ToBytes())
		if err != nil {
			return nil
		}
		return &schema.Signature{Signature: sig, PublicKey: pub}
	}
	finishVtx := func(t *schema.VerifiableTx, err error, alterable bool) (*schema.VerifiableTx, error) {
		if err != nil {
			return nil, err
		}
		t = proto.Clone(t).(*schema.VerifiableTx)
		t.Signature = e.sign("defaultdb", t.DualProof.TargetTxHeader) // as pkg/server does
		if alterable && e.alt != nil && e.alt.vtx != nil {
			e.altHit = e.alt.vtx(r, t)
		}
		return t, nil
	}
	mock := &clienttest.ImmuServiceClientMock{}
	mock.VerifiableGetF = func(ctx context.Context, in *schema.VerifiableGetRequest, opts ...grpc.CallOption) (*schema.VerifiableEntry, error) {
		ve, err := e.route.db.VerifiableGet(ctx, in)
		if err != nil {
			return nil, err
		}
		ve = proto.Clone(ve).(*schema.VerifiableEntry)
		ve.VerifiableTx.Signature = e.sign("defaultdb", ve.VerifiableTx.DualProof.TargetTxHeader)
		if e.alt != nil && e.alt.vent != nil {
			e.altHit = e.alt.vent(r, ve)
		}
		return ve, nil
	}
	mock.VerifiableSetF = func(ctx context.Context, in *schema.VerifiableSetRequest, opts ...grpc.CallOption) (*schema.VerifiableTx, error) {
		t, err := e.route.db.VerifiableSet(ctx, in)
		return finishVtx(t, err, true)
	}
	mock.VerifiableSetReferenceF = func(ctx context.Context, in *schema.VerifiableReferenceRequest, opts ...grpc.CallOption) (*schema.VerifiableTx, error) {
		t, err := e.route.db.VerifiableSetReference(ctx, in)
		return finishVtx(t, err, true)
	}
	mock.VerifiableZAddF = func(ctx context.Context, in *schema.VerifiableZAddRequest, opts ...grpc.CallOption) (*schema.VerifiableTx, error) {
		t, err := e.route.db.VerifiableZAdd(ctx, in)
		return finishVtx(t, err, true)
	}
	mock.VerifiableTxByIdF = func(ctx context.Context, in *schema.VerifiableTxRequest, opts ...grpc.CallOption) (*schema.VerifiableTx, error) {
		t, err := e.route.db.VerifiableTxByID(ctx, in)
		return finishVtx(t, err, in.EntriesSpec == nil)
	}
	e.cl = client.NewClient().WithLogger(quiet).WithClientConn(&grpc.ClientConn{}).WithServiceClient(mock).
		WithStateService(e.ms).WithServerSigningPubKey(&pk.PublicKey)

	// ---------- read operations: for a proven transaction v, the operations that prove it
	readOps := func(v uint64) []cfOp {
		var ops []cfOp
		gen, err := e.A.db.TxByID(ctx, &schema.TxRequest{Tx: v})
		if err != nil {
			return nil
		}
		ops = append(ops, cfOp{name: "VerifiedTxByID", proven: v,
			run: func() (any, error) { return e.cl.VerifiedTxByID(ctx, v) },
			genuine: func(ret any) bool {
				got := ret.(*schema.Tx)
				if !proto.Equal(got.Header, gen.Header) || len(got.Entries) != len(gen.Entries) {
					return false
				}
				for i := range got.Entries {
					a, b := got.Entries[i], gen.Entries[i]
					if !bytes.Equal(a.Key, b.Key[1:]) || !bytes.Equal(a.HValue, b.HValue) || (a.Metadata != nil) != (b.Metadata != nil) {
						return false
					}
				}
				return true
			}})
		// a key written by transaction v (plain keys only), read AT v
		for _, te := range gen.Entries {
			k := te.Key
			if len(k) < 2 || k[0] != 0 || string(k[1:]) == "ref" {
				continue
			}
			key := append([]byte{}, k[1:]...)
			want, err := e.A.db.Get(ctx, &schema.KeyRequest{Key: key, AtTx: v})
			if err != nil {
				continue
			}
			genuineEntry := func(ret any) bool {
				got := ret.(*schema.Entry)
				return bytes.Equal(got.Value, want.Value) && got.Tx == want.Tx && bytes.Equal(got.Key, want.Key) &&
					(got.Metadata != nil && got.Metadata.Deleted) == (want.Metadata != nil && want.Metadata.Deleted)
			}
			ops = append(ops, cfOp{name: "VerifiedGetAt", proven: v,
				run: func() (any, error) { return e.cl.VerifiedGetAt(ctx, key, v) }, genuine: genuineEntry})
			if latest, err := e.A.db.Get(ctx, &schema.KeyRequest{Key: key}); err == nil && latest.Tx == v {
				ops = append(ops, cfOp{name: "VerifiedGet", proven: v,
					run: func() (any, error) { return e.cl.VerifiedGet(ctx, key) }, genuine: genuineEntry})
			}
			break
		}
		return ops
	}
	// the reference written at transaction 4 (resolved read: ReferencedBy branch of verifiedGet)
	refOp := func() *cfOp {
		want, err := e.A.db.Get(ctx, &schema.KeyRequest{Key: []byte("ref")})
		if err != nil || want.ReferencedBy == nil {
			return nil
		}
		return &cfOp{name: "VerifiedGet(reference)", proven: want.ReferencedBy.Tx,
			run: func() (any, error) { return e.cl.VerifiedGet(ctx, []byte("ref")) },
			genuine: func(ret any) bool {
				got := ret.(*schema.Entry)
				return bytes.Equal(got.Value, want.Value) && got.ReferencedBy != nil && got.ReferencedBy.Tx == want.ReferencedBy.Tx && got.Tx == want.Tx
			}}
	}

	// states relative to the proven transaction: trusted state newer / equal / older
	statesFor := func(v uint64) map[string]uint64 {
		m := map[string]uint64{"proven=trusted": v}
		if v < e.last() {
			m["proven-older-than-trusted"] = v + 1 + uint64(r.Rng.Intn(int(e.last()-v)))
		}
		if v > 1 {
			m["proven-newer-than-trusted"] = 1 + uint64(r.Rng.Intn(int(v-1)))
		}
		return m
	}
	dirs := []string{"proven-older-than-trusted", "proven=trusted", "proven-newer-than-trusted"}

	honest := func(op cfOp, dir string, s uint64) bool {
		e.setState(s)
		e.route, e.alt = e.A, nil
		ret, err := op.run()
		r.Stats["clientflow/honest/"+op.name+"/"+dir]++
		if err != nil {
			r.Finding(fmt.Sprintf("completeness: pkg/client.%s failed against the honest database (%s: proven tx %d, trusted state %d): %v seed=%d", op.name, dir, op.proven, s, err, r.Seed))
			return false
		}
		if !op.genuine(ret) {
			r.Finding(fmt.Sprintf("client flow: honest %s returned something else than the database holds (%s) seed=%d", op.name, dir, r.Seed))
		}
		if !e.isStateOfA(e.ms.st) {
			r.Finding(fmt.Sprintf("client flow: after an honest %s (%s) the locally stored state (%d, %x) is not a state of the database seed=%d", op.name, dir, e.ms.st.TxId, e.ms.st.TxHash, r.Seed))
		}
		return true
	}
	// must fail, state untouched
	mustReject := func(op cfOp, dir string, s uint64, who string, bucket string) {
		before := e.setState(s)
		ret, err := op.run()
		r.Stats[bucket]++
		if err == nil {
			gen := op.genuine(ret)
			r.Finding(fmt.Sprintf("pkg/client.%s accepted a response that is not the honest one for the trusted history: %s; %s (proven tx %d, trusted state %d); returned data genuine: %v; locally stored state afterwards (%d, %x) is a state of the trusted database: %v",
				op.name, who, dir, op.proven, s, gen, e.ms.st.TxId, e.ms.st.TxHash[:4], e.isStateOfA(e.ms.st)))
			return
		}
		if !sameState(before, e.ms.st) {
			r.Finding(fmt.Sprintf("pkg/client.%s returned an error but CHANGED the locally stored state from (%d, %x) to (%d, %x): %s; %s",
				op.name, before.TxId, before.TxHash[:4], e.ms.st.TxId, e.ms.st.TxHash[:4], who, dir))
		}
	}
	// may be accepted when the altered field is not used, but then everything must be genuine
	mustBeHarmless := func(op cfOp, dir string, s uint64, who string, bucket string) {
		before := e.setState(s)
		ret, err := op.run()
		r.Stats[bucket]++
		if err != nil {
			if !sameState(before, e.ms.st) {
				r.Finding(fmt.Sprintf("pkg/client.%s returned an error but CHANGED the locally stored state: %s; %s", op.name, who, dir))
			}
			return
		}
		if !op.genuine(ret) || !e.isStateOfA(e.ms.st) || e.ms.st.TxId < s {
			r.Finding(fmt.Sprintf("pkg/client.%s accepted an altered response and returned data / stored a state that is not the trusted database's: %s; %s (proven tx %d, trusted state %d)",
				op.name, who, dir, op.proven, s))
		}
	}

	vAlts, eAlts := vtxAlters(), ventAlters()
	runReadOp := func(op cfOp) {
		sts := statesFor(op.proven)
		for _, dir := range dirs {
			s, ok := sts[dir]
			if !ok {
				continue
			}
			if !honest(op, dir, s) {
				continue
			}
			for _, f := range e.forks {
				e.route, e.alt = f, nil
				mustReject(op, dir, s, "answered from "+f.name, "clientflow/forked/"+op.name+"/"+dir)
			}
			alts := vAlts
			if op.name != "VerifiedTxByID" {
				alts = eAlts
			}
			for i := range alts {
				a := alts[i]
				e.route, e.alt, e.altHit = e.A, &a, false
				if a.strict {
					// apply first to know whether the alteration is applicable: run once
					before := e.setState(s)
					ret, err := op.run()
					if !e.altHit {
						continue
					}
					r.Stats["clientflow/altered/"+op.name+"/"+dir]++
					if err == nil {
						r.Finding(fmt.Sprintf("pkg/client.%s accepted a response that is not the honest one for the trusted history: altered %s; %s (proven tx %d, trusted state %d); returned data genuine: %v; %s",
							op.name, a.name, dir, op.proven, s, op.genuine(ret), classOf(op.name, a.name)))
					} else if !sameState(before, e.ms.st) {
						r.Finding(fmt.Sprintf("pkg/client.%s returned an error but CHANGED the locally stored state: altered %s; %s", op.name, a.name, dir))
					}
				} else {
					mustBeHarmless(op, dir, s, "altered "+a.name, "clientflow/altered/"+op.name+"/"+dir)
				}
			}
			e.alt = nil
		}
	}

	for q := 0; q < 3; q++ {
		v := 2 + uint64(r.Rng.Intn(int(e.last())-2))
		for _, op := range readOps(v) {
			runReadOp(op)
		}
	}
	if op := refOp(); op != nil {
		runReadOp(*op)
	}

	// ---------- write operations: the proven transaction is new, the trusted state is the last
	// one or an older one
	type wop struct {
		name string
		run  func(tag byte) (any, error)
	}
	wops := []wop{
		{"VerifiedSet", func(tag byte) (any, error) { return e.cl.VerifiedSet(ctx, []byte("kw"), []byte{tag, 9}) }},
		{"VerifiedSetReference", func(tag byte) (any, error) {
			return e.cl.VerifiedSetReference(ctx, []byte{'r', 'f', tag}, e.keys[0])
		}},
		{"VerifiedZAdd", func(tag byte) (any, error) { return e.cl.VerifiedZAdd(ctx, []byte("zw"), float64(tag), e.keys[1]) }},
	}
	tag := byte(0)
	for _, w := range wops {
		w := w
		for _, dir := range []string{"trusted=last", "trusted-older"} {
			if err := e.refreshA(); err != nil {
				return err
			}
			pick := func() uint64 {
				if dir == "trusted=last" {
					return e.last()
				}
				return 1 + uint64(r.Rng.Intn(int(e.last())-1))
			}
			mk := func() cfOp {
				tag++
				t := tag
				return cfOp{name: w.name, run: func() (any, error) { return w.run(t) },
					genuine: func(ret any) bool {
						h := ret.(*schema.TxHeader)
						e.refreshA()
						if h.Id < 1 || h.Id != e.last() {
							return false
						}
						a := schema.TxHeaderFromProto(h).Alh()
						return bytes.Equal(a[:], e.alhs[h.Id-1])
					}}
			}
			// honest
			op := mk()
			s := pick()
			e.setState(s)
			e.route, e.alt = e.A, nil
			ret, err := op.run()
			r.Stats["clientflow/honest/"+w.name+"/"+dir]++
			if err != nil {
				r.Finding(fmt.Sprintf("completeness: pkg/client.%s failed against the honest database (%s, trusted state %d): %v seed=%d", w.name, dir, s, err, r.Seed))
				continue
			}
			if !op.genuine(ret) || !e.isStateOfA(e.ms.st) || e.ms.st.TxId != e.last() {
				r.Finding(fmt.Sprintf("client flow: after an honest %s (%s) the returned header / locally stored state is not the database's last transaction seed=%d", w.name, dir, r.Seed))
			}
			// answered by a fork (which executes the write on its own history)
			for _, f := range e.forks {
				op := mk()
				e.route, e.alt = f, nil
				s := pick()
				mustReject(op, dir, s, "answered from "+f.name, "clientflow/forked/"+w.name+"/"+dir)
			}
			// altered honest responses (A executes each write)
			for i := range vAlts {
				a := vAlts[i]
				if err := e.refreshA(); err != nil {
					return err
				}
				op := mk()
				s := pick()
				e.route, e.alt, e.altHit = e.A, &a, false
				if a.strict {
					before := e.setState(s)
					ret, err := op.run()
					if !e.altHit {
						continue
					}
					r.Stats["clientflow/altered/"+w.name+"/"+dir]++
					if err == nil {
						r.Finding(fmt.Sprintf("pkg/client.%s accepted a response that is not the honest one for the trusted history: altered %s; %s (trusted state %d); returned data genuine: %v; %s",
							w.name, a.name, dir, s, op.genuine(ret), classOf(w.name, a.name)))
					} else if !sameState(before, e.ms.st) {
						r.Finding(fmt.Sprintf("pkg/client.%s returned an error but CHANGED the locally stored state: altered %s; %s", w.name, a.name, dir))
					}
				} else {
					mustBeHarmless(op, dir, s, "altered "+a.name, "clientflow/altered/"+w.name+"/"+dir)
				}
			}
			e.alt = nil
		}
	}

	// ---------- responses recorded as correspondence cases (through the protobuf conversions)
	if err := e.refreshA(); err != nil {
		return err
	}
	for q := 0; q < 6; q++ {
		i := uint64(1 + r.Rng.Intn(int(e.last())))
		j := uint64(1 + r.Rng.Intn(int(e.last())))
		vt, err := e.A.db.VerifiableTxByID(ctx, &schema.VerifiableTxRequest{Tx: i, ProveSinceTx: j})
		if err != nil {
			return err
		}
		p := schema.DualProofFromProto(vt.DualProof)
		s, t := j, i
		if j > i {
			s, t = i, j
		}
		_, acc := caseDual(r, p, s, t, p.SourceTxHeader.Alh(), p.TargetTxHeader.Alh(), "database/VerifiableTxByID")
		if !acc {
			r.Finding(fmt.Sprintf("completeness: store.VerifyDualProof rejected the proof of pkg/database.VerifiableTxByID(tx=%d, since=%d) seed=%d", i, j, r.Seed))
		}
	}
	return nil
}
