package c01

import (
	"bytes"
	"context"
	"fmt"
	"io"
	"os"

	"github.com/codenotary/immudb/embedded/logger"
	"github.com/codenotary/immudb/embedded/store"
	"github.com/codenotary/immudb/pkg/api/schema"
	"github.com/codenotary/immudb/pkg/client"
	"github.com/codenotary/immudb/pkg/client/clienttest"
	"github.com/codenotary/immudb/pkg/database"
	"google.golang.org/grpc"
	"google.golang.org/protobuf/proto"
	"verif/harness/vk"
)

// The client-side flow (pkg/client verifiedGet / VerifiedSet / VerifiedTxByID) driven OFFLINE: the
// real client code with its ServiceClient replaced by a mock that answers from a real
// pkg/database.DB — honestly, or after tampering with the response. Oracle = the database itself:
// whatever a Verified* call returns without error must be what the database holds, and the trusted
// state the client ends up with must be a state of the database. (VerifiedTxByID returned tampered
// transactions until /repo commit 89a7093; the tamperings stay in the stream.)

type memState struct{ st map[string]*schema.ImmutableState }

func (m *memState) GetState(ctx context.Context, db string) (*schema.ImmutableState, error) {
	if s, ok := m.st[db]; ok {
		return s, nil
	}
	return &schema.ImmutableState{Db: db}, nil // no state yet: TxId 0
}
func (m *memState) SetState(db string, s *schema.ImmutableState) error { m.st[db] = s; return nil }
func (m *memState) CacheLock() error                                  { return nil }
func (m *memState) CacheUnlock() error                                { return nil }
func (m *memState) SetServerIdentity(identity string)                 {}

type tamper struct {
	name string
	get  func(r *vk.Run, e *schema.VerifiableEntry)
	tx   func(r *vk.Run, t *schema.VerifiableTx)
}

func flipBytes(r *vk.Run, b []byte) []byte {
	c := append([]byte{}, b...)
	if len(c) == 0 {
		return []byte{1}
	}
	c[r.Rng.Intn(len(c))] ^= 1
	return c
}

func clientFlow(r *vk.Run) (err error) {
	dir, err := os.MkdirTemp("", "vh-c01-db")
	if err != nil {
		return err
	}
	defer os.RemoveAll(dir)
	defer func() {
		if rec := recover(); rec != nil {
			r.Finding(fmt.Sprintf("client flow: panic: %v", rec))
			err = nil
		}
	}()
	quiet := logger.NewSimpleLoggerWithLevel("vh", io.Discard, logger.LogError)
	so := store.DefaultOptions().WithSynced(false).WithMaxConcurrency(4).WithLogger(quiet)
	db, err := database.NewDB("defaultdb", nil, database.DefaultOptions().WithDBRootPath(dir).WithStoreOptions(so), quiet)
	if err != nil {
		return err
	}
	defer db.Close()
	ctx := context.Background()

	var tam *tamper // tampering applied to the NEXT response only
	mock := &clienttest.ImmuServiceClientMock{}
	mock.VerifiableGetF = func(ctx context.Context, in *schema.VerifiableGetRequest, opts ...grpc.CallOption) (*schema.VerifiableEntry, error) {
		e, err := db.VerifiableGet(ctx, in)
		if err == nil && tam != nil && tam.get != nil {
			e = proto.Clone(e).(*schema.VerifiableEntry)
			tam.get(r, e)
		}
		return e, err
	}
	mock.VerifiableSetF = func(ctx context.Context, in *schema.VerifiableSetRequest, opts ...grpc.CallOption) (*schema.VerifiableTx, error) {
		return db.VerifiableSet(ctx, in)
	}
	mock.VerifiableTxByIdF = func(ctx context.Context, in *schema.VerifiableTxRequest, opts ...grpc.CallOption) (*schema.VerifiableTx, error) {
		t, err := db.VerifiableTxByID(ctx, in)
		if err == nil && tam != nil && tam.tx != nil && in.EntriesSpec == nil {
			t = proto.Clone(t).(*schema.VerifiableTx)
			tam.tx(r, t)
		}
		return t, err
	}
	ms := &memState{st: map[string]*schema.ImmutableState{}}
	cl := client.NewClient().WithLogger(quiet).WithClientConn(&grpc.ClientConn{}).WithServiceClient(mock).WithStateService(ms)

	// the oracle: is (id, hash) a state of the database?
	stateOK := func(what string) {
		s := ms.st["defaultdb"]
		if s == nil || s.TxId == 0 {
			return
		}
		h, err := db.TxByID(ctx, &schema.TxRequest{Tx: s.TxId})
		if err != nil {
			r.Finding(fmt.Sprintf("client flow: after %s the trusted state names transaction %d which the database does not have: %v", what, s.TxId, err))
			return
		}
		a := schema.TxHeaderFromProto(h.Header).Alh()
		if !bytes.Equal(a[:], s.TxHash) {
			r.Finding(fmt.Sprintf("client flow: after %s the client's trusted state (%d, %x) is not a state of the database", what, s.TxId, s.TxHash))
		}
	}

	// ---- honest history through the verified API
	type kv struct{ k, v []byte }
	var hist []kv
	n := 8 + r.Rng.Intn(8)
	for i := 0; i < n; i++ {
		k := append([]byte("k"), byte('a'+r.Rng.Intn(6)))
		v := vk.RandBytes(r.Rng, 1+r.Rng.Intn(12))
		if r.Rng.Intn(3) == 0 {
			if _, err := db.Set(ctx, &schema.SetRequest{KVs: []*schema.KeyValue{{Key: k, Value: v}, {Key: append([]byte("x"), k...), Value: v}}}); err != nil {
				return err
			}
		} else {
			if _, err := cl.VerifiedSet(ctx, k, v); err != nil {
				r.Finding(fmt.Sprintf("completeness: pkg/client.VerifiedSet failed against an honest database at step %d: %v seed=%d", i, err, r.Seed))
				return nil
			}
			stateOK("VerifiedSet")
		}
		hist = append(hist, kv{k, v})
		r.Stats["clientflow/honest/set"]++
		if r.Rng.Intn(2) == 0 {
			q := hist[r.Rng.Intn(len(hist))]
			e, err := cl.VerifiedGet(ctx, q.k)
			if err != nil {
				r.Finding(fmt.Sprintf("completeness: pkg/client.VerifiedGet failed against an honest database at step %d: %v seed=%d", i, err, r.Seed))
				return nil
			}
			g, _ := db.Get(ctx, &schema.KeyRequest{Key: q.k})
			if g == nil || !bytes.Equal(e.Value, g.Value) || e.Tx != g.Tx {
				r.Finding(fmt.Sprintf("client flow: honest VerifiedGet returned something else than the database holds seed=%d", r.Seed))
			}
			stateOK("VerifiedGet")
			r.Stats["clientflow/honest/get"]++
		}
		if r.Rng.Intn(2) == 0 {
			last, _ := db.CurrentState()
			id := uint64(1 + r.Rng.Intn(int(last.TxId)))
			if _, err := cl.VerifiedTxByID(ctx, id); err != nil {
				r.Finding(fmt.Sprintf("completeness: pkg/client.VerifiedTxByID(%d) failed against an honest database at step %d: %v seed=%d", id, i, err, r.Seed))
				return nil
			}
			stateOK("VerifiedTxByID")
			r.Stats["clientflow/honest/txbyid"]++
		}
	}
	last, _ := db.CurrentState()

	// ---- responses recorded as correspondence cases (through the protobuf conversions)
	for q := 0; q < 6; q++ {
		i := uint64(1 + r.Rng.Intn(int(last.TxId)))
		j := uint64(1 + r.Rng.Intn(int(last.TxId)))
		vt, err := db.VerifiableTxByID(ctx, &schema.VerifiableTxRequest{Tx: i, ProveSinceTx: j})
		if err != nil {
			return err
		}
		p := schema.DualProofFromProto(vt.DualProof)
		s, t := j, i
		if j > i {
			s, t = i, j
		}
		_, acc := caseDual(r, p, s, t, p.SourceTxHeader.Alh(), p.TargetTxHeader.Alh(), "database/VerifiableTxByID")
		if !acc {
			r.Finding(fmt.Sprintf("completeness: store.VerifyDualProof rejected the proof of pkg/database.VerifiableTxByID(tx=%d, since=%d) seed=%d", i, j, r.Seed))
		}
	}

	// ---- tampered responses: a Verified* call that returns without error must return what the
	// database holds
	getTampers := []tamper{
		{name: "get.Entry.Value", get: func(r *vk.Run, e *schema.VerifiableEntry) { e.Entry.Value = flipBytes(r, e.Entry.Value) }},
		{name: "get.Entry.Tx+1", get: func(r *vk.Run, e *schema.VerifiableEntry) { e.Entry.Tx++ }},
		{name: "get.Entry.Tx-1", get: func(r *vk.Run, e *schema.VerifiableEntry) { e.Entry.Tx-- }},
		{name: "get.Entry.Metadata.deleted", get: func(r *vk.Run, e *schema.VerifiableEntry) {
			e.Entry.Metadata = &schema.KVMetadata{Deleted: true}
		}},
		{name: "get.Entry.Metadata.nonindexable", get: func(r *vk.Run, e *schema.VerifiableEntry) {
			e.Entry.Metadata = &schema.KVMetadata{NonIndexable: true}
		}},
		{name: "get.InclusionProof.Leaf+1", get: func(r *vk.Run, e *schema.VerifiableEntry) { e.InclusionProof.Leaf++ }},
		{name: "get.DualProof.SourceTxHeader.EH", get: func(r *vk.Run, e *schema.VerifiableEntry) {
			e.VerifiableTx.DualProof.SourceTxHeader.EH = flipBytes(r, e.VerifiableTx.DualProof.SourceTxHeader.EH)
		}},
		{name: "get.DualProof.TargetTxHeader.EH", get: func(r *vk.Run, e *schema.VerifiableEntry) {
			e.VerifiableTx.DualProof.TargetTxHeader.EH = flipBytes(r, e.VerifiableTx.DualProof.TargetTxHeader.EH)
		}},
		{name: "get.DualProof.TargetTxHeader.Ts", get: func(r *vk.Run, e *schema.VerifiableEntry) { e.VerifiableTx.DualProof.TargetTxHeader.Ts++ }},
		{name: "get.DualProof.SourceTxHeader.PrevAlh", get: func(r *vk.Run, e *schema.VerifiableEntry) {
			e.VerifiableTx.DualProof.SourceTxHeader.PrevAlh = flipBytes(r, e.VerifiableTx.DualProof.SourceTxHeader.PrevAlh)
		}},
	}
	for _, tm := range getTampers {
		for rep := 0; rep < 2; rep++ {
			tm := tm
			q := hist[r.Rng.Intn(len(hist))]
			g, _ := db.Get(ctx, &schema.KeyRequest{Key: q.k})
			// the trusted state is moved around so that the proven transaction is sometimes the source
			// (older than the state), sometimes the target
			if rep == 1 && g != nil && g.Tx > 1 {
				if _, err := cl.VerifiedTxByID(ctx, uint64(1+r.Rng.Intn(int(g.Tx)))); err != nil {
					continue
				}
				// a verified read of an older transaction keeps the newer state: force an older state
				h, _ := db.TxByID(ctx, &schema.TxRequest{Tx: uint64(1 + r.Rng.Intn(int(g.Tx)))})
				a := schema.TxHeaderFromProto(h.Header).Alh()
				ms.st["defaultdb"] = &schema.ImmutableState{Db: "defaultdb", TxId: h.Header.Id, TxHash: a[:]}
			}
			tam = &tm
			e, err := cl.VerifiedGet(ctx, q.k)
			tam = nil
			r.Stats["clientflow/tampered/get"]++
			if err == nil {
				if g == nil || !bytes.Equal(e.Value, g.Value) || e.Tx != g.Tx ||
					(e.Metadata != nil && (e.Metadata.Deleted || e.Metadata.NonIndexable)) != (g.Metadata != nil && (g.Metadata.Deleted || g.Metadata.NonIndexable)) {
					r.Finding(fmt.Sprintf("pkg/client.VerifiedGet returned, without error, an entry that is not what the database holds; tampering=%s seed=%d", tm.name, r.Seed))
				}
			}
			stateOK("tampered VerifiedGet " + tm.name)
		}
	}
	txTampers := []tamper{
		{name: "tx.Tx.Entries[0].HValue", tx: func(r *vk.Run, t *schema.VerifiableTx) { t.Tx.Entries[0].HValue = flipBytes(r, t.Tx.Entries[0].HValue) }},
		{name: "tx.Tx.Entries[0].Key", tx: func(r *vk.Run, t *schema.VerifiableTx) { t.Tx.Entries[0].Key = flipBytes(r, t.Tx.Entries[0].Key) }},
		{name: "tx.Tx.Entries[0].Value", tx: func(r *vk.Run, t *schema.VerifiableTx) { t.Tx.Entries[0].Value = flipBytes(r, t.Tx.Entries[0].Value) }},
		{name: "tx.Tx.Entries.drop", tx: func(r *vk.Run, t *schema.VerifiableTx) { t.Tx.Entries = t.Tx.Entries[:len(t.Tx.Entries)-1] }},
		{name: "tx.Tx.Header.EH", tx: func(r *vk.Run, t *schema.VerifiableTx) { t.Tx.Header.EH = flipBytes(r, t.Tx.Header.EH) }},
		{name: "tx.Tx.Header.Ts", tx: func(r *vk.Run, t *schema.VerifiableTx) { t.Tx.Header.Ts++ }},
		{name: "tx.DualProof.SourceTxHeader.EH", tx: func(r *vk.Run, t *schema.VerifiableTx) {
			t.DualProof.SourceTxHeader.EH = flipBytes(r, t.DualProof.SourceTxHeader.EH)
		}},
		{name: "tx.DualProof.TargetTxHeader.EH", tx: func(r *vk.Run, t *schema.VerifiableTx) {
			t.DualProof.TargetTxHeader.EH = flipBytes(r, t.DualProof.TargetTxHeader.EH)
		}},
	}
	for _, tm := range txTampers {
		for rep := 0; rep < 2; rep++ {
			tm := tm
			id := uint64(1 + r.Rng.Intn(int(last.TxId)))
			if rep == 1 { // trusted state older than (or equal to) the requested transaction
				h, _ := db.TxByID(ctx, &schema.TxRequest{Tx: uint64(1 + r.Rng.Intn(int(id)))})
				a := schema.TxHeaderFromProto(h.Header).Alh()
				ms.st["defaultdb"] = &schema.ImmutableState{Db: "defaultdb", TxId: h.Header.Id, TxHash: a[:]}
			}
			genuine, err := db.TxByID(ctx, &schema.TxRequest{Tx: id})
			if err != nil {
				return err
			}
			tam = &tm
			got, err := cl.VerifiedTxByID(ctx, id)
			tam = nil
			r.Stats["clientflow/tampered/txbyid"]++
			if err == nil {
				// the client strips the 1-byte key prefix of the returned entries
				for _, e := range genuine.Entries {
					e.Key = e.Key[1:]
				}
				same := proto.Equal(got.Header, genuine.Header) && len(got.Entries) == len(genuine.Entries)
				if same {
					for i := range got.Entries {
						a, b := got.Entries[i], genuine.Entries[i]
						if !bytes.Equal(a.Key, b.Key) || !bytes.Equal(a.HValue, b.HValue) || !bytes.Equal(a.Value, b.Value) {
							same = false
						}
					}
				}
				if !same {
					r.Finding(fmt.Sprintf("pkg/client.VerifiedTxByID returned, without error, a transaction that is not the database's transaction %d: the response's Tx (header and entries) is never related to the proven header; tampering=%s", id, tm.name))
				}
			}
			stateOK("tampered VerifiedTxByID " + tm.name)
		}
	}
	return nil
}
