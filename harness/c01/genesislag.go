package c01

import (
	"context"
	"crypto/sha256"
	"encoding/binary"
	"fmt"
	"io"
	"os"
	"time"

	"github.com/codenotary/immudb/embedded/logger"
	"github.com/codenotary/immudb/embedded/store"
	"verif/harness/vk"
)

// Real ImmuStore histories whose binary linking lags FROM GENESIS (several leading transactions with
// BlTxID 0, then catching up at random), produced the way the store really produces them: a replica
// store is fed through ImmuStore.ReplicateTx with the transactions of an ordinary primary whose
// exported headers are re-linked (PrevAlh = the replica's Alh, BlTxID = the lagging schedule,
// BlRoot = root of the replica's tree at BlTxID) — ReplicateTx accepts any BlTxID < ID whose BlRoot
// matches the tree. On the replica, ImmuStore.DualProof is exercised for ALL pairs (source, target):
//   - completeness falsifier: the honest store generates a proof (no error) and VerifyDualProof
//     accepts it;
//   - the verdict tie (CVerDual) and, for a sample, the generator tie (CDualGen: model generator =
//     store proof, CHist: the header list is a well-formed history for the model).

func relinkExport(ex []byte, prev dig, bl uint64, root dig) ([]byte, *store.TxHeader, error) {
	if len(ex) < 4 {
		return nil, nil, fmt.Errorf("short export")
	}
	hl := int(binary.BigEndian.Uint32(ex))
	if len(ex) < 4+hl {
		return nil, nil, fmt.Errorf("short export header")
	}
	h := &store.TxHeader{}
	if err := h.ReadFrom(ex[4 : 4+hl]); err != nil {
		return nil, nil, err
	}
	h.PrevAlh, h.BlTxID, h.BlRoot = prev, bl, root
	hb, err := h.Bytes()
	if err != nil {
		return nil, nil, err
	}
	out := make([]byte, 4, 4+len(hb)+len(ex)-4-hl)
	binary.BigEndian.PutUint32(out, uint32(len(hb)))
	out = append(out, hb...)
	out = append(out, ex[4+hl:]...)
	return out, h, nil
}

func genesisLagHistory(r *vk.Run, n, version int, tieSample int) error {
	quiet := logger.NewSimpleLoggerWithLevel("vh", io.Discard, logger.LogError)
	open := func() (*store.ImmuStore, string, error) {
		dir, err := os.MkdirTemp("", "vh-c01-glag")
		if err != nil {
			return nil, "", err
		}
		ts := int64(1550000000)
		opts := store.DefaultOptions().WithSynced(false).WithMaxConcurrency(2).WithMaxTxEntries(16).WithLogger(quiet).
			WithWriteTxHeaderVersion(version).
			WithTimeFunc(func() time.Time { ts += 7; return time.Unix(ts, 0) })
		st, err := store.Open(dir, opts)
		if err != nil {
			os.RemoveAll(dir)
			return nil, "", err
		}
		return st, dir, nil
	}
	prim, pdir, err := open()
	if err != nil {
		return err
	}
	defer os.RemoveAll(pdir)
	defer prim.Close()
	repl, rdir, err := open()
	if err != nil {
		return err
	}
	defer os.RemoveAll(rdir)
	defer repl.Close()
	w, err := newWorld() // a parallel tree over the replica's Alh values (gives RootAt for the re-linking)
	if err != nil {
		return err
	}
	defer w.close()
	ctx := context.Background()
	for i := 0; i < n; i++ {
		tx, err := prim.NewWriteOnlyTx(ctx)
		if err != nil {
			return err
		}
		for e := 0; e < 1+r.Rng.Intn(3); e++ {
			if err := tx.Set(append([]byte{0, byte(i), byte(e)}, vk.RandBytes(r.Rng, 1+r.Rng.Intn(6))...), nil, vk.RandBytes(r.Rng, r.Rng.Intn(20))); err != nil {
				return err
			}
		}
		if _, err := tx.Commit(ctx); err != nil {
			return err
		}
	}
	// the lagging schedule: BlTxID 0 for the first g transactions (g >= 2), then catching up
	g := 2 + r.Rng.Intn(minInt(5, n-2))
	holder := store.NewTx(prim.MaxTxEntries(), prim.MaxKeyLen())
	gen := &genuine{}
	prev := sha256.Sum256(nil)
	bl := uint64(0)
	var sched []uint64
	for k := uint64(1); k <= uint64(n); k++ {
		if k > uint64(g) {
			bl += uint64(r.Rng.Intn(int(k-1-bl) + 1))
			if k == uint64(n) && r.Rng.Intn(2) == 0 {
				bl = k - 1
			}
		}
		sched = append(sched, bl)
		ex, err := prim.ExportTx(k, false, false, holder)
		if err != nil {
			return err
		}
		root, err := w.rootAt(bl)
		if err != nil {
			return err
		}
		ex2, _, err := relinkExport(ex, prev, bl, root)
		if err != nil {
			return err
		}
		if _, err := repl.ReplicateTx(ctx, ex2, false, false); err != nil {
			// the store refuses such headers: nothing to check (recorded, not a violation of C01)
			r.Stats["genesislag/replicate-refused"]++
			return nil
		}
		h, err := repl.ReadTxHeader(k, false, false)
		if err != nil {
			return err
		}
		if h.BlTxID != bl {
			r.Stats["genesislag/relinked-header-not-kept"]++
			return nil
		}
		checkInner(r, h)
		a := h.Alh()
		gen.hdrs = append(gen.hdrs, h)
		gen.alhs = append(gen.alhs, a)
		w.chain = append(w.chain, h)
		if err := w.appendLeaf(a); err != nil {
			return err
		}
		prev = a
	}
	desc := fmt.Sprintf("replica store, header version %d, %d txs, BlTxID schedule %v", version, n, sched)
	r.Case("CHist "+hdrsTerm(gen.hdrs), map[string]any{"kind": "hist", "n": n, "genesislag": true, "schedule": fmt.Sprint(sched)}, "hist/genesislag", true)
	ties := 0
	for i := uint64(1); i <= uint64(n); i++ {
		for j := i; j <= uint64(n); j++ {
			hs, ht := gen.hdrs[i-1], gen.hdrs[j-1]
			p, err := repl.DualProof(hs, ht)
			r.Stats["genesislag/pairs"]++
			if err != nil {
				r.Finding(fmt.Sprintf("completeness: ImmuStore.DualProof(%d, %d) FAILED on the store's own history (%s): source BlTxID %d, target BlTxID %d: %v",
					i, j, desc, hs.BlTxID, ht.BlTxID, err))
				continue
			}
			shape := "src>=tgtBl"
			if i < ht.BlTxID {
				shape = "src<tgtBl"
			}
			if hs.BlTxID == 0 && i > 1 {
				shape += "/srcBl0"
			}
			_, acc := caseDual(r, p, i, j, gen.alhs[i-1], gen.alhs[j-1], "genesislag/honest/"+shape)
			if !acc {
				r.Finding(fmt.Sprintf("completeness: store.VerifyDualProof rejected ImmuStore.DualProof(%d, %d) of the store's own history (%s): source BlTxID %d, target BlTxID %d",
					i, j, desc, hs.BlTxID, ht.BlTxID))
			}
			// generator tie: prefer the pairs whose source still has BlTxID 0
			if ties < tieSample && (hs.BlTxID == 0 && i > 1 && r.Rng.Intn(3) == 0 || r.Rng.Intn(25) == 0) {
				ties++
				r.Case(fmt.Sprintf("CDualGen %s %d %d %s", hdrsTerm(gen.hdrs), i, j, dualRecord(p)),
					map[string]any{"kind": "dualgen", "i": i, "j": j, "genesislag": true}, "gen/dual/genesislag", true)
			}
		}
	}
	return nil
}
