package c01

import (
	"fmt"

	"github.com/codenotary/immudb/embedded/htree"
	"github.com/codenotary/immudb/embedded/store"
	"verif/harness/vk"
)

// genuine gives the harness' knowledge of the genuine history the proofs were generated from
type genuine struct {
	hdrs []*store.TxHeader // hdrs[k-1] = header of transaction k
	alhs []dig
}

func (g *genuine) n() uint64 { return uint64(len(g.hdrs)) }
func (g *genuine) isState(id uint64, a dig) bool {
	return id >= 1 && id <= g.n() && g.alhs[id-1] == a
}

// ---------------- deep copies ----------------
func cloneMd(md *store.TxMetadata) *store.TxMetadata {
	if md == nil {
		return nil
	}
	c := store.NewTxMetadata()
	if md.HasTruncatedTxID() {
		v, _ := md.GetTruncatedTxID()
		c.WithTruncatedTxID(v)
	}
	c.WithExtra(md.Extra())
	return c
}
func cloneHdr(h *store.TxHeader) *store.TxHeader {
	if h == nil {
		return nil
	}
	c := *h
	c.Metadata = cloneMd(h.Metadata)
	return &c
}
func cloneDigs(d []dig) []dig {
	if d == nil {
		return nil
	}
	return append([]dig{}, d...)
}
func cloneLin(l *store.LinearProof) *store.LinearProof {
	if l == nil {
		return nil
	}
	return &store.LinearProof{SourceTxID: l.SourceTxID, TargetTxID: l.TargetTxID, Terms: cloneDigs(l.Terms)}
}
func cloneLap(l *store.LinearAdvanceProof) *store.LinearAdvanceProof {
	if l == nil {
		return nil
	}
	c := &store.LinearAdvanceProof{LinearProofTerms: cloneDigs(l.LinearProofTerms), InclusionProofs: [][]dig{}}
	for _, p := range l.InclusionProofs {
		c.InclusionProofs = append(c.InclusionProofs, cloneDigs(p))
	}
	return c
}
func cloneDual(p *store.DualProof) *store.DualProof {
	if p == nil {
		return nil
	}
	return &store.DualProof{SourceTxHeader: cloneHdr(p.SourceTxHeader), TargetTxHeader: cloneHdr(p.TargetTxHeader),
		InclusionProof: cloneDigs(p.InclusionProof), ConsistencyProof: cloneDigs(p.ConsistencyProof), TargetBlTxAlh: p.TargetBlTxAlh,
		LastInclusionProof: cloneDigs(p.LastInclusionProof), LinearProof: cloneLin(p.LinearProof), LinearAdvanceProof: cloneLap(p.LinearAdvanceProof)}
}

// ---------------- a call being mutated ----------------
type mcall struct {
	p          *store.DualProof
	src, tgt   uint64
	salh, talh dig
	reS, reT   bool // recompute salh / talh from the (altered) header, as the client does for the proven side
}

type mut struct {
	name string
	f    func(r *vk.Run, c *mcall)
}

func flip(d *dig, r *vk.Run) { d[r.Rng.Intn(32)] ^= byte(1 << uint(r.Rng.Intn(8))) }

func hdrMuts(side string, get func(c *mcall) *store.TxHeader) []mut {
	on := func(f func(r *vk.Run, h *store.TxHeader)) func(r *vk.Run, c *mcall) {
		return func(r *vk.Run, c *mcall) {
			if h := get(c); h != nil {
				f(r, h)
			}
		}
	}
	ms := []mut{
		{"ID+1", on(func(r *vk.Run, h *store.TxHeader) { h.ID++ })},
		{"ID-1", on(func(r *vk.Run, h *store.TxHeader) { h.ID-- })},
		{"PrevAlh", on(func(r *vk.Run, h *store.TxHeader) { flip(&h.PrevAlh, r) })},
		{"Ts+1", on(func(r *vk.Run, h *store.TxHeader) { h.Ts++ })},
		{"Version^1", on(func(r *vk.Run, h *store.TxHeader) { h.Version ^= 1 })},
		{"Version=2", on(func(r *vk.Run, h *store.TxHeader) { h.Version = 2 })},
		{"Metadata", on(func(r *vk.Run, h *store.TxHeader) {
			if h.Metadata == nil {
				h.Metadata = store.NewTxMetadata()
			}
			ex := append([]byte{}, h.Metadata.Extra()...)
			switch {
			case len(ex) == 0:
				ex = []byte{7}
			case r.Rng.Intn(2) == 0:
				ex[r.Rng.Intn(len(ex))] ^= 1
			default:
				ex = ex[:len(ex)-1]
			}
			h.Metadata.WithExtra(ex)
		})},
		{"Metadata.trunc", on(func(r *vk.Run, h *store.TxHeader) {
			if h.Metadata == nil {
				h.Metadata = store.NewTxMetadata()
			}
			v, _ := h.Metadata.GetTruncatedTxID()
			h.Metadata.WithTruncatedTxID(v + 1)
		})},
		{"NEntries+1", on(func(r *vk.Run, h *store.TxHeader) { h.NEntries++ })},
		{"NEntries+65536", on(func(r *vk.Run, h *store.TxHeader) { h.NEntries += 65536 })},
		{"Eh", on(func(r *vk.Run, h *store.TxHeader) { flip(&h.Eh, r) })},
		{"BlTxID+1", on(func(r *vk.Run, h *store.TxHeader) { h.BlTxID++ })},
		{"BlTxID-1", on(func(r *vk.Run, h *store.TxHeader) { h.BlTxID-- })},
		{"BlRoot", on(func(r *vk.Run, h *store.TxHeader) { flip(&h.BlRoot, r) })},
	}
	var out []mut
	for _, m := range ms {
		m := m
		out = append(out, mut{side + "." + m.name, m.f})
		// the client recomputes the Alh of the proven side from the header it received
		out = append(out, mut{side + "." + m.name + "+alh", func(r *vk.Run, c *mcall) {
			m.f(r, c)
			if side == "src" {
				c.reS = true
			} else {
				c.reT = true
			}
		}})
	}
	out = append(out, mut{side + ".ID+1,arg", func(r *vk.Run, c *mcall) {
		if h := get(c); h != nil {
			h.ID++
		}
		if side == "src" {
			c.src++
			c.reS = true
		} else {
			c.tgt++
			c.reT = true
		}
	}})
	return out
}

func listMuts(name string, get func(c *mcall) *[]dig) []mut {
	return []mut{
		{name + ".flip", func(r *vk.Run, c *mcall) {
			l := get(c)
			if len(*l) > 0 {
				flip(&(*l)[r.Rng.Intn(len(*l))], r)
			}
		}},
		{name + ".dropfirst", func(r *vk.Run, c *mcall) {
			l := get(c)
			if len(*l) > 0 {
				*l = (*l)[1:]
			}
		}},
		{name + ".droplast", func(r *vk.Run, c *mcall) {
			l := get(c)
			if len(*l) > 0 {
				*l = (*l)[:len(*l)-1]
			}
		}},
		{name + ".duplast", func(r *vk.Run, c *mcall) {
			l := get(c)
			if len(*l) > 0 {
				*l = append(*l, (*l)[len(*l)-1])
			}
		}},
		{name + ".appendzero", func(r *vk.Run, c *mcall) { l := get(c); *l = append(*l, dig{}) }},
		{name + ".clear", func(r *vk.Run, c *mcall) { l := get(c); *l = nil }},
		{name + ".swap", func(r *vk.Run, c *mcall) {
			l := get(c)
			if len(*l) > 1 {
				(*l)[0], (*l)[1] = (*l)[1], (*l)[0]
			}
		}},
	}
}

func dualMuts() []mut {
	var ms []mut
	ms = append(ms, hdrMuts("src", func(c *mcall) *store.TxHeader { return c.p.SourceTxHeader })...)
	ms = append(ms, hdrMuts("tgt", func(c *mcall) *store.TxHeader { return c.p.TargetTxHeader })...)
	ms = append(ms, listMuts("incl", func(c *mcall) *[]dig { return &c.p.InclusionProof })...)
	ms = append(ms, listMuts("cons", func(c *mcall) *[]dig { return &c.p.ConsistencyProof })...)
	ms = append(ms, listMuts("last", func(c *mcall) *[]dig { return &c.p.LastInclusionProof })...)
	ms = append(ms,
		mut{"tblalh.flip", func(r *vk.Run, c *mcall) { flip(&c.p.TargetBlTxAlh, r) }},
		mut{"tblalh=salh", func(r *vk.Run, c *mcall) { c.p.TargetBlTxAlh = c.salh }},
		mut{"tblalh=talh", func(r *vk.Run, c *mcall) { c.p.TargetBlTxAlh = c.talh }},
		mut{"lin.nil", func(r *vk.Run, c *mcall) { c.p.LinearProof = nil }},
		mut{"lin.src+1", func(r *vk.Run, c *mcall) {
			if c.p.LinearProof != nil {
				c.p.LinearProof.SourceTxID++
			}
		}},
		mut{"lin.src-1", func(r *vk.Run, c *mcall) {
			if c.p.LinearProof != nil {
				c.p.LinearProof.SourceTxID--
			}
		}},
		mut{"lin.tgt+1", func(r *vk.Run, c *mcall) {
			if c.p.LinearProof != nil {
				c.p.LinearProof.TargetTxID++
			}
		}},
		mut{"lin.tgt-1", func(r *vk.Run, c *mcall) {
			if c.p.LinearProof != nil {
				c.p.LinearProof.TargetTxID--
			}
		}},
	)
	ms = append(ms, listMuts("lin.terms", func(c *mcall) *[]dig {
		if c.p.LinearProof == nil {
			c.p.LinearProof = &store.LinearProof{SourceTxID: c.src, TargetTxID: c.tgt}
		}
		return &c.p.LinearProof.Terms
	})...)
	ms = append(ms,
		mut{"lap.toggle", func(r *vk.Run, c *mcall) {
			if c.p.LinearAdvanceProof != nil {
				c.p.LinearAdvanceProof = nil
			} else {
				c.p.LinearAdvanceProof = &store.LinearAdvanceProof{LinearProofTerms: []dig{c.salh}, InclusionProofs: [][]dig{}}
			}
		}},
		mut{"lap.incl.flip", func(r *vk.Run, c *mcall) {
			if l := c.p.LinearAdvanceProof; l != nil && len(l.InclusionProofs) > 0 {
				k := r.Rng.Intn(len(l.InclusionProofs))
				if len(l.InclusionProofs[k]) > 0 {
					flip(&l.InclusionProofs[k][r.Rng.Intn(len(l.InclusionProofs[k]))], r)
				}
			}
		}},
		mut{"lap.incl.drop", func(r *vk.Run, c *mcall) {
			if l := c.p.LinearAdvanceProof; l != nil && len(l.InclusionProofs) > 0 {
				l.InclusionProofs = l.InclusionProofs[:len(l.InclusionProofs)-1]
			}
		}},
		mut{"lap.incl.shorten", func(r *vk.Run, c *mcall) {
			if l := c.p.LinearAdvanceProof; l != nil && len(l.InclusionProofs) > 0 {
				k := r.Rng.Intn(len(l.InclusionProofs))
				if len(l.InclusionProofs[k]) > 0 {
					l.InclusionProofs[k] = l.InclusionProofs[k][1:]
				}
			}
		}},
	)
	ms = append(ms, listMuts("lap.terms", func(c *mcall) *[]dig {
		if c.p.LinearAdvanceProof == nil {
			c.p.LinearAdvanceProof = &store.LinearAdvanceProof{InclusionProofs: [][]dig{}}
		}
		return &c.p.LinearAdvanceProof.LinearProofTerms
	})...)
	ms = append(ms,
		mut{"arg.src+1", func(r *vk.Run, c *mcall) { c.src++ }},
		mut{"arg.src-1", func(r *vk.Run, c *mcall) { c.src-- }},
		mut{"arg.tgt+1", func(r *vk.Run, c *mcall) { c.tgt++ }},
		mut{"arg.tgt-1", func(r *vk.Run, c *mcall) { c.tgt-- }},
		mut{"arg.swapids", func(r *vk.Run, c *mcall) { c.src, c.tgt = c.tgt, c.src }},
		mut{"arg.swapall", func(r *vk.Run, c *mcall) { c.src, c.tgt = c.tgt, c.src; c.salh, c.talh = c.talh, c.salh }},
		mut{"swaphdrs", func(r *vk.Run, c *mcall) {
			c.p.SourceTxHeader, c.p.TargetTxHeader = c.p.TargetTxHeader, c.p.SourceTxHeader
		}},
		mut{"swapeverything", func(r *vk.Run, c *mcall) {
			c.p.SourceTxHeader, c.p.TargetTxHeader = c.p.TargetTxHeader, c.p.SourceTxHeader
			c.src, c.tgt = c.tgt, c.src
			c.salh, c.talh = c.talh, c.salh
		}},
		mut{"nil.proof", func(r *vk.Run, c *mcall) { c.p = nil }},
		mut{"nil.src", func(r *vk.Run, c *mcall) { c.p.SourceTxHeader = nil }},
		mut{"nil.tgt", func(r *vk.Run, c *mcall) { c.p.TargetTxHeader = nil }},
		mut{"arg.salh", func(r *vk.Run, c *mcall) { flip(&c.salh, r) }},
		mut{"arg.talh", func(r *vk.Run, c *mcall) { flip(&c.talh, r) }},
		mut{"arg.swapalhs", func(r *vk.Run, c *mcall) { c.salh, c.talh = c.talh, c.salh }},
	)
	return ms
}

var allDualMuts = dualMuts()

func safeAlh(h *store.TxHeader) (a dig, ok bool) {
	defer func() {
		if e := recover(); e != nil {
			ok = false
		}
	}()
	return h.Alh(), true
}

func applyMuts(r *vk.Run, honest *store.DualProof, src, tgt uint64, salh, talh dig, ms []mut) (*mcall, string) {
	c := &mcall{p: cloneDual(honest), src: src, tgt: tgt, salh: salh, talh: talh}
	name := ""
	for k, m := range ms {
		if c.p == nil {
			break
		}
		m.f(r, c)
		if k > 0 {
			name += "&"
		}
		name += m.name
	}
	if c.p != nil {
		if c.reS && c.p.SourceTxHeader != nil {
			if a, ok := safeAlh(c.p.SourceTxHeader); ok {
				c.salh = a
			}
		}
		if c.reT && c.p.TargetTxHeader != nil {
			if a, ok := safeAlh(c.p.TargetTxHeader); ok {
				c.talh = a
			}
		}
	}
	return c, name
}

// falsifier for one (possibly altered) call: an acceptance against a genuine target state must
// prove the genuine source transaction (theorem C01_dual_proof_sound_wrt_history)
func checkAccepted(r *vk.Run, g *genuine, what, name string, sh *store.TxHeader, src, tgt uint64, salh, talh dig) {
	if !g.isState(tgt, talh) {
		return // the target is not a state of the genuine history: nothing is claimed
	}
	if src < 1 || src > g.n() || sh == nil {
		r.Finding(fmt.Sprintf("%s accepted source id %d outside the genuine history (size %d) against the genuine state %d; alteration=%s seed=%d",
			what, src, g.n(), tgt, name, r.Seed))
		return
	}
	real := g.hdrs[src-1]
	same, diffs := sameHashedFields(sh, real)
	if same && salh == g.alhs[src-1] {
		return
	}
	if diffs == "NEntries" && real.Version == 0 && (sh.NEntries-real.NEntries)%65536 == 0 {
		r.Finding(fmt.Sprintf("Alh does not commit to NEntries beyond uint16 (header version 0): %s accepted source header of tx %d with NEntries=%d (genuine %d) against the genuine state %d; alteration=%s",
			what, src, sh.NEntries, real.NEntries, tgt, name))
		return
	}
	r.Finding(fmt.Sprintf("%s accepted a source that is not the genuine transaction %d (differing hashed fields: %s; source Alh genuine: %v) against the genuine state %d; alteration=%s seed=%d",
		what, src, diffs, salh == g.alhs[src-1], tgt, name, r.Seed))
}

// mutateDual: the single alterations (all of them, or a sample of nsingle) plus nmulti sampled
// multi-field ones, recorded as one group; a sample of them also as flat cases (cross-check of the
// edit encoding)
func mutateDual(r *vk.Run, g *genuine, honest *store.DualProof, src, tgt uint64, salh, talh dig, all bool, nsingle, nmulti int, tag string) error {
	grp := newGroup(false, honest, src, tgt, salh, talh)
	run := func(ms []mut, bucket string) error {
		c, name := applyMuts(r, honest, src, tgt, salh, talh, ms)
		pan, acc, err := grp.add(r, c, name, bucket)
		if err != nil {
			return err
		}
		if r.Rng.Intn(60) == 0 {
			caseDual(r, c.p, c.src, c.tgt, c.salh, c.talh, tag+"/flat")
		}
		if acc && !pan {
			checkAccepted(r, g, "store.VerifyDualProof", name, c.p.SourceTxHeader, c.src, c.tgt, c.salh, c.talh)
		}
		if grp.full() {
			grp.emit(r, "dualgroup/"+tag)
		}
		return nil
	}
	idx := r.Rng.Perm(len(allDualMuts))
	if !all && nsingle < len(idx) {
		idx = idx[:nsingle]
	}
	for _, i := range idx {
		if err := run([]mut{allDualMuts[i]}, "dual/"+tag+"/mut1"); err != nil {
			return err
		}
	}
	for k := 0; k < nmulti; k++ {
		var ms []mut
		for q := 2 + r.Rng.Intn(2); q > 0; q-- {
			ms = append(ms, allDualMuts[r.Rng.Intn(len(allDualMuts))])
		}
		if err := run(ms, "dual/"+tag+"/mutN"); err != nil {
			return err
		}
	}
	grp.emit(r, "dualgroup/"+tag)
	return nil
}

// the V2 proof carries headers, inclusion and consistency terms only
func v2Muts() []mut {
	var cand []mut
	for _, m := range allDualMuts {
		n := m.name
		if len(n) >= 4 && (n[:4] == "src." || n[:4] == "tgt." || n[:4] == "arg." || n[:4] == "nil.") ||
			len(n) >= 5 && (n[:5] == "incl." || n[:5] == "cons.") || n == "swaphdrs" || n == "swapeverything" {
			cand = append(cand, m)
		}
	}
	return cand
}

var allV2Muts = v2Muts()

func mutateDual2(r *vk.Run, g *genuine, honest *store.DualProofV2, src, tgt uint64, salh, talh dig, all bool, nsingle, nmulti int, tag string) error {
	h := v2ToDual(honest)
	grp := newGroup(true, h, src, tgt, salh, talh)
	run := func(ms []mut, bucket string) error {
		c, name := applyMuts(r, h, src, tgt, salh, talh, ms)
		pan, acc, err := grp.add(r, c, name, bucket)
		if err != nil {
			return err
		}
		p2 := dualToV2(c.p)
		if r.Rng.Intn(60) == 0 {
			caseDual2(r, p2, c.src, c.tgt, c.salh, c.talh, tag+"/flat")
		}
		if acc && !pan {
			if c.src == c.tgt && c.salh != c.talh {
				r.Finding(fmt.Sprintf("store.VerifyDualProofV2 with sourceTxID == targetTxID (%d) accepted two different Alh values (source and target headers are not compared); alteration=%s",
					c.src, name))
			} else {
				checkAccepted(r, g, "store.VerifyDualProofV2", name, p2.SourceTxHeader, c.src, c.tgt, c.salh, c.talh)
			}
		}
		if grp.full() {
			grp.emit(r, "dual2group/"+tag)
		}
		return nil
	}
	idx := r.Rng.Perm(len(allV2Muts))
	if !all && nsingle < len(idx) {
		idx = idx[:nsingle]
	}
	for _, i := range idx {
		if err := run([]mut{allV2Muts[i]}, "dual2/"+tag+"/mut1"); err != nil {
			return err
		}
	}
	for k := 0; k < nmulti; k++ {
		if err := run([]mut{allV2Muts[r.Rng.Intn(len(allV2Muts))], allV2Muts[r.Rng.Intn(len(allV2Muts))]}, "dual2/"+tag+"/mutN"); err != nil {
			return err
		}
	}
	grp.emit(r, "dual2group/"+tag)
	return nil
}

func mutateLin(r *vk.Run, honest *store.LinearProof, src, tgt uint64, salh, talh dig, chainAlh func(k uint64) (dig, bool), tag string) {
	type lm struct {
		name string
		f    func(p **store.LinearProof, s, t *uint64, sa, ta *dig)
	}
	ms := []lm{
		{"nil", func(p **store.LinearProof, s, t *uint64, sa, ta *dig) { *p = nil }},
		{"src+1", func(p **store.LinearProof, s, t *uint64, sa, ta *dig) { (*p).SourceTxID++ }},
		{"tgt-1", func(p **store.LinearProof, s, t *uint64, sa, ta *dig) { (*p).TargetTxID-- }},
		{"arg.src+1", func(p **store.LinearProof, s, t *uint64, sa, ta *dig) { *s++ }},
		{"arg.tgt+1", func(p **store.LinearProof, s, t *uint64, sa, ta *dig) { *t++ }},
		{"both.src-1", func(p **store.LinearProof, s, t *uint64, sa, ta *dig) { *s--; (*p).SourceTxID-- }},
		{"both.tgt+1", func(p **store.LinearProof, s, t *uint64, sa, ta *dig) { *t++; (*p).TargetTxID++ }},
		{"src=0", func(p **store.LinearProof, s, t *uint64, sa, ta *dig) { *s = 0; (*p).SourceTxID = 0 }},
		{"flipterm", func(p **store.LinearProof, s, t *uint64, sa, ta *dig) {
			if n := len((*p).Terms); n > 0 {
				flip(&(*p).Terms[r.Rng.Intn(n)], r)
			}
		}},
		{"flipterm0+salh", func(p **store.LinearProof, s, t *uint64, sa, ta *dig) {
			if n := len((*p).Terms); n > 0 {
				flip(&(*p).Terms[0], r)
				*sa = (*p).Terms[0]
			}
		}},
		{"droplast", func(p **store.LinearProof, s, t *uint64, sa, ta *dig) {
			if n := len((*p).Terms); n > 0 {
				(*p).Terms = (*p).Terms[:n-1]
			}
		}},
		{"droplast+tgt-1", func(p **store.LinearProof, s, t *uint64, sa, ta *dig) {
			if n := len((*p).Terms); n > 1 {
				(*p).Terms = (*p).Terms[:n-1]
				(*p).TargetTxID--
				*t--
			}
		}},
		{"append", func(p **store.LinearProof, s, t *uint64, sa, ta *dig) { (*p).Terms = append((*p).Terms, dig{}) }},
		{"empty", func(p **store.LinearProof, s, t *uint64, sa, ta *dig) { (*p).Terms = nil }},
		{"salh", func(p **store.LinearProof, s, t *uint64, sa, ta *dig) { flip(sa, r) }},
		{"talh", func(p **store.LinearProof, s, t *uint64, sa, ta *dig) { flip(ta, r) }},
	}
	for _, m := range ms {
		p := cloneLin(honest)
		s, t, sa, ta := src, tgt, salh, talh
		m.f(&p, &s, &t, &sa, &ta)
		acc := caseLin(r, p, s, t, sa, ta, tag+"/mut")
		// falsifier (theorem C01_linear_proof_sound): genuine target value => genuine source value
		if acc {
			if ga, ok := chainAlh(t); ok && ga == ta {
				if gs, ok2 := chainAlh(s); !ok2 || gs != sa {
					r.Finding(fmt.Sprintf("store.VerifyLinearProof accepted a source value that is not the chain's Alh at %d against the genuine Alh at %d; alteration=%s seed=%d",
						s, t, m.name, r.Seed))
				}
			}
		}
	}
}

// entry inclusion: alterations of an honest htree proof; falsifier: an accepted digest against the
// genuine Eh must be one of the transaction's entry digests (theorem C01_verified_entry_sound)
func mutateEntry(r *vk.Run, honest *htree.InclusionProof, d, eh dig, digests []dig, tag string) {
	isEntry := func(x dig) bool {
		for _, y := range digests {
			if x == y {
				return true
			}
		}
		return false
	}
	cl := func() *htree.InclusionProof {
		return &htree.InclusionProof{Leaf: honest.Leaf, Width: honest.Width, Terms: cloneDigs(honest.Terms)}
	}
	type em struct {
		name string
		f    func(p **htree.InclusionProof, d, eh *dig)
	}
	ms := []em{
		{"nil", func(p **htree.InclusionProof, d, eh *dig) { *p = nil }},
		{"leaf+1", func(p **htree.InclusionProof, d, eh *dig) { (*p).Leaf++ }},
		{"leaf-1", func(p **htree.InclusionProof, d, eh *dig) { (*p).Leaf-- }},
		{"width+1", func(p **htree.InclusionProof, d, eh *dig) { (*p).Width++ }},
		{"width-1", func(p **htree.InclusionProof, d, eh *dig) { (*p).Width-- }},
		{"width=0", func(p **htree.InclusionProof, d, eh *dig) { (*p).Width = 0 }},
		{"flipterm", func(p **htree.InclusionProof, d, eh *dig) {
			if n := len((*p).Terms); n > 0 {
				flip(&(*p).Terms[r.Rng.Intn(n)], r)
			}
		}},
		{"dropterm", func(p **htree.InclusionProof, d, eh *dig) {
			if n := len((*p).Terms); n > 0 {
				(*p).Terms = (*p).Terms[:n-1]
			}
		}},
		{"addterm", func(p **htree.InclusionProof, d, eh *dig) { (*p).Terms = append((*p).Terms, dig{}) }},
		{"digest", func(p **htree.InclusionProof, d, eh *dig) { flip(d, r) }},
		{"otherdigest", func(p **htree.InclusionProof, d, eh *dig) { *d = digests[r.Rng.Intn(len(digests))] }},
		{"eh", func(p **htree.InclusionProof, d, eh *dig) { flip(eh, r) }},
	}
	for _, m := range ms {
		p := cl()
		dd, ee := d, eh
		m.f(&p, &dd, &ee)
		acc := caseEntry(r, p, dd, ee, tag+"/mut")
		if acc && ee == eh && !isEntry(dd) {
			r.Finding(fmt.Sprintf("store.VerifyInclusion accepted a digest that is not an entry digest of the transaction against its genuine Eh; alteration=%s seed=%d", m.name, r.Seed))
		}
	}
}
