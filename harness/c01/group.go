package c01

import (
	"encoding/hex"
	"encoding/json"
	"fmt"
	"strings"

	"github.com/codenotary/immudb/embedded/store"
	"verif/harness/c16"
	"verif/harness/vk"
)

// A group = one base call of VerifyDualProof (or VerifyDualProofV2) plus alterations of it, each
// written as a few small edits (Tie/C01.v `edit`) with the Go verdict on the altered call. The
// edits are obtained by DIFFING the altered call against the base and are checked here by applying
// them back (applyEdits) and comparing with the altered call, so a wrong diff cannot go unnoticed.

type jHEdit struct {
	F  string `json:"f"` // id prev ts ver md ne eh bl root
	N  uint64 `json:"n,omitempty"`
	D  string `json:"d,omitempty"`
	Md *jMd   `json:"md,omitempty"`
}

type jEdit struct {
	K      string   `json:"k"` // nil hdr incl cons last tbl lin linids linterms lap lapterms lapincl lapinclstake args
	Source bool     `json:"source,omitempty"`
	HdrNil bool     `json:"hdrnil,omitempty"`
	H      []jHEdit `json:"h,omitempty"`
	Keep   uint64   `json:"keep,omitempty"`
	Del    uint64   `json:"del,omitempty"`
	Ins    []string `json:"ins,omitempty"`
	Idx    uint64   `json:"idx,omitempty"`
	D      string   `json:"d,omitempty"`
	Lin    *jLin    `json:"lin,omitempty"`
	Lap    *jLap    `json:"lap,omitempty"`
	S      uint64   `json:"s,omitempty"`
	T      uint64   `json:"t,omitempty"`
	SAlh   *string  `json:"salh,omitempty"`
	TAlh   *string  `json:"talh,omitempty"`
}

func hexd(d dig) string { return hex.EncodeToString(d[:]) }

func mdToJ(md *store.TxMetadata) *jMd {
	if md == nil {
		return nil
	}
	j := &jMd{Extra: hex.EncodeToString(md.Extra())}
	if md.HasTruncatedTxID() {
		v, _ := md.GetTruncatedTxID()
		j.Trunc = &v
	}
	return j
}
func mdFromJ(j *jMd) *store.TxMetadata {
	if j == nil {
		return nil
	}
	md := store.NewTxMetadata()
	if j.Trunc != nil {
		md.WithTruncatedTxID(*j.Trunc)
	}
	ex, _ := hex.DecodeString(j.Extra)
	md.WithExtra(ex)
	return md
}
func mdKey(md *store.TxMetadata) string {
	if md == nil {
		return "nil"
	}
	return c16.TxMdTerm(md)
}

func lapToJ(l *store.LinearAdvanceProof) *jLap {
	if l == nil {
		return nil
	}
	j := &jLap{Terms: hexs(l.LinearProofTerms), Incls: [][]string{}}
	for _, ip := range l.InclusionProofs {
		j.Incls = append(j.Incls, hexs(ip))
	}
	return j
}
func lapFromJ(j *jLap) *store.LinearAdvanceProof {
	if j == nil {
		return nil
	}
	l := &store.LinearAdvanceProof{LinearProofTerms: unhexs(j.Terms), InclusionProofs: [][]dig{}}
	for _, ip := range j.Incls {
		l.InclusionProofs = append(l.InclusionProofs, unhexs(ip))
	}
	return l
}

// ---- diff ----
func spliceDiff(old, new []dig) (keep, del uint64, ins []dig, changed bool) {
	p := 0
	for p < len(old) && p < len(new) && old[p] == new[p] {
		p++
	}
	if p == len(old) && p == len(new) {
		return 0, 0, nil, false
	}
	s := 0
	for s < len(old)-p && s < len(new)-p && old[len(old)-1-s] == new[len(new)-1-s] {
		s++
	}
	return uint64(p), uint64(len(old) - s - p), new[p : len(new)-s], true
}

func hdrDiff(a, b *store.TxHeader) []jHEdit {
	var es []jHEdit
	if a.ID != b.ID {
		es = append(es, jHEdit{F: "id", N: b.ID})
	}
	if a.PrevAlh != b.PrevAlh {
		es = append(es, jHEdit{F: "prev", D: hexd(b.PrevAlh)})
	}
	if a.Ts != b.Ts {
		es = append(es, jHEdit{F: "ts", N: uint64(b.Ts)})
	}
	if a.Version != b.Version {
		es = append(es, jHEdit{F: "ver", N: uint64(b.Version)})
	}
	if mdKey(a.Metadata) != mdKey(b.Metadata) {
		es = append(es, jHEdit{F: "md", Md: mdToJ(b.Metadata)})
	}
	if a.NEntries != b.NEntries {
		es = append(es, jHEdit{F: "ne", N: uint64(b.NEntries)})
	}
	if a.Eh != b.Eh {
		es = append(es, jHEdit{F: "eh", D: hexd(b.Eh)})
	}
	if a.BlTxID != b.BlTxID {
		es = append(es, jHEdit{F: "bl", N: b.BlTxID})
	}
	if a.BlRoot != b.BlRoot {
		es = append(es, jHEdit{F: "root", D: hexd(b.BlRoot)})
	}
	return es
}

func sameDigs(a, b []dig) bool {
	if len(a) != len(b) {
		return false
	}
	for i := range a {
		if a[i] != b[i] {
			return false
		}
	}
	return true
}

func diffCall(base, m *mcall) []jEdit {
	var es []jEdit
	if m.p == nil {
		es = append(es, jEdit{K: "nil"})
	} else {
		b := base.p
		for _, side := range []bool{true, false} {
			bh, mh := b.TargetTxHeader, m.p.TargetTxHeader
			if side {
				bh, mh = b.SourceTxHeader, m.p.SourceTxHeader
			}
			if mh == nil {
				es = append(es, jEdit{K: "hdr", Source: side, HdrNil: true})
			} else if d := hdrDiff(bh, mh); len(d) > 0 {
				es = append(es, jEdit{K: "hdr", Source: side, H: d})
			}
		}
		for _, l := range []struct {
			k        string
			old, new []dig
		}{{"incl", b.InclusionProof, m.p.InclusionProof}, {"cons", b.ConsistencyProof, m.p.ConsistencyProof}, {"last", b.LastInclusionProof, m.p.LastInclusionProof}} {
			if keep, del, ins, ch := spliceDiff(l.old, l.new); ch {
				es = append(es, jEdit{K: l.k, Keep: keep, Del: del, Ins: hexs(ins)})
			}
		}
		if b.TargetBlTxAlh != m.p.TargetBlTxAlh {
			es = append(es, jEdit{K: "tbl", D: hexd(m.p.TargetBlTxAlh)})
		}
		switch {
		case b.LinearProof == nil && m.p.LinearProof == nil:
		case b.LinearProof == nil || m.p.LinearProof == nil:
			es = append(es, jEdit{K: "lin", Lin: linToJ(m.p.LinearProof)})
		default:
			bl, ml := b.LinearProof, m.p.LinearProof
			if bl.SourceTxID != ml.SourceTxID || bl.TargetTxID != ml.TargetTxID {
				es = append(es, jEdit{K: "linids", S: ml.SourceTxID, T: ml.TargetTxID})
			}
			if keep, del, ins, ch := spliceDiff(bl.Terms, ml.Terms); ch {
				es = append(es, jEdit{K: "linterms", Keep: keep, Del: del, Ins: hexs(ins)})
			}
		}
		switch {
		case b.LinearAdvanceProof == nil && m.p.LinearAdvanceProof == nil:
		case b.LinearAdvanceProof == nil || m.p.LinearAdvanceProof == nil:
			es = append(es, jEdit{K: "lap", Lap: lapToJ(m.p.LinearAdvanceProof)})
		default:
			bl, ml := b.LinearAdvanceProof, m.p.LinearAdvanceProof
			if keep, del, ins, ch := spliceDiff(bl.LinearProofTerms, ml.LinearProofTerms); ch {
				es = append(es, jEdit{K: "lapterms", Keep: keep, Del: del, Ins: hexs(ins)})
			}
			nb, nm := len(bl.InclusionProofs), len(ml.InclusionProofs)
			if nm > nb {
				es = append(es, jEdit{K: "lap", Lap: lapToJ(ml)})
			} else {
				if nm < nb {
					es = append(es, jEdit{K: "lapinclstake", Keep: uint64(nm)})
				}
				for i := 0; i < nm; i++ {
					if keep, del, ins, ch := spliceDiff(bl.InclusionProofs[i], ml.InclusionProofs[i]); ch {
						es = append(es, jEdit{K: "lapincl", Idx: uint64(i), Keep: keep, Del: del, Ins: hexs(ins)})
					}
				}
			}
		}
	}
	if base.src != m.src || base.tgt != m.tgt || base.salh != m.salh || base.talh != m.talh {
		e := jEdit{K: "args", S: m.src, T: m.tgt}
		if base.salh != m.salh {
			s := hexd(m.salh)
			e.SAlh = &s
		}
		if base.talh != m.talh {
			s := hexd(m.talh)
			e.TAlh = &s
		}
		es = append(es, e)
	}
	return es
}

// ---- apply (mirror of Tie/C01.v apply_edit) ----
func splice(l []dig, keep, del uint64, ins []dig) []dig {
	k, d := int(keep), int(del)
	if k > len(l) {
		k = len(l)
	}
	e := k + d
	if e > len(l) {
		e = len(l)
	}
	out := append([]dig{}, l[:k]...)
	out = append(out, ins...)
	return append(out, l[e:]...)
}

func applyEdits(base *mcall, es []jEdit) *mcall {
	c := &mcall{p: cloneDual(base.p), src: base.src, tgt: base.tgt, salh: base.salh, talh: base.talh}
	for _, e := range es {
		if e.K == "args" {
			c.src, c.tgt = e.S, e.T
			if e.SAlh != nil {
				c.salh = unhex(*e.SAlh)
			}
			if e.TAlh != nil {
				c.talh = unhex(*e.TAlh)
			}
			continue
		}
		if e.K == "nil" {
			c.p = nil
			continue
		}
		if c.p == nil {
			continue
		}
		p := c.p
		switch e.K {
		case "hdr":
			hp := &p.TargetTxHeader
			if e.Source {
				hp = &p.SourceTxHeader
			}
			if e.HdrNil {
				*hp = nil
				break
			}
			if *hp == nil {
				break
			}
			h := *hp
			for _, he := range e.H {
				switch he.F {
				case "id":
					h.ID = he.N
				case "prev":
					h.PrevAlh = unhex(he.D)
				case "ts":
					h.Ts = int64(he.N)
				case "ver":
					h.Version = int(he.N)
				case "md":
					h.Metadata = mdFromJ(he.Md)
				case "ne":
					h.NEntries = int(he.N)
				case "eh":
					h.Eh = unhex(he.D)
				case "bl":
					h.BlTxID = he.N
				case "root":
					h.BlRoot = unhex(he.D)
				}
			}
		case "incl":
			p.InclusionProof = splice(p.InclusionProof, e.Keep, e.Del, unhexs(e.Ins))
		case "cons":
			p.ConsistencyProof = splice(p.ConsistencyProof, e.Keep, e.Del, unhexs(e.Ins))
		case "last":
			p.LastInclusionProof = splice(p.LastInclusionProof, e.Keep, e.Del, unhexs(e.Ins))
		case "tbl":
			p.TargetBlTxAlh = unhex(e.D)
		case "lin":
			p.LinearProof = linFromJ(e.Lin)
		case "linids":
			if p.LinearProof != nil {
				p.LinearProof.SourceTxID, p.LinearProof.TargetTxID = e.S, e.T
			}
		case "linterms":
			if p.LinearProof != nil {
				p.LinearProof.Terms = splice(p.LinearProof.Terms, e.Keep, e.Del, unhexs(e.Ins))
			}
		case "lap":
			p.LinearAdvanceProof = lapFromJ(e.Lap)
		case "lapterms":
			if l := p.LinearAdvanceProof; l != nil {
				l.LinearProofTerms = splice(l.LinearProofTerms, e.Keep, e.Del, unhexs(e.Ins))
			}
		case "lapincl":
			if l := p.LinearAdvanceProof; l != nil && int(e.Idx) < len(l.InclusionProofs) {
				l.InclusionProofs[e.Idx] = splice(l.InclusionProofs[e.Idx], e.Keep, e.Del, unhexs(e.Ins))
			}
		case "lapinclstake":
			if l := p.LinearAdvanceProof; l != nil && int(e.Keep) < len(l.InclusionProofs) {
				l.InclusionProofs = l.InclusionProofs[:e.Keep]
			}
		}
	}
	return c
}

// ---- Coq terms of edits ----
func optMdTerm(md *store.TxMetadata) string {
	if md == nil {
		return "None"
	}
	return "(Some " + c16.TxMdTerm(md) + ")"
}
func hexsTerm(xs []string) string {
	ts := make([]string, len(xs))
	for i, x := range xs {
		ts[i] = `(hex "` + x + `")`
	}
	return vk.List(ts)
}
func optDigTerm(s *string) string {
	if s == nil {
		return "None"
	}
	return `(Some (hex "` + *s + `"))`
}

func editTerm(e jEdit) string {
	switch e.K {
	case "nil":
		return "ENil"
	case "hdr":
		if e.HdrNil {
			return fmt.Sprintf("EHdr %s None", vk.Bool(e.Source))
		}
		hs := make([]string, len(e.H))
		for i, he := range e.H {
			switch he.F {
			case "id":
				hs[i] = fmt.Sprintf("HId %d", he.N)
			case "prev":
				hs[i] = fmt.Sprintf(`HPrev (hex "%s")`, he.D)
			case "ts":
				hs[i] = fmt.Sprintf("HTs %d", he.N)
			case "ver":
				hs[i] = fmt.Sprintf("HVer %d", he.N)
			case "md":
				hs[i] = "HMd " + optMdTerm(mdFromJ(he.Md))
			case "ne":
				hs[i] = fmt.Sprintf("HNe %d", he.N)
			case "eh":
				hs[i] = fmt.Sprintf(`HEh (hex "%s")`, he.D)
			case "bl":
				hs[i] = fmt.Sprintf("HBl %d", he.N)
			case "root":
				hs[i] = fmt.Sprintf(`HRoot (hex "%s")`, he.D)
			}
		}
		return fmt.Sprintf("EHdr %s (Some %s)", vk.Bool(e.Source), vk.List(hs))
	case "incl":
		return fmt.Sprintf("EIncl %d %d %s", e.Keep, e.Del, hexsTerm(e.Ins))
	case "cons":
		return fmt.Sprintf("ECons %d %d %s", e.Keep, e.Del, hexsTerm(e.Ins))
	case "last":
		return fmt.Sprintf("ELast %d %d %s", e.Keep, e.Del, hexsTerm(e.Ins))
	case "tbl":
		return fmt.Sprintf(`ETbl (hex "%s")`, e.D)
	case "lin":
		return "ELin " + linTerm(linFromJ(e.Lin))
	case "linids":
		return fmt.Sprintf("ELinIds %d %d", e.S, e.T)
	case "linterms":
		return fmt.Sprintf("ELinTerms %d %d %s", e.Keep, e.Del, hexsTerm(e.Ins))
	case "lap":
		return "ELap " + lapTerm(lapFromJ(e.Lap))
	case "lapterms":
		return fmt.Sprintf("ELapTerms %d %d %s", e.Keep, e.Del, hexsTerm(e.Ins))
	case "lapincl":
		return fmt.Sprintf("ELapIncl %d %d %d %s", e.Idx, e.Keep, e.Del, hexsTerm(e.Ins))
	case "lapinclstake":
		return fmt.Sprintf("ELapInclsTake %d", e.Keep)
	case "args":
		return fmt.Sprintf("EArgs %d %d %s %s", e.S, e.T, optDigTerm(e.SAlh), optDigTerm(e.TAlh))
	}
	panic("unknown edit kind " + e.K)
}

// ---- the group ----
type jVariant struct {
	Name    string  `json:"name"`
	Edits   []jEdit `json:"edits"`
	Verdict bool    `json:"verdict"`
	Panic   bool    `json:"panic"`
}
type jGroup struct {
	V2       bool       `json:"v2"`
	Base     jCall      `json:"base"`
	Variants []jVariant `json:"variants"`
}

type group struct {
	v2    bool
	base  *mcall
	jg    jGroup
	terms []string
}

func newGroup(v2 bool, p *store.DualProof, src, tgt uint64, salh, talh dig) *group {
	g := &group{v2: v2, base: &mcall{p: cloneDual(p), src: src, tgt: tgt, salh: salh, talh: talh}}
	g.jg = jGroup{V2: v2, Base: jCall{Kind: "dual", Dual: dualToJ(p), SrcID: src, TgtID: tgt, SAlh: hexd(salh), TAlh: hexd(talh)}}
	return g
}

func callKey(c *mcall) string {
	return fmt.Sprintf("%s|%d|%d|%x|%x", dualTerm(c.p), c.src, c.tgt, c.salh, c.talh)
}

func (g *group) verify(c *mcall) (pan, acc bool) {
	if g.v2 {
		return guard(func() bool { return store.VerifyDualProofV2(dualToV2(c.p), c.src, c.tgt, c.salh, c.talh) == nil })
	}
	return guard(func() bool { return store.VerifyDualProof(c.p, c.src, c.tgt, c.salh, c.talh) })
}

// add runs the Go verifier on the altered call and records it as a variant of the group
func (g *group) add(r *vk.Run, c *mcall, name, bucket string) (pan, acc bool, err error) {
	if g.v2 && c.p != nil { // the V2 proof has no other parts
		c.p = v2ToDual(dualToV2(c.p))
	}
	es := diffCall(g.base, c)
	if back := applyEdits(g.base, es); callKey(back) != callKey(c) {
		return false, false, fmt.Errorf("harness self-check: edits do not reproduce the altered call (alteration %s)", name)
	}
	pan, acc = g.verify(c)
	g.jg.Variants = append(g.jg.Variants, jVariant{Name: name, Edits: es, Verdict: acc, Panic: pan})
	ets := make([]string, len(es))
	for i, e := range es {
		ets[i] = editTerm(e)
	}
	g.terms = append(g.terms, fmt.Sprintf("(%s, %s)", vk.List(ets), resBool(pan, acc)))
	r.Stats[bucket]++ // distribution is counted per variant
	return
}

// groups are kept small so that the case files shard evenly over the parallel model evaluations
const groupCap = 30

func (g *group) full() bool { return len(g.terms) >= groupCap }

func (g *group) reset() {
	g.terms = nil
	g.jg.Variants = nil
}

func (g *group) emit(r *vk.Run, bucket string) {
	defer g.reset()
	if len(g.terms) == 0 {
		return
	}
	b, _ := json.Marshal(g.jg)
	p := g.base.p
	r.Case(fmt.Sprintf("CDualGroup %s %s %d %d %s %s [\n  %s]", vk.Bool(g.v2), strings.TrimSuffix(strings.TrimPrefix(dualTerm(p), "(Some "), ")"),
		g.base.src, g.base.tgt, hx(g.base.salh[:]), hx(g.base.talh[:]), strings.Join(g.terms, ";\n  ")),
		map[string]any{"kind": "dualgroup", "v2": g.v2, "variants": len(g.terms), "group": string(b)}, bucket, true)
}

func replayGroup(r *vk.Run, s string) error {
	var jg jGroup
	if err := json.Unmarshal([]byte(s), &jg); err != nil {
		return err
	}
	g := newGroup(jg.V2, dualFromJ(jg.Base.Dual), jg.Base.SrcID, jg.Base.TgtID, unhex(jg.Base.SAlh), unhex(jg.Base.TAlh))
	for _, v := range jg.Variants {
		c := applyEdits(g.base, v.Edits)
		if _, _, err := g.add(r, c, v.Name, "replay/variant"); err != nil {
			return err
		}
		// also as a flat case, so that a disagreement is pinned to one altered call
		if jg.V2 {
			caseDual2(r, dualToV2(c.p), c.src, c.tgt, c.salh, c.talh, "replay/"+v.Name)
		} else {
			caseDual(r, c.p, c.src, c.tgt, c.salh, c.talh, "replay/"+v.Name)
		}
	}
	g.emit(r, "replay/group")
	return nil
}
