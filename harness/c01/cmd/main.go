package main

import (
	"verif/harness/c01"
	"verif/harness/vk"
)

func main() { vk.Main("Tie.C01", c01.Gen, c01.Replay) }
