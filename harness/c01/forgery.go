package c01

import (
	"crypto/sha256"
	"fmt"

	"github.com/codenotary/immudb/embedded/store"
	"verif/harness/vk"
)

// The forged sessions of coq/Proofs/Refuted.v, assembled with the real TxHeader.Alh(), a real
// ahtree for every Merkle proof, and replayed on the real verifiers. A session is a sequence of
// VerifyDualProof calls of one client (trusted state = source when the proven transaction is at or
// after it, target otherwise); it is a forgery when two different headers for the same transaction
// id are both accepted along it.

func mkHdr(id uint64, prev dig, bl uint64, root dig, tag byte) *store.TxHeader {
	h := &store.TxHeader{ID: id, PrevAlh: prev, Ts: int64(1700000000 + id), Version: 1, NEntries: 1, BlTxID: bl, BlRoot: root}
	for i := range h.Eh {
		h.Eh[i] = tag
	}
	return h
}

type step struct {
	p          *store.DualProof
	src, tgt   uint64
	salh, talh dig
}

func runSession(r *vk.Run, steps []step, bucket string) (allAccepted bool, verdicts []bool) {
	allAccepted = true
	for _, s := range steps {
		_, acc := caseDual(r, s.p, s.src, s.tgt, s.salh, s.talh, bucket)
		verdicts = append(verdicts, acc)
		allAccepted = allAccepted && acc
	}
	return
}

func forgeries(r *vk.Run) error {
	if err := familyA(r); err != nil {
		return err
	}
	if err := familyB(r); err != nil {
		return err
	}
	if err := familyC(r); err != nil {
		return err
	}
	if err := familyD(r); err != nil {
		return err
	}
	return v2SameID(r)
}

// Family A: sourceTxID == target.BlTxID and TargetBlTxAlh != sourceAlh. Closed by /repo commit
// d34d669 (the first step must be REJECTED); replayed on every run, a recurrence is a violation.
func familyA(r *vk.Run) error {
	w, err := newWorld()
	if err != nil {
		return err
	}
	defer w.close()
	h1 := mkHdr(1, dig{}, 0, dig{}, 1)
	a1 := h1.Alh()
	w.appendLeaf(a1)
	root1, _ := w.rootAt(1)
	h2 := mkHdr(2, a1, 1, root1, 2)   // the real transaction 2
	h2f := mkHdr(2, a1, 1, root1, 66) // the forged transaction 2
	a2, x := h2.Alh(), h2f.Alh()
	w.appendLeaf(x) // the tree holds the FORGED leaf 2
	root2, _ := w.rootAt(2)
	h3 := mkHdr(3, a2, 2, root2, 3) // the linear chain holds the REAL transaction 2
	a3 := h3.Alh()
	w.appendLeaf(a3)
	root3, _ := w.rootAt(3)
	h4 := mkHdr(4, a3, 3, root3, 4)
	a4 := h4.Alh()
	w.chain = []*store.TxHeader{h1, h2, h3, h4}
	p1, err := w.dualProof(h2, h3)
	if err != nil {
		return err
	}
	p2, err := w.dualProof(h3, h4)
	if err != nil {
		return err
	}
	p3, err := w.dualProof(h2f, h4)
	if err != nil {
		return err
	}
	ok, vs := runSession(r, []step{{p1, 2, 3, a2, a3}, {p2, 3, 4, a3, a4}, {p3, 2, 4, x, a4}}, "forgery/A")
	if ok && a2 != x {
		r.Finding(fmt.Sprintf("forged session A accepted by store.VerifyDualProof: real tx 2 (state 2 -> 3, where tx 3's tree holds a forged leaf 2 as TargetBlTxAlh) and a forged tx 2 (against state 4) both verify: TargetBlTxAlh is not tied to sourceAlh when sourceTxID == target.BlTxID; verdicts=%v", vs))
	}
	return nil
}

// Family B (residual): source.BlTxID < target.BlTxID < sourceTxID on headers whose linking lags.
func familyB(r *vk.Run) error {
	w, err := newWorld()
	if err != nil {
		return err
	}
	defer w.close()
	h1 := mkHdr(1, dig{}, 0, dig{}, 1)
	a1 := h1.Alh()
	w.appendLeaf(a1)
	root1, _ := w.rootAt(1)
	h2 := mkHdr(2, a1, 1, root1, 2)
	h2f := mkHdr(2, a1, 1, root1, 66)
	a2, x := h2.Alh(), h2f.Alh()
	g3 := mkHdr(3, a2, 1, root1, 3) // real chain, linking lags: BlTxID = 1
	b3 := g3.Alh()
	w.appendLeaf(x)
	root2, _ := w.rootAt(2)
	g4 := mkHdr(4, b3, 2, root2, 4) // tree holds the forged leaf 2
	b4 := g4.Alh()
	w.appendLeaf(b3)
	w.appendLeaf(b4)
	root4, _ := w.rootAt(4)
	g5 := mkHdr(5, b4, 4, root4, 5)
	b5 := g5.Alh()
	w.chain = []*store.TxHeader{h1, h2, g3, g4, g5}
	q1, err := w.dualProof(h2, g3)
	if err != nil {
		return err
	}
	q2, err := w.dualProof(g3, g4)
	if err != nil {
		return err
	}
	q3, err := w.dualProof(g4, g5)
	if err != nil {
		return err
	}
	q4, err := w.dualProof(h2f, g5)
	if err != nil {
		return err
	}
	ok, vs := runSession(r, []step{{q1, 2, 3, a2, b3}, {q2, 3, 4, b3, b4}, {q3, 4, 5, b4, b5}, {q4, 2, 5, x, b5}}, "forgery/B")
	if ok && a2 != x {
		r.Finding(fmt.Sprintf("forged session B (lagging headers) accepted by store.VerifyDualProof: step 3 -> 4 has source.BlTxID=1 < target.BlTxID=2 < sourceTxID=3, the target's leaf 2 is never related to the source's chain; afterwards a forged tx 2 verifies against state 5 although the real tx 2 was the trusted state before; verdicts=%v", vs))
	}
	return nil
}

// Family C (second family of the design phase): relied on position-inexact ahtree.VerifyInclusion
// (fixed in /repo). Tree [a1, a2, X] with X = Alh of a forged header carrying ID 2, stored at
// position 3 and "proven" at position 2 with the shortened proof [H12]. Must be REJECTED now.
func familyC(r *vk.Run) error {
	w, err := newWorld()
	if err != nil {
		return err
	}
	defer w.close()
	h1 := mkHdr(1, dig{}, 0, dig{}, 1)
	a1 := h1.Alh()
	w.appendLeaf(a1)
	root1, _ := w.rootAt(1)
	h2 := mkHdr(2, a1, 1, root1, 2)
	a2 := h2.Alh()
	w.appendLeaf(a2)
	h2f := mkHdr(2, a1, 1, root1, 66) // forged header with ID 2, placed at position 3
	x := h2f.Alh()
	w.appendLeaf(x)
	root3, _ := w.rootAt(3)
	h4 := mkHdr(4, x, 3, root3, 4)
	a4 := h4.Alh()
	w.chain = []*store.TxHeader{h1, h2, h2f, h4}
	// real tx 2 against state 4
	pr, err := w.dualProof(h2, h4)
	if err != nil {
		return err
	}
	_, accReal := caseDual(r, pr, 2, 4, a2, a4, "forgery/C")
	// forged tx 2: the honest inclusion proof of position 3 is [H12]; claim position 2 with it
	pf, err := w.dualProof(h2f, h4)
	if err != nil {
		return err
	}
	ip3, err := w.tree.InclusionProof(3, 3)
	if err != nil {
		return err
	}
	pf.InclusionProof = ip3
	_, accFake := caseDual(r, pf, 2, 4, x, a4, "forgery/C")
	if accReal && accFake {
		r.Finding("forged session C accepted by store.VerifyDualProof: real tx 2 and a forged header with ID 2 stored at tree position 3 (inclusion proof [H12] claimed for position 2) both verify against state 4: ahtree.VerifyInclusion is position-inexact again")
	}
	return nil
}

func nodeOf(a, b dig) dig {
	var x [65]byte
	x[0] = 1
	copy(x[1:], a[:])
	copy(x[33:], b[:])
	return sha256.Sum256(x[:])
}
func leafOf(a dig) dig {
	var x [33]byte
	copy(x[1:], a[:])
	return sha256.Sum256(x[:])
}

// Family D (closed by /repo commit c59ab5b; replayed on every run, a recurrence is a violation):
// OVER-LONG inclusion proofs against a root that is not the root of a genuine tree of the
// claimed size. ahtree.VerifyInclusion demands enough terms to reach the right-most path
// ((i-1)>>len == (j-1)>>len) but accepts any number of further terms, and VerifyLastInclusion checks no
// length at all: a server builds tx 4 {BlTxID 3, BlRoot R} with
//     R = node( node(leaf a1, leaf a2), Y ),   Y = node( node(z, leaf X), leaf a3 )
// (Y sits where the third leaf of a size-3 tree would be, but is itself a subtree holding X = Alh of
// a forged tx 2). Against the state (4, a4): the real tx 2 verifies with the 2-term proof
// [leaf a1, Y], the forged tx 2 with the 3-term proof [z, leaf a3, node(leaf a1, leaf a2)]. Ordinary
// (non-lagging) headers, VerifyDualProof and VerifyDualProofV2 alike.
func familyD(r *vk.Run) error {
	h1 := mkHdr(1, sha256.Sum256(nil), 0, dig{}, 1)
	a1 := h1.Alh()
	root1 := leafOf(a1)
	h2 := mkHdr(2, a1, 1, root1, 2)
	h2f := mkHdr(2, a1, 1, root1, 66)
	a2, x := h2.Alh(), h2f.Alh()
	root2 := nodeOf(leafOf(a1), leafOf(a2))
	h3 := mkHdr(3, a2, 2, root2, 3)
	a3 := h3.Alh()
	var z dig
	z[0] = 0x5a
	y := nodeOf(nodeOf(z, leafOf(x)), leafOf(a3))
	R := nodeOf(root2, y)
	h4 := mkHdr(4, a3, 3, R, 4)
	a4 := h4.Alh()
	lin34 := &store.LinearProof{SourceTxID: 3, TargetTxID: 4, Terms: []dig{a3, innerHashOf(h4)}}
	cons13 := []dig{leafOf(a1), leafOf(a2), y}
	last := []dig{nodeOf(z, leafOf(x)), root2}
	real := &store.DualProof{SourceTxHeader: h2, TargetTxHeader: h4, InclusionProof: []dig{leafOf(a1), y},
		ConsistencyProof: cons13, TargetBlTxAlh: a3, LastInclusionProof: last, LinearProof: lin34}
	fake := &store.DualProof{SourceTxHeader: h2f, TargetTxHeader: h4, InclusionProof: []dig{z, leafOf(a3), root2},
		ConsistencyProof: cons13, TargetBlTxAlh: a3, LastInclusionProof: last, LinearProof: lin34}
	_, accReal := caseDual(r, real, 2, 4, a2, a4, "forgery/D")
	_, accFake := caseDual(r, fake, 2, 4, x, a4, "forgery/D")
	if accReal && accFake && a2 != x {
		r.Finding("forged session D accepted by store.VerifyDualProof: against the state (4, a4) both the real tx 2 (2-term inclusion proof) and a forged tx 2 (over-long 3-term inclusion proof into a subtree standing where leaf 3 should be) verify: ahtree.VerifyInclusion accepts over-long proofs, VerifyLastInclusion checks no length")
	}
	_, accReal2 := caseDual2(r, dualToV2(real), 2, 4, a2, a4, "forgery/D")
	_, accFake2 := caseDual2(r, dualToV2(fake), 2, 4, x, a4, "forgery/D")
	if accReal2 && accFake2 && a2 != x {
		r.Finding("forged session D accepted by store.VerifyDualProofV2: against the state (4, a4) both the real tx 2 (2-term inclusion proof) and a forged tx 2 (over-long 3-term inclusion proof) verify: ahtree.VerifyInclusion accepts over-long proofs against a root that is not a genuine tree of the claimed size")
	}
	return nil
}

// VerifyDualProofV2 with sourceTxID == targetTxID returns nil without relating the two sides.
func v2SameID(r *vk.Run) error {
	h1 := mkHdr(1, dig{}, 0, dig{}, 1)
	a1 := h1.Alh()
	var root1 dig
	{
		w, err := newWorld()
		if err != nil {
			return err
		}
		w.appendLeaf(a1)
		root1, _ = w.rootAt(1)
		w.close()
	}
	h2 := mkHdr(2, a1, 1, root1, 2)
	h2f := mkHdr(2, a1, 1, root1, 66)
	p := &store.DualProofV2{SourceTxHeader: h2f, TargetTxHeader: h2}
	_, acc := caseDual2(r, p, 2, 2, h2f.Alh(), h2.Alh(), "forgery/v2-same-id")
	if acc && h2f.Alh() != h2.Alh() {
		r.Finding("store.VerifyDualProofV2 with sourceTxID == targetTxID (2) accepted two different Alh values (source and target headers are not compared); constructed: forged source header, genuine target")
	}
	return nil
}
