package c01

import (
	"crypto/sha256"
	"fmt"
	"os"

	"github.com/codenotary/immudb/embedded/ahtree"
	"github.com/codenotary/immudb/embedded/store"
	"verif/harness/vk"
)

// world: what a server holds — a linear chain of headers and a binary-linking tree. In an honest
// world the tree payloads are the chain's Alh values; forged worlds (forgery.go) differ there.
type world struct {
	dir    string
	chain  []*store.TxHeader // chain[k-1] = header of transaction k
	tree   *ahtree.AHtree
	leaves []dig
}

func newWorld() (*world, error) {
	dir, err := os.MkdirTemp("", "vh-c01-aht")
	if err != nil {
		return nil, err
	}
	t, err := ahtree.Open(dir, ahtree.DefaultOptions())
	if err != nil {
		os.RemoveAll(dir)
		return nil, err
	}
	return &world{dir: dir, tree: t}, nil
}

func (w *world) close() {
	w.tree.Close()
	os.RemoveAll(w.dir)
}

func (w *world) appendLeaf(a dig) error {
	_, _, err := w.tree.Append(a[:])
	w.leaves = append(w.leaves, a)
	return err
}

func (w *world) rootAt(n uint64) (dig, error) {
	if n == 0 {
		return dig{}, nil
	}
	return w.tree.RootAt(n)
}

func maxU(a, b uint64) uint64 {
	if a > b {
		return a
	}
	return b
}
func minU(a, b uint64) uint64 {
	if a < b {
		return a
	}
	return b
}

// linearProof mirrors ImmuStore.LinearProof over the chain
func (w *world) linearProof(s, t uint64) *store.LinearProof {
	terms := make([]dig, t-s+1)
	terms[0] = w.chain[s-1].Alh()
	for i := uint64(1); i < uint64(len(terms)); i++ {
		terms[i] = innerHashOf(w.chain[s-1+i])
	}
	return &store.LinearProof{SourceTxID: s, TargetTxID: t, Terms: terms}
}

// linearAdvanceProof mirrors ImmuStore.LinearAdvanceProof
func (w *world) linearAdvanceProof(s, t, targetBl uint64) (*store.LinearAdvanceProof, error) {
	if t <= s+1 {
		return nil, nil
	}
	terms := make([]dig, t-s)
	terms[0] = w.chain[s].Alh() // transaction s+1
	incls := make([][]dig, t-s-1)
	for txID := s + 1; txID < t; txID++ {
		ip, err := w.tree.InclusionProof(txID, targetBl)
		if err != nil {
			return nil, err
		}
		incls[txID-s-1] = ip
		terms[txID-s] = innerHashOf(w.chain[txID]) // transaction txID+1
	}
	return &store.LinearAdvanceProof{LinearProofTerms: terms, InclusionProofs: incls}, nil
}

// dualProof mirrors ImmuStore.DualProof for arbitrary (also lagging) headers
func (w *world) dualProof(src, tgt *store.TxHeader) (*store.DualProof, error) {
	p := &store.DualProof{SourceTxHeader: src, TargetTxHeader: tgt}
	var err error
	if src.ID < tgt.BlTxID {
		if p.InclusionProof, err = w.tree.InclusionProof(src.ID, tgt.BlTxID); err != nil {
			return nil, err
		}
	}
	if src.BlTxID > 0 {
		if p.ConsistencyProof, err = w.tree.ConsistencyProof(src.BlTxID, tgt.BlTxID); err != nil {
			return nil, err
		}
	}
	if tgt.BlTxID > 0 {
		p.TargetBlTxAlh = w.leaves[tgt.BlTxID-1]
		if p.LastInclusionProof, err = w.tree.InclusionProof(tgt.BlTxID, tgt.BlTxID); err != nil {
			return nil, err
		}
	}
	p.LinearProof = w.linearProof(maxU(src.ID, tgt.BlTxID), tgt.ID)
	if p.LinearAdvanceProof, err = w.linearAdvanceProof(src.BlTxID, minU(src.ID, tgt.BlTxID), tgt.BlTxID); err != nil {
		return nil, err
	}
	return p, nil
}

func randTxMd(r *vk.Run) *store.TxMetadata {
	switch r.Rng.Intn(5) {
	case 0:
		return nil
	case 1:
		return store.NewTxMetadata()
	}
	md := store.NewTxMetadata()
	if r.Rng.Intn(3) == 0 {
		md.WithTruncatedTxID(uint64(r.Rng.Intn(1000)))
	}
	if r.Rng.Intn(3) > 0 {
		ls := []int{1, 2, 7, 31, 255, 256}
		md.WithExtra(vk.RandBytes(r.Rng, ls[r.Rng.Intn(len(ls))]))
	}
	return md
}

// lagHistory: a synthetic well-formed history with ANY non-decreasing BlTxID_k < k (the store as it
// stands only produces BlTxID_k = k-1), honest proofs assembled as ImmuStore.DualProof assembles
// them, their alterations, the model's history checker on the headers.
func lagHistory(r *vk.Run, n int, withHist bool, pairs int) error {
	w, err := newWorld()
	if err != nil {
		return err
	}
	defer w.close()
	g := &genuine{}
	prev := sha256.Sum256(nil) // Alh of the empty store
	bl := uint64(0)
	maxLag := 1 + r.Rng.Intn(5)
	for k := uint64(1); k <= uint64(n); k++ {
		// non-decreasing b_k < k, lagging by up to maxLag behind k-1
		lo := bl
		if k-1 > uint64(maxLag) && k-1-uint64(maxLag) > lo {
			lo = k - 1 - uint64(maxLag)
		}
		bl = lo + uint64(r.Rng.Intn(int(k-1-lo)+1))
		root, err := w.rootAt(bl)
		if err != nil {
			return err
		}
		h := &store.TxHeader{ID: k, PrevAlh: prev, Ts: int64(1600000000 + r.Rng.Intn(1<<30)), Version: r.Rng.Intn(2),
			NEntries: 1 + r.Rng.Intn(300), BlTxID: bl, BlRoot: root}
		copy(h.Eh[:], vk.RandBytes(r.Rng, 32))
		if h.Version == 1 {
			h.Metadata = randTxMd(r)
			if r.Rng.Intn(8) == 0 {
				h.NEntries = 65536 + r.Rng.Intn(100000)
			}
		}
		checkInner(r, h)
		a := h.Alh()
		w.chain = append(w.chain, h)
		g.hdrs = append(g.hdrs, h)
		g.alhs = append(g.alhs, a)
		if err := w.appendLeaf(a); err != nil {
			return err
		}
		prev = a
	}
	if innerBroken {
		return nil
	}
	if withHist {
		r.Case("CHist "+hdrsTerm(g.hdrs), map[string]any{"kind": "hist", "n": n, "lagging": true, "maxlag": maxLag}, "hist/lagging", true)
	}
	for _, h := range g.hdrs {
		if r.Rng.Intn(4) == 0 {
			caseAlh(r, h, "lagging")
		}
	}
	first := true
	for q := 0; q < pairs; q++ {
		i := uint64(1 + r.Rng.Intn(n))
		j := i + uint64(r.Rng.Intn(n-int(i)+1))
		if r.Rng.Intn(4) == 0 {
			j = uint64(n)
		}
		hs, ht := g.hdrs[i-1], g.hdrs[j-1]
		p, err := w.dualProof(hs, ht)
		if err != nil {
			return fmt.Errorf("lagHistory: assembling proof %d->%d: %w", i, j, err)
		}
		shape := "src>=tgtBl"
		if i < ht.BlTxID {
			shape = "src<tgtBl"
		}
		if p.LinearAdvanceProof != nil {
			shape += "+lap"
		}
		_, acc := caseDual(r, p, i, j, g.alhs[i-1], g.alhs[j-1], "lagging/honest/"+shape)
		if !acc {
			r.Finding(fmt.Sprintf("completeness: store.VerifyDualProof rejected an honest proof %d->%d over a well-formed lagging history (BlTxID src=%d tgt=%d) seed=%d",
				i, j, hs.BlTxID, ht.BlTxID, r.Seed))
		}
		if n <= 16 && q < 4 {
			r.Case(fmt.Sprintf("CDualGen %s %d %d %s", hdrsTerm(g.hdrs), i, j, dualRecord(p)),
				map[string]any{"kind": "dualgen", "i": i, "j": j, "lagging": true}, "gen/dual/lagging", true)
		}
		if p.LinearAdvanceProof != nil {
			e := minU(i, ht.BlTxID)
			ealh := g.alhs[e-1]
			caseLap(r, p.LinearAdvanceProof, hs.BlTxID, e, ealh, ht.BlRoot, ht.BlTxID, "honest")
			bad := cloneLap(p.LinearAdvanceProof)
			flip(&bad.LinearProofTerms[r.Rng.Intn(len(bad.LinearProofTerms))], r)
			caseLap(r, bad, hs.BlTxID, e, ealh, ht.BlRoot, ht.BlTxID, "mut")
			caseLap(r, p.LinearAdvanceProof, hs.BlTxID, e+1, ealh, ht.BlRoot, ht.BlTxID, "mut")
			caseLap(r, nil, hs.BlTxID, e, ealh, ht.BlRoot, ht.BlTxID, "mut")
		}
		if err := mutateDual(r, g, p, i, j, g.alhs[i-1], g.alhs[j-1], first, 36, 8, "lagging"); err != nil {
			return err
		}
		first = false
	}
	return nil
}
