package c14

import (
	"context"
	"errors"
	"fmt"
	"os"
	"path/filepath"
	"strings"
	"time"

	"github.com/codenotary/immudb/embedded/sql"
	"github.com/codenotary/immudb/embedded/store"
	"github.com/codenotary/immudb/pkg/api/protomodel"
	"github.com/codenotary/immudb/pkg/api/schema"
	"github.com/codenotary/immudb/pkg/database"
	"google.golang.org/protobuf/types/known/structpb"
	"verif/harness/vk"
)

// databaseChecks: pkg/database truncation (catalog copy + TruncateUptoTx) followed by a restart,
// with catalog objects of every kind the catalog copy has to carry (tables with CHECK constraints
// named and unnamed, NOT NULL, AUTO_INCREMENT, composite primary key, an added column, several
// secondary and UNIQUE indexes, a view, a sequence, a collection with indexed fields), a file
// size small enough that the values written by the DDL transactions sit in chunks the truncation
// deletes (verified: every DDL transaction must have become unreadable, otherwise the round is
// repeated with more filler), two truncate+restart cycles (the second one has to carry the copy
// made by the first).  Direct property checks only (no model case): after truncation and after
// each restart every table/view/collection answers, a satisfying INSERT is accepted and a
// violating one is refused for the right reason, documents are inserted and found.
func databaseChecks(r *vk.Run) error {
	rounds := 2
	if os.Getenv("VERIF_TIER") == "thorough" {
		rounds = 6
	}
	for k := 0; k < rounds; k++ {
		maxio := 1 + (k+int(r.Seed))%3
		fsz := []int{256, 384, 512}[r.Rng.Intn(3)]
		if v := os.Getenv("C14_DB_FSZ"); v != "" {
			fmt.Sscanf(v, "%d", &fsz) // for replaying a reported round
		}
		conclusive := false
		for attempt := 0; attempt < 3 && !conclusive; attempt++ {
			var err error
			// the re-insert check costs 10 s while the defect it shows is open: once per quick run
			conclusive, err = databaseRound(r, maxio, fsz, 4+4*attempt, k == 0 || os.Getenv("VERIF_TIER") == "thorough")
			if err != nil {
				r.Finding(fmt.Sprintf("pkg/database scenario (maxio=%d fileSize=%d) could not be completed: %v", maxio, fsz, err))
				conclusive = true
			}
		}
		if !conclusive {
			return fmt.Errorf("pkg/database round: the DDL values were never deleted by the truncation (maxio=%d fileSize=%d): the round proves nothing", maxio, fsz)
		}
	}
	return nil
}

func dbOptions(dir string, maxio, fsz int) *database.Options {
	so := smallOpts().WithMaxTxEntries(64).WithMaxKeyLen(1024).WithMaxIOConcurrency(maxio).WithFileSize(fsz).WithVLogCacheSize(0)
	return database.DefaultOptions().WithDBRootPath(dir).WithStoreOptions(so)
}

type dbWorld struct {
	r    *vk.Run
	ctx  context.Context
	db   database.DB
	desc string
	fsz  int

	rows1, rows2, rows3, docs int // rows written (all after the first cut)
	fives                     int // rows of table1 with amount = 5
	kvs                       []dbKV
	cut                       uint64
	seqLast                   int64
	base                      int // primary keys and unique values of this cycle start here (never reused)
	extraTable                bool
	dead                      bool // the time budget of the round is used up: no further checks
	hasView, hasSeq           bool // objects that survive a plain restart (baseline, before any truncation)
}

type dbKV struct {
	id  uint64
	key []byte
	val []byte
}

func (w *dbWorld) exec(stmt string) error {
	_, _, err := w.db.SQLExec(w.ctx, nil, &schema.SQLExecRequest{Sql: stmt})
	return err
}

func (w *dbWorld) query(stmt string) ([]*sql.Row, error) {
	return w.db.SQLQueryAll(w.ctx, nil, &schema.SQLQueryRequest{Sql: stmt})
}

func rowInt(row *sql.Row) int64 {
	if len(row.ValuesByPosition) == 0 {
		return 0
	}
	v, _ := row.ValuesByPosition[0].RawValue().(int64)
	return v
}

func (w *dbWorld) txID() uint64 {
	st, err := w.db.CurrentState()
	if err != nil {
		return 0
	}
	return st.TxId
}

func (w *dbWorld) bad(phase, format string, a ...any) {
	if w.dead {
		return
	}
	if w.ctx.Err() != nil {
		// one report, not one per remaining check
		w.dead = true
		w.r.Finding(fmt.Sprintf("%s: %s: the database stopped answering (a call waited until the 120 s budget of the round was used up); first failing check: %s", w.desc, phase, fmt.Sprintf(format, a...)))
		return
	}
	w.r.Finding(fmt.Sprintf("%s: %s: %s", w.desc, phase, fmt.Sprintf(format, a...)))
}

// refused: the statement must fail, and for the stated reason
func (w *dbWorld) refused(phase, what, stmt string, reasons ...error) {
	if w.dead {
		return
	}
	err := w.exec(stmt)
	if err == nil {
		w.bad(phase, "%s accepted (constraint lost): %s", what, stmt)
		return
	}
	for _, reason := range reasons {
		if errors.Is(err, reason) {
			return
		}
	}
	w.bad(phase, "%s refused for the wrong reason (%v): %s", what, err, stmt)
}

func (w *dbWorld) set(i int) error {
	v := vk.RandBytes(w.r.Rng, w.fsz+17)
	key := []byte(fmt.Sprintf("key_%d", i))
	hdr, err := w.db.Set(w.ctx, &schema.SetRequest{KVs: []*schema.KeyValue{{Key: key, Value: v}}})
	if err != nil {
		return err
	}
	w.kvs = append(w.kvs, dbKV{hdr.Id, key, v})
	return nil
}

func (w *dbWorld) insertDoc(phase string) {
	if w.dead {
		return
	}
	w.docs++
	_, err := w.db.InsertDocuments(w.ctx, "admin", &protomodel.InsertDocumentsRequest{CollectionName: "coll1",
		Documents: []*structpb.Struct{{Fields: map[string]*structpb.Value{
			"number":  structpb.NewNumberValue(float64(w.base + w.docs)),
			"country": structpb.NewStringValue(fmt.Sprintf("c%d", w.base+w.docs)),
		}}}})
	if err != nil {
		w.bad(phase, "InsertDocuments(coll1) fails: %v", err)
		w.docs--
	}
}

// writes: one satisfying INSERT per table (accepted) and one violating INSERT per constraint
// (refused for the right reason), a document, a sequence value
func (w *dbWorld) writes(phase string) {
	if w.dead {
		return
	}
	n := w.base + w.rows1 + 1
	if err := w.exec(fmt.Sprintf("INSERT INTO table1(name, amount, active) VALUES('n%d', 5, true)", n)); err != nil {
		w.bad(phase, "satisfying INSERT INTO table1 refused: %v", err)
	} else {
		w.rows1++
		w.fives++
	}
	if err := w.exec(fmt.Sprintf("INSERT INTO table1(name, amount, active, surname) VALUES('m%d', 7, false, 's')", n)); err != nil {
		w.bad(phase, "satisfying INSERT INTO table1 (added column) refused: %v", err)
	} else {
		w.rows1++
	}
	w.refused(phase, "CHECK (amount >= 0) violation", fmt.Sprintf("INSERT INTO table1(name, amount, active) VALUES('x%d', -1, true)", n), sql.ErrCheckConstraintViolation)
	w.refused(phase, "NOT NULL (name) violation", "INSERT INTO table1(amount, active) VALUES(1, true)", sql.ErrNotNullableColumnCannotBeNull)
	if w.rows1 > 0 {
		w.refused(phase, "UNIQUE INDEX (name) violation", fmt.Sprintf("INSERT INTO table1(name, amount, active) VALUES('n%d', 3, true)", w.base+1), store.ErrKeyAlreadyExists)
	}

	k := w.base + w.rows2 + 1
	if err := w.exec(fmt.Sprintf("INSERT INTO table2(id, code, qty) VALUES(%d, 'c%d', 5)", k, k)); err != nil {
		w.bad(phase, "satisfying INSERT INTO table2 refused: %v", err)
	} else {
		w.rows2++
	}
	w.refused(phase, "CONSTRAINT qty_range violation (qty = 0)", fmt.Sprintf("INSERT INTO table2(id, code, qty) VALUES(%d, 'z%d', 0)", 1000+k, k), sql.ErrCheckConstraintViolation)
	w.refused(phase, "CONSTRAINT qty_range violation (qty = 1000)", fmt.Sprintf("INSERT INTO table2(id, code, qty) VALUES(%d, 'y%d', 1000)", 2000+k, k), sql.ErrCheckConstraintViolation)
	w.refused(phase, "NOT NULL (code) violation", fmt.Sprintf("INSERT INTO table2(id, qty) VALUES(%d, 5)", 3000+k), sql.ErrNotNullableColumnCannotBeNull)
	if w.rows2 > 0 {
		w.refused(phase, "PRIMARY KEY violation", fmt.Sprintf("INSERT INTO table2(id, code, qty) VALUES(%d, 'other', 5)", w.base+1), store.ErrKeyAlreadyExists)
		w.refused(phase, "UNIQUE INDEX (code) violation", fmt.Sprintf("INSERT INTO table2(id, code, qty) VALUES(%d, 'c%d', 5)", 4000+k, w.base+1), store.ErrKeyAlreadyExists)
	}

	j := w.base + w.rows3 + 1
	if err := w.exec(fmt.Sprintf("INSERT INTO table3(a, b, c) VALUES(%d, 'b', %d)", j, j)); err != nil {
		w.bad(phase, "satisfying INSERT INTO table3 refused: %v", err)
	} else {
		w.rows3++
	}
	if w.rows3 > 0 {
		w.refused(phase, "composite PRIMARY KEY violation", fmt.Sprintf("INSERT INTO table3(a, b, c) VALUES(%d, 'b', 9)", w.base+1), store.ErrKeyAlreadyExists)
	}
	w.insertDoc(phase)

	if !w.hasSeq {
		return
	}
	if res, err := w.query("SELECT NEXTVAL('seq1')"); err != nil && strings.Contains(err.Error(), "sequence does not exist") {
		w.bad(phase, "sequence seq1, which survives a plain restart, is lost after truncation and restart (the catalog copy does not carry the CTL.SEQUENCE entries): %v", err)
		w.hasSeq = false
	} else if err != nil || len(res) != 1 {
		w.bad(phase, "SELECT NEXTVAL('seq1') fails: %v", err)
	} else {
		v := rowInt(res[0])
		if v <= w.seqLast {
			w.bad(phase, "sequence seq1 went back: %d after %d", v, w.seqLast)
		}
		w.seqLast = v
	}
}

// wedge (last, because it can leave the database unusable): a row deleted BEFORE the cut is
// inserted again AFTER truncation.  The statement is accepted; every secondary index of the table
// must then still answer within 10 s.
func (w *dbWorld) wedge() {
	if w.dead {
		return
	}
	ctx, cancel := context.WithTimeout(w.ctx, 10*time.Second)
	defer cancel()
	stmt := "INSERT INTO table2(id, code, qty) VALUES(1, 'again', 5)"
	if _, _, err := w.db.SQLExec(ctx, nil, &schema.SQLExecRequest{Sql: stmt}); err != nil {
		if ctx.Err() == nil {
			return // refused cleanly: fine
		}
		w.bad("re-insert", "%s does not return within 10s: %v", stmt, err)
		return
	}
	q := "SELECT id FROM table2 USE INDEX ON (code) WHERE code = 'again'"
	res, err := w.db.SQLQueryAll(ctx, nil, &schema.SQLQueryRequest{Sql: q})
	if err != nil && ctx.Err() != nil {
		w.bad("re-insert", "after re-inserting a primary key that was deleted before the cut (%s, accepted) the secondary index of table2 never catches up: %s does not return within 10s (indexer fails with EOF reading the truncated previous entry)", stmt, q)
		w.dead = true
		return
	}
	if err != nil || len(res) != 1 {
		w.bad("re-insert", "%s gives %d rows (err %v), expected 1", q, len(res), err)
	}
}

func (w *dbWorld) count(phase, stmt string, want int) {
	if w.dead {
		return
	}
	res, err := w.query(stmt)
	if err != nil {
		w.bad(phase, "%s fails: %v", stmt, err)
		return
	}
	if len(res) != want {
		w.bad(phase, "%s gives %d rows, expected %d", stmt, len(res), want)
	}
}

// reads: every table, index, view and the collection answer with what was written
func (w *dbWorld) reads(phase string) {
	if w.dead {
		return
	}
	w.count(phase, "SELECT * FROM table1", w.rows1)
	w.count(phase, "SELECT id, name FROM table1 USE INDEX ON (amount) WHERE amount = 5", w.fives)
	w.count(phase, "SELECT id FROM table1 USE INDEX ON (amount, active) WHERE amount = 5 AND active = true", w.fives)
	w.count(phase, fmt.Sprintf("SELECT id FROM table1 USE INDEX ON (name) WHERE name = 'n%d'", w.base+1), minInt(w.rows1, 1))
	w.count(phase, "SELECT * FROM table2", w.rows2)
	w.count(phase, fmt.Sprintf("SELECT id FROM table2 USE INDEX ON (code) WHERE code = 'c%d'", w.base+1), minInt(w.rows2, 1))
	w.count(phase, "SELECT * FROM table3", w.rows3)
	if w.hasView {
		w.count(phase, "SELECT * FROM view1", w.fives)
	}
	if w.extraTable {
		w.count(phase, "SELECT * FROM table9", 0)
	}
	// AUTO_INCREMENT: ids are distinct and positive
	if res, err := w.query("SELECT id FROM table1"); err == nil {
		seen := map[int64]bool{}
		for _, row := range res {
			id := rowInt(row)
			if id <= 0 || seen[id] {
				w.bad(phase, "AUTO_INCREMENT id %d of table1 is not positive/unique", id)
			}
			seen[id] = true
		}
	}
	cr, err := w.db.CountDocuments(w.ctx, &protomodel.CountDocumentsRequest{Query: &protomodel.Query{CollectionName: "coll1"}})
	if err != nil || int(cr.GetCount()) != w.docs {
		w.bad(phase, "CountDocuments(coll1) = %v (err %v), expected %d", cr.GetCount(), err, w.docs)
	}
	if w.docs > 0 {
		rd, err := w.db.SearchDocuments(w.ctx, &protomodel.Query{CollectionName: "coll1",
			Expressions: []*protomodel.QueryExpression{{FieldComparisons: []*protomodel.FieldComparison{
				{Field: "number", Operator: protomodel.ComparisonOperator_EQ, Value: structpb.NewNumberValue(float64(w.base + 1))}}}}}, 0)
		if err != nil {
			w.bad(phase, "SearchDocuments(coll1, number = 1) fails: %v", err)
		} else {
			rev, err := rd.Read(w.ctx)
			if err != nil || rev.GetDocument().GetFields()["country"].GetStringValue() != fmt.Sprintf("c%d", w.base+1) {
				w.bad(phase, "SearchDocuments(coll1, number = 1) does not find the document (err %v)", err)
			}
			rd.Close()
		}
	}
	for _, kv := range w.kvs {
		if kv.id < w.cut {
			continue
		}
		e, err := w.db.Get(w.ctx, &schema.KeyRequest{Key: kv.key})
		if err != nil || string(e.Value) != string(kv.val) {
			w.bad(phase, "Get(%s) written by tx %d >= cut %d fails or differs (err %v)", kv.key, kv.id, w.cut, err)
		}
	}
	first := w.cut
	if first == 0 {
		first = 1
	}
	for id := first; id <= w.txID(); id++ {
		if _, err := w.readTx(id); err != nil {
			w.bad(phase, "TxByID(%d) with values fails although %d >= cut %d: %v", id, id, w.cut, err)
		}
	}
}

// readTx: the transaction with the raw values of its entries.  A failure that goes away within
// half a second (seen once under heavy load right after a start: "key not found") is not held
// against the truncation; only a persistent one is reported.
func (w *dbWorld) readTx(id uint64) (tx *schema.Tx, err error) {
	for attempt := 0; attempt < 5; attempt++ {
		tx, err = w.db.TxByID(w.ctx, &schema.TxRequest{Tx: id, KeepReferencesUnresolved: true, EntriesSpec: &schema.EntriesSpec{
			KvEntriesSpec:  &schema.EntryTypeSpec{Action: schema.EntryTypeAction_RAW_VALUE},
			SqlEntriesSpec: &schema.EntryTypeSpec{Action: schema.EntryTypeAction_RAW_VALUE},
			ZEntriesSpec:   &schema.EntryTypeSpec{Action: schema.EntryTypeAction_RAW_VALUE}}})
		if err == nil || w.ctx.Err() != nil {
			return
		}
		time.Sleep(100 * time.Millisecond)
	}
	return
}

// chunkRange lists, per value log, the lowest and the highest chunk file index (-1: no file)
func chunkRange(dir string, maxio int) (lo, hi []int) {
	for i := 0; i < maxio; i++ {
		l, h := -1, -1
		ents, _ := os.ReadDir(filepath.Join(dir, "db1", fmt.Sprintf("val_%d", i)))
		for _, e := range ents {
			var k int
			if _, err := fmt.Sscanf(e.Name(), "%08d.val", &k); err == nil {
				if l < 0 || k < l {
					l = k
				}
				if k > h {
					h = k
				}
			}
		}
		lo, hi = append(lo, l), append(hi, h)
	}
	return
}

func minInt(a, b int) int {
	if a < b {
		return a
	}
	return b
}

// databaseRound returns conclusive = false when the truncation left a DDL transaction readable
// (the catalog copy was then not needed and the round shows nothing)
func databaseRound(r *vk.Run, maxio, fsz, fillPerLog int, withWedge bool) (conclusive bool, err error) {
	dir, err := os.MkdirTemp("", "vh-c14-db")
	if err != nil {
		return true, err
	}
	defer os.RemoveAll(dir)
	// every call is bounded: a database whose indexer cannot read a value it needs waits forever
	ctx, cancel := context.WithTimeout(context.Background(), 120*time.Second)
	defer cancel()
	w := &dbWorld{r: r, ctx: ctx, fsz: fsz, desc: fmt.Sprintf("pkg/database maxio=%d fileSize=%d", maxio, fsz)}
	defer func() {
		if rec := recover(); rec != nil {
			r.Finding(fmt.Sprintf("%s: panic during the truncation scenario: %v", w.desc, rec))
			conclusive, err = true, nil
		}
	}()
	w.db, err = database.NewDB("db1", nil, dbOptions(dir, maxio, fsz), quiet)
	if err != nil {
		return true, fmt.Errorf("NewDB: %v", err)
	}
	closed := false
	defer func() {
		if !closed {
			w.db.Close()
		}
	}()

	findings0 := len(r.Findings)
	// ---- catalog objects of every kind, all created BEFORE the cut
	var ddlTxs []uint64 // recorded for the replay text only
	ddl := []string{
		"CREATE TABLE table1 (id INTEGER AUTO_INCREMENT, name VARCHAR[50] NOT NULL, amount INTEGER, active BOOLEAN, CHECK (amount >= 0), PRIMARY KEY id)",
		"CREATE UNIQUE INDEX ON table1 (name)",
		"CREATE INDEX ON table1 (amount)",
		"CREATE INDEX ON table1 (amount, active)",
		"CREATE TABLE table2 (id INTEGER, code VARCHAR[10] NOT NULL, qty INTEGER NOT NULL, CONSTRAINT qty_range CHECK (qty > 0 AND qty < 1000), PRIMARY KEY id)",
		"CREATE UNIQUE INDEX ON table2 (code)",
		"CREATE TABLE table3 (a INTEGER, b VARCHAR[8], c INTEGER, PRIMARY KEY (a, b))",
		"ALTER TABLE table1 ADD COLUMN surname VARCHAR[30]",
		"CREATE VIEW view1 AS SELECT id, name FROM table1 WHERE amount = 5",
		"CREATE SEQUENCE seq1",
	}
	for _, stmt := range ddl {
		if err := w.exec(stmt); err != nil {
			return true, fmt.Errorf("%s: %v", stmt, err)
		}
		ddlTxs = append(ddlTxs, w.txID())
	}
	if _, err := w.db.CreateCollection(ctx, "admin", &protomodel.CreateCollectionRequest{Name: "coll1",
		Fields:  []*protomodel.Field{{Name: "number", Type: protomodel.FieldType_INTEGER}, {Name: "country", Type: protomodel.FieldType_STRING}},
		Indexes: []*protomodel.Index{{Fields: []string{"number"}}, {Fields: []string{"country"}, IsUnique: true}}}); err != nil {
		return true, fmt.Errorf("create collection: %v", err)
	}
	ddlTxs = append(ddlTxs, w.txID())

	// ---- baseline: what a plain restart (no truncation yet) keeps.  Truncation + restart must not
	// lose anything a restart alone keeps; objects a restart alone loses are not asked for later.
	restart := func(phase string) bool {
		if err := w.db.Close(); err != nil {
			w.bad(phase, "database does not close: %v", err)
			closed = true
			w.dead = true
			return false
		}
		closed = true
		w.db, err = database.OpenDB("db1", nil, dbOptions(dir, maxio, fsz), quiet)
		if err != nil {
			w.bad(phase, "database does not open: %v", err)
			w.dead = true
			return false
		}
		closed = false
		w.seqLast = 0 // NEXTVAL is only asked to increase within one session
		// TxByID/Get resolve entries through the index, which catches up in the background after
		// a start (SQL statements wait for it by themselves)
		if err := w.db.WaitForIndexingUpto(ctx, w.txID()); err != nil {
			w.bad(phase, "indexing does not reach tx %d after the restart: %v", w.txID(), err)
			return false
		}
		return true
	}
	if !restart("baseline restart") {
		return true, nil
	}
	if _, err := w.query("SELECT * FROM view1"); err == nil {
		w.hasView = true
	}
	if res, err := w.query("SELECT NEXTVAL('seq1')"); err == nil && len(res) == 1 {
		w.hasSeq = true
		w.seqLast = rowInt(res[0])
	}
	w.reads("baseline restart")
	if w.dead || len(w.r.Findings) > findings0 {
		// the baseline itself fails: nothing to learn about truncation from this round
		return true, nil
	}
	_, ddlChunks := chunkRange(dir, maxio)

	// ---- one truncate + restart cycle; the filler moves every value log several chunks ahead
	nkv := 0
	cycle := func(name string) (bool, error) {
		for i := 0; i < fillPerLog*maxio; i++ {
			if err := w.set(nkv); err != nil {
				return true, fmt.Errorf("set: %v", err)
			}
			nkv++
		}
		w.cut = w.kvs[len(w.kvs)-1].id
		w.desc = fmt.Sprintf("pkg/database maxio=%d fileSize=%d cut=%d (%s)", maxio, fsz, w.cut, name)
		// everything below is written at or after the cut
		w.writes("before truncation")
		w.reads("before truncation")
		before := w.txID()
		// the truncator runs on data older than the retention period: the indexers have caught up
		if err := w.db.WaitForIndexingUpto(ctx, before); err != nil {
			w.bad("before truncation", "indexing does not reach tx %d: %v", before, err)
			return true, nil
		}
		tr := database.NewVlogTruncator(w.db, quiet)
		if err := tr.TruncateUptoTx(ctx, w.cut); err != nil {
			w.bad("truncation", "VlogTruncator.TruncateUptoTx failed: %v", err)
			return true, nil
		}
		if after := w.txID(); after != before+1 {
			w.bad("truncation", "truncation committed %d transactions (expected the catalog copy only)", after-before)
		}
		// the round means something only if the chunks that held the DDL values are gone: in every
		// value log the lowest chunk file left is above the highest one that existed when the last
		// DDL statement (or the previous catalog copy) had been written
		lo, _ := chunkRange(dir, maxio)
		for i := range lo {
			if ddlChunks[i] >= 0 && lo[i] <= ddlChunks[i] {
				if os.Getenv("C14_DEBUG") != "" {
					fmt.Fprintf(os.Stderr, "value log %d: lowest chunk %d, DDL chunks up to %d; cut %d\n", i, lo[i], ddlChunks[i], w.cut)
				}
				return false, nil
			}
		}
		_, ddlChunks = chunkRange(dir, maxio) // the copy just written has to be carried by the next cycle
		w.reads("after truncation")
		if err := tr.TruncateUptoTx(ctx, w.cut); err != nil {
			w.bad("truncation", "second VlogTruncator.TruncateUptoTx failed: %v", err)
		}
		w.writes("after truncation")
		w.reads("after truncation and new writes")
		if !restart("restart after truncation") {
			return true, nil
		}
		w.reads("after restart")
		w.writes("after restart")
		w.reads("after restart and new writes")
		return true, nil
	}
	if ok, err := cycle("first cycle"); !ok || err != nil {
		return ok, err
	}
	if w.dead {
		return true, nil
	}
	// DDL on the restarted database, then a second cycle that must carry the copied catalog
	if err := w.exec("CREATE TABLE table9 (id INTEGER, PRIMARY KEY id)"); err != nil {
		w.bad("after restart", "CREATE TABLE after truncation and restart fails: %v", err)
	} else {
		w.extraTable = true
	}
	if err := w.exec("CREATE INDEX ON table3 (c)"); err != nil && !strings.Contains(err.Error(), "already exists") {
		w.bad("after restart", "CREATE INDEX after truncation and restart fails: %v", err)
	}
	// rows written during the first cycle are below the second cut: their values may go, so the
	// tables are emptied of them first (a DELETE reads keys only)
	_, ddlChunks = chunkRange(dir, maxio)
	for _, t := range []string{"table1", "table2", "table3"} {
		if err := w.exec("DELETE FROM " + t); err != nil {
			w.bad("after restart", "DELETE FROM %s fails: %v", t, err)
		}
	}
	if _, err := w.db.DeleteDocuments(ctx, "admin", &protomodel.DeleteDocumentsRequest{Query: &protomodel.Query{CollectionName: "coll1", Limit: 1000}}); err != nil {
		w.bad("after restart", "DeleteDocuments(coll1) fails: %v", err)
	}
	w.rows1, w.rows2, w.rows3, w.fives, w.docs = 0, 0, 0, 0, 0
	w.base = 100 // primary keys deleted before the second cut are not reused here (see wedge below)
	if ok, err := cycle("second cycle"); !ok || err != nil {
		return ok, err
	}
	if withWedge {
		w.wedge()
	}
	return true, nil
}
