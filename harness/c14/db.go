package c14

import "verif/harness/vk"

func databaseChecks(r *vk.Run) error { return nil }
