package c14

import (
	"context"
	"fmt"
	"os"
	"time"

	"github.com/codenotary/immudb/embedded/store"
	"github.com/codenotary/immudb/pkg/api/protomodel"
	"github.com/codenotary/immudb/pkg/api/schema"
	"github.com/codenotary/immudb/pkg/database"
	"google.golang.org/protobuf/types/known/structpb"
	"verif/harness/vk"
)

// databaseChecks: pkg/database truncation (catalog copy + TruncateUptoTx) followed by a restart.
// Direct property checks only (no model case): the SQL catalog and a document collection created
// BEFORE the cut still load and accept writes; rows/documents/values written at or after the cut
// read back; transactions at or after the cut read in full.
func databaseChecks(r *vk.Run) error {
	rounds := 2
	if os.Getenv("VERIF_TIER") == "thorough" {
		rounds = 8
	}
	for k := 0; k < rounds; k++ {
		if err := databaseRound(r, 1+r.Rng.Intn(3), 512+r.Rng.Intn(3)*256); err != nil {
			r.Finding(fmt.Sprintf("pkg/database scenario could not be completed: %v", err))
		}
	}
	return nil
}

func dbOptions(dir string, maxio, fsz int) *database.Options {
	so := smallOpts().WithMaxTxEntries(64).WithMaxKeyLen(256).WithMaxIOConcurrency(maxio).WithFileSize(fsz).WithVLogCacheSize(0)
	return database.DefaultOptions().WithDBRootPath(dir).WithStoreOptions(so)
}

func databaseRound(r *vk.Run, maxio, fsz int) (err error) {
	dir, err := os.MkdirTemp("", "vh-c14-db")
	if err != nil {
		return err
	}
	defer os.RemoveAll(dir)
	desc := fmt.Sprintf("pkg/database maxio=%d fileSize=%d", maxio, fsz)
	defer func() {
		if rec := recover(); rec != nil {
			r.Finding(fmt.Sprintf("%s: panic during truncation scenario: %v", desc, rec))
			err = nil
		}
	}()
	// every call is bounded: a database whose indexer cannot read a value it needs waits forever
	ctx, cancel := context.WithTimeout(context.Background(), 90*time.Second)
	defer cancel()
	db, err := database.NewDB("db1", nil, dbOptions(dir, maxio, fsz), quiet)
	if err != nil {
		return fmt.Errorf("NewDB: %v", err)
	}
	closed := false
	defer func() {
		if !closed {
			db.Close()
		}
	}()
	exec := func(stmt string) error {
		_, _, err := db.SQLExec(ctx, nil, &schema.SQLExecRequest{Sql: stmt})
		return err
	}
	count := func(stmt string) (int, error) {
		res, err := db.SQLQueryAll(ctx, nil, &schema.SQLQueryRequest{Sql: stmt})
		if err != nil {
			return 0, err
		}
		return len(res), nil
	}
	// catalog and collection created BEFORE the cut
	if err := exec("CREATE TABLE table1 (id INTEGER AUTO_INCREMENT, name VARCHAR[50], amount INTEGER, PRIMARY KEY id)"); err != nil {
		return fmt.Errorf("create table: %v", err)
	}
	if err := exec("CREATE UNIQUE INDEX ON table1 (name)"); err != nil {
		return fmt.Errorf("create index: %v", err)
	}
	if _, err := db.CreateCollection(ctx, "admin", &protomodel.CreateCollectionRequest{Name: "coll1",
		Fields: []*protomodel.Field{{Name: "number", Type: protomodel.FieldType_INTEGER}, {Name: "country", Type: protomodel.FieldType_STRING}}}); err != nil {
		return fmt.Errorf("create collection: %v", err)
	}
	// key-value transactions with values around the file size (chunks rotate)
	type kvw struct {
		id  uint64
		key []byte
		val []byte
	}
	var kvs []kvw
	set := func(i int) error {
		n := r.Rng.Intn(fsz + fsz/2)
		v := vk.RandBytes(r.Rng, n)
		key := []byte(fmt.Sprintf("key_%d", i))
		hdr, err := db.Set(ctx, &schema.SetRequest{KVs: []*schema.KeyValue{{Key: key, Value: v}}})
		if err != nil {
			return err
		}
		kvs = append(kvs, kvw{hdr.Id, key, v})
		return nil
	}
	nBefore := 4 + r.Rng.Intn(5)
	for i := 0; i < nBefore; i++ {
		if err := set(i); err != nil {
			return fmt.Errorf("set: %v", err)
		}
	}
	cut := kvs[r.Rng.Intn(len(kvs))].id
	desc += fmt.Sprintf(" cut=%d", cut)
	rows, docs := 0, 0
	insertRow := func() error {
		rows++
		return exec(fmt.Sprintf("INSERT INTO table1(name, amount) VALUES('n%d', %d)", rows, rows))
	}
	insertDoc := func() error {
		docs++
		_, err := db.InsertDocuments(ctx, "admin", &protomodel.InsertDocumentsRequest{CollectionName: "coll1",
			Documents: []*structpb.Struct{{Fields: map[string]*structpb.Value{
				"number":  {Kind: &structpb.Value_NumberValue{NumberValue: float64(docs)}},
				"country": {Kind: &structpb.Value_StringValue{StringValue: fmt.Sprintf("c%d", docs)}},
			}}}})
		return err
	}
	// everything below is written after the cut transaction
	if err := exec("ALTER TABLE table1 ADD COLUMN surname VARCHAR"); err != nil {
		return fmt.Errorf("alter table: %v", err)
	}
	for i := 0; i < 3; i++ {
		if err := insertRow(); err != nil {
			return fmt.Errorf("insert: %v", err)
		}
		if err := insertDoc(); err != nil {
			return fmt.Errorf("insert document: %v", err)
		}
		if err := set(nBefore + i); err != nil {
			return fmt.Errorf("set: %v", err)
		}
	}
	check := func(phase string) {
		if n, err := count("SELECT * FROM table1"); err != nil || n != rows {
			r.Finding(fmt.Sprintf("%s: %s: SELECT * FROM table1 gives %d rows (err %v), expected %d", desc, phase, n, err, rows))
		}
		cr, err := db.CountDocuments(ctx, &protomodel.CountDocumentsRequest{Query: &protomodel.Query{CollectionName: "coll1"}})
		if err != nil || int(cr.GetCount()) != docs {
			r.Finding(fmt.Sprintf("%s: %s: CountDocuments(coll1) = %v (err %v), expected %d", desc, phase, cr.GetCount(), err, docs))
		}
		for _, kv := range kvs {
			if kv.id < cut {
				continue
			}
			e, err := db.Get(ctx, &schema.KeyRequest{Key: kv.key})
			if err != nil || string(e.Value) != string(kv.val) {
				r.Finding(fmt.Sprintf("%s: %s: Get(%s) written by tx %d >= cut fails or differs (err %v)", desc, phase, kv.key, kv.id, err))
			}
		}
		st, err := db.CurrentState()
		if err != nil {
			r.Finding(fmt.Sprintf("%s: %s: CurrentState: %v", desc, phase, err))
			return
		}
		for id := cut; id <= st.TxId; id++ {
			if _, err := db.TxByID(ctx, &schema.TxRequest{Tx: id, EntriesSpec: &schema.EntriesSpec{
				KvEntriesSpec:  &schema.EntryTypeSpec{Action: schema.EntryTypeAction_RAW_VALUE},
				SqlEntriesSpec: &schema.EntryTypeSpec{Action: schema.EntryTypeAction_RAW_VALUE},
				ZEntriesSpec:   &schema.EntryTypeSpec{Action: schema.EntryTypeAction_RAW_VALUE}}}); err != nil {
				r.Finding(fmt.Sprintf("%s: %s: TxByID(%d) with values fails although %d >= cut: %v", desc, phase, id, id, err))
			}
		}
	}
	check("before truncation")
	before, _ := db.CurrentState()
	tr := database.NewVlogTruncator(db, quiet)
	if err := tr.TruncateUptoTx(ctx, cut); err != nil {
		r.Finding(fmt.Sprintf("%s: VlogTruncator.TruncateUptoTx failed: %v", desc, err))
		return nil
	}
	after, _ := db.CurrentState()
	if before != nil && after != nil && after.TxId != before.TxId+1 {
		r.Finding(fmt.Sprintf("%s: truncation committed %d transactions (expected the catalog copy only)", desc, after.TxId-before.TxId))
	}
	check("after truncation")
	// the same truncation again, and an older cut: harmless
	if err := tr.TruncateUptoTx(ctx, cut); err != nil {
		r.Finding(fmt.Sprintf("%s: second VlogTruncator.TruncateUptoTx failed: %v", desc, err))
	}
	check("after second truncation")
	if err := insertRow(); err != nil {
		r.Finding(fmt.Sprintf("%s: INSERT after truncation fails: %v", desc, err))
		rows--
	}
	if err := insertDoc(); err != nil {
		r.Finding(fmt.Sprintf("%s: InsertDocuments after truncation fails: %v", desc, err))
		docs--
	}
	// restart
	if err := db.Close(); err != nil {
		r.Finding(fmt.Sprintf("%s: database does not close after truncation: %v", desc, err))
		return nil
	}
	closed = true
	db, err = database.OpenDB("db1", nil, dbOptions(dir, maxio, fsz), quiet)
	if err != nil {
		r.Finding(fmt.Sprintf("%s: database does not open after truncation: %v", desc, err))
		return nil
	}
	closed = false
	check("after restart")
	if err := insertRow(); err != nil {
		r.Finding(fmt.Sprintf("%s: INSERT after truncation and restart fails: %v", desc, err))
		rows--
	}
	if err := exec("CREATE TABLE table2 (id INTEGER, PRIMARY KEY id)"); err != nil {
		r.Finding(fmt.Sprintf("%s: CREATE TABLE after truncation and restart fails: %v", desc, err))
	}
	check("after restart and new writes")
	_ = store.ErrTxNotFound
	return nil
}
