// Package c14: correspondence cases and direct property checks for value-log truncation (C14).
//
// One case = one real store driven through a sequence of the model's operations
// (coq/Trunc/Model.v): committers that append their values and reach the commit lock later,
// TruncateUptoTx, ExportTx (under a liveness bound), ReadTx+ReadValue of everything, restart.
// Out-of-id-order placement is produced in two ways: deterministically, by replicating the
// transactions of a primary store with ReplicateTx launched in a chosen order (ReplicateTx(k)
// appends its values and then waits for k-1: the real precommit path), and by real goroutine
// races between committers.
package c14

import (
	"bytes"
	"context"
	"encoding/hex"
	"encoding/json"
	"errors"
	"fmt"
	"io"
	"os"
	"path/filepath"
	"sort"
	"strings"
	"sync"
	"time"

	"github.com/codenotary/immudb/embedded/appendable"
	"github.com/codenotary/immudb/embedded/appendable/multiapp"
	"github.com/codenotary/immudb/embedded/logger"
	"github.com/codenotary/immudb/embedded/store"
	"verif/harness/vk"
)

// ---------- scenario (serialisable: it is the replay) ----------

type KV struct {
	K string `json:"k"` // hex key
	S int    `json:"s"` // value = bytes S, S+1, ... (mod 256)
	N int    `json:"n"` // value length
}

type Act struct {
	Op string `json:"op"` // launch | abort | trunc | layout | read | exports | reopen
	ID uint64 `json:"id,omitempty"`
	N  uint64 `json:"n,omitempty"`
}

type Scenario struct {
	Mode    string  `json:"mode"` // replica | race
	MaxIO   int     `json:"maxio"`
	Fsz     int     `json:"fsz"`
	Emb     bool    `json:"emb"`
	Cache   int     `json:"cache"`   // VLogCacheSize (0 = default; >0: direct checks only)
	MaxConc int     `json:"maxconc"` // MaxConcurrency (0 = the harness default 8); a stalled committer holds one slot
	Writers int     `json:"writers"` // race mode
	Txs     [][]KV  `json:"txs"`     // tx id = index+1; an empty list is a metadata-only tx
	Plan    []Act   `json:"plan"`
	XOrder  []int64 `json:"xorder"` // seeds for the export orders
}

func (k KV) key() []byte { b, _ := hex.DecodeString(k.K); return b }
func (k KV) val() []byte {
	if k.N == 0 {
		return nil
	}
	v := make([]byte, k.N)
	for i := range v {
		v[i] = byte(k.S + i)
	}
	return v
}

// ---------- value-log instrumentation through the public WithAppFactory seam ----------

type appendEv struct {
	vlog int // 1-based value log id
	n    int
}

type evLog struct {
	mu  sync.Mutex
	evs []appendEv
}

func (l *evLog) add(v, n int) { l.mu.Lock(); l.evs = append(l.evs, appendEv{v, n}); l.mu.Unlock() }
func (l *evLog) count() int   { l.mu.Lock(); defer l.mu.Unlock(); return len(l.evs) }
func (l *evLog) since(i int) []appendEv {
	l.mu.Lock()
	defer l.mu.Unlock()
	return append([]appendEv{}, l.evs[i:]...)
}

type cntApp struct {
	appendable.Appendable
	id  int
	log *evLog
}

func (c *cntApp) Append(bs []byte) (int64, int, error) {
	off, n, err := c.Appendable.Append(bs)
	c.log.add(c.id, len(bs))
	return off, n, err
}

var quiet = logger.NewSimpleLoggerWithLevel("vh", io.Discard, logger.LogError)

// limits and buffers far below the defaults: opening a store allocates (and clears) a pool of
// MaxConcurrency transactions of MaxTxEntries x MaxKeyLen bytes and 4 MB write buffers
func smallOpts() *store.Options {
	return store.DefaultOptions().WithLogger(quiet).WithSynced(false).
		WithMaxTxEntries(8).WithMaxKeyLen(32).WithMaxValueLen(1 << 13).WithMaxConcurrency(8).
		WithWriteBufferSize(1 << 14).
		WithAHTOptions(store.DefaultAHTOptions().WithWriteBufferSize(1 << 14)).
		WithIndexOptions(store.DefaultIndexOptions().WithCacheSize(64).WithFlushBufferSize(1 << 14))
}

func storeOpts(s *Scenario, ev *evLog) *store.Options {
	// the small file size is given to the value logs only (through the app factory); the tx log,
	// commit log and hash-tree logs keep the default so that opening a store stays cheap.  With
	// embedded values the values sit in the tx log, which gets the small size then.
	o := smallOpts().
		WithMaxIOConcurrency(s.MaxIO).WithEmbeddedValues(s.Emb).
		WithVLogCacheSize(s.Cache)
	if s.MaxConc > 0 {
		o = o.WithMaxConcurrency(s.MaxConc)
	}
	fsz := s.Fsz
	emb := s.Emb
	if ev != nil {
		o = o.WithAppFactory(func(root, sub string, mo *multiapp.Options) (appendable.Appendable, error) {
			if strings.HasPrefix(sub, "val_") || (emb && sub == "tx") {
				c := *mo
				mo = (&c).WithFileSize(fsz)
			}
			a, err := multiapp.Open(filepath.Join(root, sub), mo)
			if err != nil {
				return nil, err
			}
			if strings.HasPrefix(sub, "val_") {
				var id int
				fmt.Sscanf(sub, "val_%d", &id)
				return &cntApp{a, id + 1, ev}, nil
			}
			return a, nil
		})
	}
	return o
}

// ---------- the world: real store + the mirror of operations/observations ----------

type opT struct {
	kind string // append commit abort trunc export reopen read layout
	w    uint64
	v    int // value log id of an append (0 = not known yet)
	kvs  []KV
	n    uint64
}

type world struct {
	r   *vk.Run
	scn *Scenario
	dir string
	st  *store.ImmuStore
	ev  *evLog
	ctx context.Context

	ops []opT
	obs []string

	exports  [][]byte          // primary's ExportTx bytes, index id-1
	hdrs     []*store.TxHeader // primary's headers
	launched map[uint64]chan error
	appendOp map[uint64]int // writer -> index of its append op
	abortIDs []abortRec
	abortW   uint64
	nextID   uint64 // next id to commit

	maxCut      uint64
	exposed     map[uint64]uint64 // tx id stalled during a successful truncation -> n
	quiescent   bool
	locked      bool // _valBsMux known/assumed held
	blockedN    *int // liveness replays done in this harness run
	direct      []string
	inv         int // placement inversions observed
	hookSeen    bool
	maxAhead    uint64 // largest distance between a launched committer and the next id to commit
	lastPartial uint64
	modelled    bool // false: direct checks only (value cache on)
}

const livenessBound = 2 * time.Second

var errStuck = errors.New("store stuck")
var errGiveUp = errors.New("too many scenarios could not be completed")

func (w *world) finding(s string) {
	w.direct = append(w.direct, s)
	w.r.Finding(s)
}

func (w *world) desc() string {
	b, _ := json.Marshal(w.scn)
	if len(b) > 1500 {
		return string(b[:1500]) + "..."
	}
	return string(b)
}

func (w *world) open() error {
	var err error
	w.st, err = store.Open(w.dir, storeOpts(w.scn, w.ev))
	return err
}

// --- committers (replica mode): ReplicateTx appends the values, then waits for tx id-1 ---

func nonEmpty(kvs []KV) int {
	c := 0
	for _, k := range kvs {
		if k.N > 0 {
			c++
		}
	}
	return c
}

func (w *world) launch(id uint64, abort bool) error {
	kvs := w.scn.Txs[id-1]
	exp := w.exports[id-1]
	wr := id
	if abort {
		// same transaction with a wrong PrevAlh: precommit appends the values, then fails
		exp = vk.Clone(exp)
		exp[4+8+5] ^= 0x40
		w.abortW++
		wr = 1000 + w.abortW
	}
	if !abort && id >= w.nextID && id-w.nextID > w.maxAhead {
		w.maxAhead = id - w.nextID
	}
	before := w.ev.count()
	ch := make(chan error, 1)
	go func() {
		_, err := w.st.ReplicateTx(w.ctx, exp, false, false)
		ch <- err
	}()
	want := nonEmpty(kvs)
	if w.scn.Emb {
		want = 0
	}
	deadline := time.Now().Add(60 * time.Second)
	for w.ev.count() < before+want {
		if time.Now().After(deadline) {
			// a committer that cannot even reach its value log: the store is stuck (e.g. a value
			// log was never released); this is a liveness failure of the implementation
			w.finding(fmt.Sprintf("committer of tx %d could not append its values within 60s (store stuck after the preceding operations); %s", id, w.desc()))
			return errStuck
		}
		select {
		case err := <-ch:
			// the committer is done: either it appended everything in the meantime (the result is
			// put back for drain) or it gave up before writing
			ch <- err
			if w.ev.count() < before+want {
				return fmt.Errorf("ReplicateTx(%d) returned before appending its values: %v", id, err)
			}
		default:
		}
		time.Sleep(50 * time.Microsecond)
	}
	if want == 0 {
		time.Sleep(300 * time.Microsecond)
	}
	v := 0
	for _, e := range w.ev.since(before) {
		if v != 0 && v != e.vlog {
			return fmt.Errorf("values of one transaction landed in value logs %d and %d", v, e.vlog)
		}
		v = e.vlog
	}
	w.appendOp[wr] = len(w.ops)
	w.ops = append(w.ops, opT{kind: "append", w: wr, v: v, kvs: kvs})
	w.obs = append(w.obs, "BNone")
	if abort {
		w.abortIDs = append(w.abortIDs, abortRec{id, wr, ch})
	} else {
		w.launched[id] = ch
	}
	return w.drain()
}

type abortRec struct {
	id uint64
	wr uint64
	ch chan error
}

// drain collects every committer that can finish now (ids in order) and every failing one
func (w *world) drain() error {
	for {
		progressed := false
		// failing committers waiting for id-1 = nextID-1 finish as soon as nextID-1 is committed
		rest := w.abortIDs[:0]
		for _, a := range w.abortIDs {
			if a.id <= w.nextID {
				select {
				case err := <-a.ch:
					if err == nil {
						return fmt.Errorf("ReplicateTx with a wrong PrevAlh was accepted")
					}
				case <-time.After(5 * time.Second):
					return fmt.Errorf("failing committer for tx %d did not return", a.id)
				}
				w.ops = append(w.ops, opT{kind: "abort", w: a.wr})
				w.obs = append(w.obs, "BNone")
				progressed = true
			} else {
				rest = append(rest, a)
			}
		}
		w.abortIDs = rest
		if ch, ok := w.launched[w.nextID]; ok {
			select {
			case err := <-ch:
				if err != nil {
					return fmt.Errorf("ReplicateTx(%d): %v", w.nextID, err)
				}
			case <-time.After(5 * time.Second):
				return fmt.Errorf("committer %d did not commit", w.nextID)
			}
			delete(w.launched, w.nextID)
			w.ops = append(w.ops, opT{kind: "commit", w: w.nextID})
			w.obs = append(w.obs, "BNone")
			w.nextID++
			progressed = true
		}
		if !progressed {
			return nil
		}
	}
}

func (w *world) stalled() []uint64 {
	var ids []uint64
	for id := range w.launched {
		ids = append(ids, id)
	}
	sort.Slice(ids, func(i, j int) bool { return ids[i] < ids[j] })
	return ids
}

// --- TruncateUptoTx ---

func (w *world) truncate(n uint64) {
	code := 0
	func() {
		defer func() {
			if rec := recover(); rec != nil {
				code = 2
				w.finding(fmt.Sprintf("TruncateUptoTx(%d) panicked: %v; %s", n, rec, w.desc()))
			}
		}()
		if err := w.st.TruncateUptoTx(n); err != nil {
			code = 1
		}
	}()
	w.ops = append(w.ops, opT{kind: "trunc", n: n})
	w.obs = append(w.obs, fmt.Sprintf("BTrunc %d", code))
	if code == 0 && !w.scn.Emb {
		if n > w.maxCut {
			w.maxCut = n
		}
		st := w.stalled()
		if len(st) > 0 || len(w.abortIDs) > 0 {
			w.quiescent = false
		}
		for _, id := range st {
			w.exposed[id] = n
		}
	}
}

// --- reading everything back ---

type entryObs struct {
	vlen int
	voff uint64
	ok   bool
}

func (w *world) readAll(phase string) ([][]entryObs, error) {
	committedN := w.nextID - 1
	res := make([][]entryObs, 0, committedN)
	for id := uint64(1); id <= committedN; id++ {
		tx := store.NewTx(w.st.MaxTxEntries(), w.st.MaxKeyLen())
		if err := w.st.ReadTx(id, false, tx); err != nil {
			w.finding(fmt.Sprintf("%s: ReadTx(%d) failed: %v; %s", phase, id, err, w.desc()))
			res = append(res, nil)
			continue
		}
		// headers, hashes: identical to what the primary committed
		want := w.hdrs[id-1]
		got := tx.Header()
		if got.Alh() != want.Alh() || got.Eh != want.Eh || got.NEntries != want.NEntries || got.BlRoot != want.BlRoot {
			w.finding(fmt.Sprintf("%s: header/Alh of tx %d changed; %s", phase, id, w.desc()))
		}
		kvs := w.scn.Txs[id-1]
		var row []entryObs
		for i, e := range tx.Entries() {
			o := entryObs{vlen: e.VLen(), voff: uint64(e.VOff())}
			var v []byte
			var err error
			panicked := false
			func() {
				defer func() {
					if rec := recover(); rec != nil {
						panicked = true
					}
				}()
				v, err = w.st.ReadValue(e)
			}()
			if i >= len(kvs) || !bytes.Equal(e.Key(), kvs[i].key()) {
				w.finding(fmt.Sprintf("%s: tx %d entry %d has a different key; %s", phase, id, i, w.desc()))
				row = append(row, o)
				continue
			}
			wantV := kvs[i].val()
			switch {
			case panicked:
				w.finding(fmt.Sprintf("%s: ReadValue(tx %d entry %d) panicked; %s", phase, id, i, w.desc()))
			case err == nil && bytes.Equal(v, wantV):
				o.ok = true
			case err == nil:
				w.finding(fmt.Sprintf("%s: ReadValue(tx %d entry %d) returned different bytes without an error (cut %d); %s", phase, id, i, w.maxCut, w.desc()))
			default:
				// an explicit error: fine below the cut, a violation at or above it
				if id >= w.maxCut {
					if n, exp := w.exposed[id]; exp {
						w.finding(fmt.Sprintf("%s: value of tx %d entry %d unreadable (%v) although %d > cut %d: TruncateUptoTx ran between its value append and its commit lock (committer stalled before the commit lock); %s", phase, id, i, err, id, n, w.desc()))
					} else {
						w.finding(fmt.Sprintf("%s: value of tx %d entry %d unreadable (%v) after TruncateUptoTx, cut %d <= %d; %s", phase, id, i, err, w.maxCut, id, w.desc()))
					}
				}
			}
			row = append(row, o)
		}
		res = append(res, row)
	}
	return res, nil
}

func (w *world) opRead(phase string) error {
	rows, err := w.readAll(phase)
	if err != nil {
		return err
	}
	var rs []string
	for _, row := range rows {
		var es []string
		for _, e := range row {
			es = append(es, vk.Bool(e.ok))
		}
		rs = append(rs, vk.List(es))
	}
	w.ops = append(w.ops, opT{kind: "read"})
	w.obs = append(w.obs, "BRead "+vk.List(rs))
	return nil
}

func (w *world) opLayout() error {
	rows, err := w.readAll("layout")
	if err != nil {
		return err
	}
	var rs []string
	type pl struct {
		id   uint64
		vlog int
		off  uint64
	}
	var pls []pl
	for idx, row := range rows {
		var es []string
		first := true
		for _, e := range row {
			es = append(es, fmt.Sprintf("(%d, %d)", e.vlen, e.voff))
			if first && e.vlen > 0 {
				pls = append(pls, pl{uint64(idx + 1), int(e.voff >> 56), e.voff & (1<<55 - 1)})
				first = false
			}
		}
		rs = append(rs, vk.List(es))
		// value log of committers that appended nothing: taken from the entries
		if opi, ok := w.appendOp[uint64(idx+1)]; ok && w.ops[opi].v == 0 && len(row) > 0 {
			w.ops[opi].v = int(row[0].voff >> 56)
		}
	}
	// placement inversions: a higher id sitting below a lower id in the same value log
	for i := range pls {
		for j := range pls {
			if pls[i].vlog == pls[j].vlog && pls[i].id < pls[j].id && pls[i].off > pls[j].off {
				w.inv++
			}
		}
	}
	w.ops = append(w.ops, opT{kind: "layout"})
	w.obs = append(w.obs, "BLayout "+vk.List(rs))
	return nil
}

// --- ExportTx under a liveness bound ---

type muxProbe interface{ VerifValMuxLocked() bool }

// exportOne runs ExportTx in a goroutine.  When the preceding export is known (hook) or suspected
// (it returned "partially truncated transaction") to have kept _valBsMux, the call is given the
// liveness bound of 2 s; otherwise a slow machine gets 30 s before the call counts as not returning.
func (w *world) exportOne(id uint64, suspect bool) (cls int, err error, out []byte) {
	bound := 30 * time.Second
	if suspect {
		bound = livenessBound
	}
	type res struct {
		b   []byte
		err error
	}
	ch := make(chan res, 1)
	go func() {
		defer func() {
			if rec := recover(); rec != nil {
				ch <- res{nil, fmt.Errorf("panic: %v", rec)}
			}
		}()
		tx := store.NewTx(w.st.MaxTxEntries(), w.st.MaxKeyLen())
		b, err := w.st.ExportTx(id, false, false, tx)
		ch <- res{b, err}
	}()
	select {
	case r := <-ch:
		if r.err != nil {
			return 2, r.err, nil
		}
		if len(r.b) > 0 && r.b[len(r.b)-1] == 1 {
			return 1, nil, r.b
		}
		return 0, nil, r.b
	case <-time.After(bound):
		return 3, nil, nil
	}
}

func (w *world) opExports(seed int64) {
	committedN := w.nextID - 1
	ids := make([]uint64, 0, committedN+1)
	for id := uint64(1); id <= committedN+1; id++ { // committed+1: not found
		ids = append(ids, id)
	}
	// order derived from the scenario seed only
	x := uint64(seed)*2862933555777941757 + 3037000493
	for i := len(ids) - 1; i > 0; i-- {
		x = x*6364136223846793005 + 1442695040888963407
		j := int((x >> 33) % uint64(i+1))
		ids[i], ids[j] = ids[j], ids[i]
	}
	w.opExportIDs(ids)
}

func (w *world) opExportIDs(ids []uint64) {
	committedN := w.nextID - 1
	lastPartial := w.lastPartial
	defer func() { w.lastPartial = lastPartial }()
	for _, id := range ids {
		if w.locked {
			// the next export of a transaction with entries would wait forever; replay that for
			// real a bounded number of times per harness run, then stop exporting on this store
			if *w.blockedN >= 2 || id > committedN || len(w.scn.Txs[id-1]) == 0 {
				continue
			}
		}
		cls, err, out := w.exportOne(id, w.locked || lastPartial != 0)
		lockedObs := "None"
		nowLocked := false
		if p, ok := any(w.st).(muxProbe); ok {
			w.hookSeen = true
			nowLocked = p.VerifValMuxLocked()
			lockedObs = "(Some " + vk.Bool(nowLocked) + ")"
		}
		w.ops = append(w.ops, opT{kind: "export", n: id})
		w.obs = append(w.obs, fmt.Sprintf("BExport %d %s", cls, lockedObs))
		partial := err != nil && errors.Is(err, store.ErrCorruptedData) && strings.Contains(err.Error(), "partially truncated transaction")
		switch {
		case cls == 3:
			*w.blockedN++
			if lastPartial != 0 {
				w.finding(fmt.Sprintf("ExportTx(tx %d) did not return within %v: ExportTx(tx %d) left _valBsMux locked after a 'partially truncated transaction' return; %s", id, livenessBound, lastPartial, w.desc()))
			} else {
				w.finding(fmt.Sprintf("ExportTx(tx %d) did not return within its liveness bound (2s when _valBsMux is known to be held, 30s otherwise); %s", id, w.desc()))
			}
			w.locked = true
		case nowLocked && partial:
			w.finding(fmt.Sprintf("ExportTx(tx %d) left _valBsMux locked after a 'partially truncated transaction' return; %s", id, w.desc()))
			w.locked = true
			lastPartial = id
		case nowLocked:
			w.finding(fmt.Sprintf("ExportTx(tx %d) returned (%v) with _valBsMux held; %s", id, err, w.desc()))
			w.locked = true
		case partial:
			if w.hookSeen {
				lastPartial = 0 // the hook saw the mutex free
			} else {
				lastPartial = id // lock state not observable without the hook: the next export tells
			}
		}
		if id <= committedN && id >= w.maxCut {
			if _, exp := w.exposed[id]; !exp {
				if cls != 0 && cls != 3 {
					w.finding(fmt.Sprintf("ExportTx(tx %d) is not complete (class %d, err %v) although %d >= cut %d; %s", id, cls, err, id, w.maxCut, w.desc()))
				} else if cls == 0 && !bytes.Equal(out, w.exports[id-1]) {
					w.finding(fmt.Sprintf("ExportTx(tx %d) bytes differ from the export taken before truncation (cut %d); %s", id, w.maxCut, w.desc()))
				}
			}
		}
		if id > committedN && cls != 2 {
			w.finding(fmt.Sprintf("ExportTx of the non-existent tx %d did not fail (class %d); %s", id, cls, w.desc()))
		}
	}
}

// index entries and proofs: Get of every key of a readable suffix transaction resolves to the
// written value; a dual proof between the first and the last transaction still verifies
func (w *world) checkIndexAndProofs(phase string) {
	committedN := w.nextID - 1
	if committedN == 0 {
		return
	}
	ctx, cancel := context.WithTimeout(w.ctx, 5*time.Second)
	defer cancel()
	if err := w.st.WaitForIndexingUpto(ctx, committedN); err != nil {
		w.finding(fmt.Sprintf("%s: indexing did not reach tx %d: %v; %s", phase, committedN, err, w.desc()))
		return
	}
	for id := uint64(1); id <= committedN; id++ {
		for i, kv := range w.scn.Txs[id-1] {
			ref, err := w.st.Get(ctx, kv.key())
			if err != nil {
				w.finding(fmt.Sprintf("%s: Get(key of tx %d entry %d) failed: %v; %s", phase, id, i, err, w.desc()))
				continue
			}
			if ref.Tx() != id {
				w.finding(fmt.Sprintf("%s: index entry of tx %d entry %d points to tx %d; %s", phase, id, i, ref.Tx(), w.desc()))
				continue
			}
			if _, exp := w.exposed[id]; id >= w.maxCut && !exp {
				v, err := ref.Resolve()
				if err != nil || !bytes.Equal(v, kv.val()) {
					w.finding(fmt.Sprintf("%s: Get(key of tx %d entry %d) does not resolve to the written value (err %v, cut %d); %s", phase, id, i, err, w.maxCut, w.desc()))
				}
			}
		}
	}
	if committedN >= 2 {
		src := store.NewTx(w.st.MaxTxEntries(), w.st.MaxKeyLen())
		dst := store.NewTx(w.st.MaxTxEntries(), w.st.MaxKeyLen())
		if w.st.ReadTx(1, false, src) == nil && w.st.ReadTx(committedN, false, dst) == nil {
			p, err := w.st.DualProof(src.Header(), dst.Header())
			if err != nil || !store.VerifyDualProof(p, 1, committedN, src.Header().Alh(), dst.Header().Alh()) {
				w.finding(fmt.Sprintf("%s: dual proof tx 1 -> tx %d does not verify after truncation (err %v); %s", phase, committedN, err, w.desc()))
			}
		}
	}
}

func (w *world) reopen() error {
	if err := w.st.Close(); err != nil {
		return fmt.Errorf("close: %v", err)
	}
	// committers still waiting are gone with the store
	w.launched = map[uint64]chan error{}
	w.abortIDs = nil
	if err := w.open(); err != nil {
		w.finding(fmt.Sprintf("store does not open again after truncation: %v; %s", err, w.desc()))
		return err
	}
	w.locked = false
	w.lastPartial = 0
	w.ops = append(w.ops, opT{kind: "reopen"})
	w.obs = append(w.obs, "BNone")
	if got := w.st.LastCommittedTxID(); got != w.nextID-1 {
		w.finding(fmt.Sprintf("after restart the store has %d committed transactions, expected %d; %s", got, w.nextID-1, w.desc()))
	}
	return nil
}

// ---------- Coq rendering ----------

func kvsTerm(kvs []KV) string {
	var xs []string
	for _, k := range kvs {
		v := "[]"
		if k.N > 0 {
			v = fmt.Sprintf("vpat %d %d", k.S, k.N)
		}
		xs = append(xs, fmt.Sprintf("(hex \"%s\", %s)", k.K, v))
	}
	return vk.List(xs)
}

func (w *world) coq() string {
	var ops []string
	for _, o := range w.ops {
		switch o.kind {
		case "append":
			v := o.v
			if v == 0 {
				v = 1 // a committer that wrote nothing and never committed
			}
			ops = append(ops, fmt.Sprintf("OAppend %d %d %s", o.w, v, kvsTerm(o.kvs)))
		case "commit":
			ops = append(ops, fmt.Sprintf("OCommit %d", o.w))
		case "abort":
			ops = append(ops, fmt.Sprintf("OAbort %d", o.w))
		case "trunc":
			ops = append(ops, fmt.Sprintf("OTruncate %d", o.n))
		case "export":
			ops = append(ops, fmt.Sprintf("OExport %d", o.n))
		case "reopen":
			ops = append(ops, "OReopen")
		case "read":
			ops = append(ops, "OReadAll")
		case "layout":
			ops = append(ops, "OLayout")
		}
	}
	return fmt.Sprintf("CRun {| c_maxio := %d; c_fsz := %d; c_embedded := %s |} %s %s",
		w.scn.MaxIO, w.scn.Fsz, vk.Bool(w.scn.Emb), vk.List(ops), vk.List(w.obs))
}

// ---------- primary: the transactions to replicate ----------

func buildPrimary(txs [][]KV) ([][]byte, []*store.TxHeader, error) {
	dir, err := os.MkdirTemp("", "vh-c14-p")
	if err != nil {
		return nil, nil, err
	}
	defer os.RemoveAll(dir)
	st, err := store.Open(dir, smallOpts())
	if err != nil {
		return nil, nil, err
	}
	defer st.Close()
	ctx := context.Background()
	var exps [][]byte
	var hdrs []*store.TxHeader
	for i, kvs := range txs {
		tx, err := st.NewWriteOnlyTx(ctx)
		if err != nil {
			return nil, nil, err
		}
		if len(kvs) == 0 {
			tx.WithMetadata(store.NewTxMetadata().WithTruncatedTxID(uint64(i + 1)))
		}
		for _, kv := range kvs {
			if err := tx.Set(kv.key(), nil, kv.val()); err != nil {
				return nil, nil, err
			}
		}
		hdr, err := tx.Commit(ctx)
		if err != nil {
			return nil, nil, fmt.Errorf("primary commit %d: %v", i+1, err)
		}
		hdrs = append(hdrs, hdr)
	}
	for id := uint64(1); id <= uint64(len(txs)); id++ {
		b, err := st.ExportTx(id, false, false, store.NewTx(st.MaxTxEntries(), st.MaxKeyLen()))
		if err != nil {
			return nil, nil, err
		}
		exps = append(exps, b)
	}
	return exps, hdrs, nil
}

// ---------- running a scenario ----------

type shared struct {
	blockedN int
	failed   int
	prim     map[string]*primary // exports of a primary history, reused by the every-cut-point family
}

type primary struct {
	exps [][]byte
	hdrs []*store.TxHeader
}

// runScenario runs one scenario under a watchdog: a store call that never returns (other than
// the bounded ExportTx probes) is reported as a finding and the scenario is abandoned
func runScenario(r *vk.Run, scn *Scenario, sh *shared, bucketPrefix string) error {
	done := make(chan error, 1)
	go func() { done <- runScenario1(r, scn, sh, bucketPrefix) }()
	select {
	case err := <-done:
		if err != nil {
			// a scenario that cannot be carried through is reported with its replay instead of
			// aborting the run (which would drop the findings collected so far)
			sh.failed++
			b, _ := json.Marshal(scn)
			r.Finding(fmt.Sprintf("scenario could not be completed: %v; %s", err, b))
			if sh.failed > 5 {
				return errGiveUp // the findings recorded so far are the report
			}
		}
		return nil
	case <-time.After(240 * time.Second):
		b, _ := json.Marshal(scn)
		r.Finding(fmt.Sprintf("scenario did not finish within 240s (a store call never returned); %s", b))
		return errGiveUp
	}
}

func runScenario1(r *vk.Run, scn *Scenario, sh *shared, bucketPrefix string) error {
	if scn.Mode == "race" {
		return runRace(r, scn, sh, bucketPrefix)
	}
	key, _ := json.Marshal(scn.Txs)
	if sh.prim == nil {
		sh.prim = map[string]*primary{}
	}
	pr := sh.prim[string(key)]
	if pr == nil {
		exps, hdrs, err := buildPrimary(scn.Txs)
		if err != nil {
			return err
		}
		pr = &primary{exps, hdrs}
		sh.prim = map[string]*primary{string(key): pr} // keep the latest only
	}
	exps, hdrs := pr.exps, pr.hdrs
	dir, err := os.MkdirTemp("", "vh-c14-r")
	if err != nil {
		return err
	}
	defer os.RemoveAll(dir)
	w := &world{r: r, scn: scn, dir: dir, ev: &evLog{}, ctx: context.Background(),
		exports: exps, hdrs: hdrs, launched: map[uint64]chan error{}, appendOp: map[uint64]int{},
		nextID: 1, exposed: map[uint64]uint64{}, quiescent: true,
		blockedN: &sh.blockedN, modelled: scn.Cache == 0}
	if err := w.open(); err != nil {
		return err
	}
	defer func() { w.st.Close() }()
	return w.play(bucketPrefix)
}

func (w *world) play(bucketPrefix string) error {
	xi := 0
	for _, a := range w.scn.Plan {
		switch a.Op {
		case "launch":
			if err := w.launch(a.ID, false); err != nil {
				if err == errStuck {
					return nil
				}
				return err
			}
		case "abort":
			if err := w.launch(a.ID, true); err != nil {
				if err == errStuck {
					return nil
				}
				return err
			}
		case "trunc":
			w.truncate(a.N)
		case "layout":
			if len(w.launched) == 0 {
				if err := w.opLayout(); err != nil {
					return err
				}
			}
		case "read":
			if err := w.opRead("read"); err != nil {
				return err
			}
			w.checkIndexAndProofs("read")
		case "export":
			w.opExportIDs([]uint64{a.ID})
		case "exports":
			seed := int64(xi)
			if xi < len(w.scn.XOrder) {
				seed = w.scn.XOrder[xi]
			}
			xi++
			w.opExports(seed)
		case "reopen":
			if err := w.reopen(); err != nil {
				return nil // reported as a finding
			}
		}
	}
	w.emit(bucketPrefix)
	return nil
}

func (w *world) emit(bucketPrefix string) {
	scn := w.scn
	truncs, racy := 0, !w.quiescent
	for _, o := range w.ops {
		if o.kind == "trunc" {
			truncs++
		}
	}
	bucket := fmt.Sprintf("%s/io%d/emb=%v/fsz<=%d/inv=%v/racy=%v", bucketPrefix, scn.MaxIO, scn.Emb, fszBucket(scn.Fsz), w.inv > 0, racy)
	if scn.MaxConc > 0 {
		bucket += fmt.Sprintf("/conc%d/ahead>conc=%v", scn.MaxConc, w.maxAhead > uint64(scn.MaxConc))
	}
	js := map[string]any{"scn": scn, "direct": w.direct, "maxcut": w.maxCut, "quiescent": w.quiescent,
		"inversions": w.inv, "hook": w.hookSeen, "obs": strings.Join(w.obs, "; ")}
	if !w.modelled {
		// value cache on: reads below the cut may be served from memory; direct checks only
		return
	}
	// non-trivial: at least one successful truncation that had something to delete or to protect
	// (two or more transactions with values), or a mixed empty/non-empty transaction exported
	nontrivial := truncs > 0 && len(scn.Txs) >= 2
	w.r.Case(w.coq(), js, bucket, nontrivial)
}

func fszBucket(f int) int {
	for _, b := range []int{64, 128, 256, 512} {
		if f <= b {
			return b
		}
	}
	return 1 << 20
}

// ---------- race mode: real goroutines committing concurrently ----------

func runRace(r *vk.Run, scn *Scenario, sh *shared, bucketPrefix string) error {
	dir, err := os.MkdirTemp("", "vh-c14-c")
	if err != nil {
		return err
	}
	defer os.RemoveAll(dir)
	w := &world{r: r, scn: scn, dir: dir, ev: &evLog{}, ctx: context.Background(),
		launched: map[uint64]chan error{}, appendOp: map[uint64]int{},
		nextID: 1, exposed: map[uint64]uint64{}, quiescent: true, blockedN: &sh.blockedN, modelled: scn.Cache == 0}
	if err := w.open(); err != nil {
		return err
	}
	defer func() { w.st.Close() }()
	// committers take the specs round robin; ids are handed out by the store
	specs := scn.Txs
	type done struct {
		id   uint64
		spec int
	}
	var mu sync.Mutex
	var dones []done
	var wg sync.WaitGroup
	errs := make(chan error, scn.Writers)
	for g := 0; g < scn.Writers; g++ {
		wg.Add(1)
		go func(g int) {
			defer wg.Done()
			for i := g; i < len(specs); i += scn.Writers {
				tx, err := w.st.NewWriteOnlyTx(w.ctx)
				if err != nil {
					errs <- err
					return
				}
				if len(specs[i]) == 0 {
					tx.WithMetadata(store.NewTxMetadata().WithTruncatedTxID(1))
				}
				for _, kv := range specs[i] {
					if err := tx.Set(kv.key(), nil, kv.val()); err != nil {
						errs <- err
						return
					}
				}
				hdr, err := tx.Commit(w.ctx)
				if err != nil {
					errs <- err
					return
				}
				mu.Lock()
				dones = append(dones, done{hdr.ID, i})
				mu.Unlock()
			}
		}(g)
	}
	wg.Wait()
	select {
	case err := <-errs:
		return fmt.Errorf("race committer: %v", err)
	default:
	}
	// the history as committed: reorder the specs by id; headers/exports are taken now
	sort.Slice(dones, func(i, j int) bool { return dones[i].id < dones[j].id })
	ordered := make([][]KV, len(specs))
	for _, d := range dones {
		ordered[d.id-1] = specs[d.spec]
	}
	w.scn = &Scenario{Mode: scn.Mode, MaxIO: scn.MaxIO, Fsz: scn.Fsz, Emb: scn.Emb, Cache: scn.Cache,
		Writers: scn.Writers, Txs: ordered, Plan: scn.Plan, XOrder: scn.XOrder}
	w.nextID = uint64(len(specs)) + 1
	for id := uint64(1); id < w.nextID; id++ {
		tx := store.NewTx(w.st.MaxTxEntries(), w.st.MaxKeyLen())
		if err := w.st.ReadTx(id, false, tx); err != nil {
			return err
		}
		w.hdrs = append(w.hdrs, tx.Header())
		b, err := w.st.ExportTx(id, false, false, tx)
		if err != nil {
			return err
		}
		w.exports = append(w.exports, b)
	}
	// the model schedule: value appends in the order they reached each value log, then the
	// commits in id order.  A transaction is located in the append log by its first non-empty
	// entry's (value log, offset).
	type placed struct {
		id   uint64
		vlog int
		off  uint64
		has  bool
	}
	var pls []placed
	for id := uint64(1); id < w.nextID; id++ {
		tx := store.NewTx(w.st.MaxTxEntries(), w.st.MaxKeyLen())
		if err := w.st.ReadTx(id, false, tx); err != nil {
			return err
		}
		p := placed{id: id, vlog: 1}
		for _, e := range tx.Entries() {
			p.vlog = int(uint64(e.VOff()) >> 56)
			if e.VLen() > 0 {
				p.off = uint64(e.VOff()) & (1<<55 - 1)
				p.has = true
				break
			}
		}
		if scn.Emb {
			p.vlog = 1
		}
		pls = append(pls, p)
	}
	sort.SliceStable(pls, func(i, j int) bool {
		if pls[i].has != pls[j].has {
			return pls[i].has
		}
		if pls[i].vlog != pls[j].vlog {
			return pls[i].vlog < pls[j].vlog
		}
		return pls[i].off < pls[j].off
	})
	for _, p := range pls {
		w.appendOp[p.id] = len(w.ops)
		w.ops = append(w.ops, opT{kind: "append", w: p.id, v: p.vlog, kvs: ordered[p.id-1]})
		w.obs = append(w.obs, "BNone")
	}
	for id := uint64(1); id < w.nextID; id++ {
		w.ops = append(w.ops, opT{kind: "commit", w: id})
		w.obs = append(w.obs, "BNone")
	}
	return w.play(bucketPrefix)
}
