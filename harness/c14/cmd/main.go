package main

import (
	"verif/harness/c14"
	"verif/harness/vk"
)

func main() { vk.Main("Tie.C14", c14.Gen, c14.Replay) }
