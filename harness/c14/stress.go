package c14

import (
	"context"
	"fmt"
	"os"
	"sync"
	"sync/atomic"
	"time"

	"github.com/codenotary/immudb/embedded/store"
	"verif/harness/vk"
)

// raceStress (thorough tier): the stalled-committer race on the ordinary commit path, without any
// orchestration: 8 goroutines commit 200-byte values (value-log file size 256) while another one
// keeps calling TruncateUptoTx(LastCommittedTxID()).  Every committer reads its transaction back
// right after Commit returned; a value that cannot be read although the id is larger than every
// cut issued so far is a direct violation (it was observed once in 40 rounds of 1.5 s when this
// check was built).  Direct check only: the schedule is not recorded.
func raceStress(r *vk.Run, rounds int) {
	for round := 0; round < rounds; round++ {
		dir, err := os.MkdirTemp("", "vh-c14-s")
		if err != nil {
			return
		}
		st, err := store.Open(dir, smallOpts().WithFileSize(256).WithMaxIOConcurrency(1).WithMaxConcurrency(32))
		if err != nil {
			os.RemoveAll(dir)
			return
		}
		ctx := context.Background()
		var stop int32
		var issued uint64
		var wg sync.WaitGroup
		var mu sync.Mutex
		for g := 0; g < 8; g++ {
			wg.Add(1)
			go func(g int) {
				defer wg.Done()
				for i := 0; atomic.LoadInt32(&stop) == 0; i++ {
					tx, err := st.NewWriteOnlyTx(ctx)
					if err != nil {
						return
					}
					v := make([]byte, 200)
					for k := range v {
						v[k] = byte(g + k)
					}
					tx.Set([]byte(fmt.Sprintf("k%d_%d", g, i)), nil, v)
					hdr, err := tx.Commit(ctx)
					if err != nil {
						return
					}
					rtx := store.NewTx(st.MaxTxEntries(), st.MaxKeyLen())
					if err := st.ReadTx(hdr.ID, false, rtx); err != nil {
						continue
					}
					for _, e := range rtx.Entries() {
						if _, err := st.ReadValue(e); err != nil {
							if c := atomic.LoadUint64(&issued); hdr.ID > c {
								mu.Lock()
								r.Finding(fmt.Sprintf("stress (8 concurrent committers, plain Commit, fileSize 256): value of tx %d unreadable (%v) right after its commit although %d > every cut issued so far (%d): TruncateUptoTx ran between its value append and its commit lock", hdr.ID, err, hdr.ID, c))
								mu.Unlock()
							}
						}
					}
				}
			}(g)
		}
		wg.Add(1)
		go func() {
			defer wg.Done()
			for atomic.LoadInt32(&stop) == 0 {
				if n := st.LastCommittedTxID(); n > 0 {
					atomic.StoreUint64(&issued, n)
					st.TruncateUptoTx(n)
				}
				time.Sleep(200 * time.Microsecond)
			}
		}()
		time.Sleep(1500 * time.Millisecond)
		atomic.StoreInt32(&stop, 1)
		wg.Wait()
		st.Close()
		os.RemoveAll(dir)
	}
}
