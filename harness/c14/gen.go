package c14

import (
	"encoding/hex"
	"encoding/json"
	"fmt"
	"math/rand"
	"os"

	"verif/harness/vk"
)

func keyOf(id, i int) string { return hex.EncodeToString([]byte(fmt.Sprintf("k%d_%d", id, i))) }

func genLen(rng *rand.Rand, fsz int) int {
	switch rng.Intn(10) {
	case 0, 1, 2:
		return 0 // empty value
	case 3:
		return 1 + rng.Intn(8)
	case 4:
		return fsz/2 + rng.Intn(3)
	case 5:
		return fsz - 1 + rng.Intn(3) // fsz-1, fsz, fsz+1
	case 6:
		return 2*fsz + rng.Intn(5)
	default:
		return 1 + rng.Intn(fsz+fsz/2)
	}
}

func genTxs(rng *rand.Rand, T, fsz int, allowMeta bool) [][]KV {
	txs := make([][]KV, T)
	for t := 0; t < T; t++ {
		ne := 1 + rng.Intn(4)
		if allowMeta && rng.Intn(10) == 0 {
			// metadata-only transaction (what the truncator's catalog copy looks like on an empty
			// catalog); only with direct commits: TxHeader.ReadFrom refuses NEntries = 0, so such a
			// transaction cannot be replicated
			ne = 0
		}
		for i := 0; i < ne; i++ {
			txs[t] = append(txs[t], KV{K: keyOf(t+1, i), S: rng.Intn(256), N: genLen(rng, fsz)})
		}
		if txs[t] == nil {
			txs[t] = []KV{}
		}
	}
	return txs
}

func genCfg(rng *rand.Rand) (maxio, fsz int, emb bool) {
	fszs := []int{64, 65, 96, 128, 200, 256, 511, 512}
	fsz = fszs[rng.Intn(len(fszs))]
	maxio = 1 + rng.Intn(3)
	if rng.Intn(12) == 0 {
		emb = true
		maxio = 1
	}
	return
}

// launch order: a permutation of 1..T in which a committer runs at most `look` ids ahead
func genOrder(rng *rand.Rand, T, look int) []uint64 {
	launched := make([]bool, T+2)
	lowest := 1
	var order []uint64
	for len(order) < T {
		for lowest <= T && launched[lowest] {
			lowest++
		}
		hi := lowest + look
		if hi > T {
			hi = T
		}
		var cands []int
		for k := lowest; k <= hi; k++ {
			if !launched[k] {
				cands = append(cands, k)
			}
		}
		k := cands[rng.Intn(len(cands))]
		launched[k] = true
		order = append(order, uint64(k))
	}
	return order
}

func tail(cuts []uint64) []Act {
	plan := []Act{{Op: "layout"}}
	for _, n := range cuts {
		plan = append(plan, Act{Op: "trunc", N: n})
	}
	plan = append(plan, Act{Op: "read"}, Act{Op: "exports"}, Act{Op: "reopen"}, Act{Op: "read"}, Act{Op: "exports"})
	return plan
}

// Gen: n = number of cases (one case = one store driven through a whole scenario)
func Gen(r *vk.Run, n int) error {
	err := gen(r, n)
	if err == errGiveUp {
		return nil // reported through the findings
	}
	return err
}

func gen(r *vk.Run, n int) error {
	sh := &shared{}
	rng := r.Rng
	// --- the two known findings, replayed first, deterministically
	if err := runScenario(r, lockScenario(), sh, "lock-regression"); err != nil {
		return err
	}
	if err := runScenario(r, raceScenario(), sh, "known-race"); err != nil {
		return err
	}
	// always: one history with a committer more than MaxConcurrency ids ahead, every cut point
	if err := farFamily(r, n, sh, 2+int(r.Seed%3), 1, []int{64, 96, 128}[r.Seed%3], true); err != nil {
		return err
	}
	fam := 0
	for r.N < n {
		fam++
		maxio, fsz, emb := genCfg(rng)
		pick := rng.Intn(20)
		switch {
		case pick < 5:
			// real goroutine races between committers, quiescent truncation afterwards
			T := 5 + rng.Intn(8)
			txs := genTxs(rng, T, fsz, true)
			cut := uint64(rng.Intn(T + 2))
			cuts := []uint64{cut}
			if rng.Intn(3) == 0 {
				cuts = append(cuts, uint64(rng.Intn(T+2)))
			}
			scn := &Scenario{Mode: "race", MaxIO: maxio, Fsz: fsz, Emb: emb, Writers: 2 + rng.Intn(3), Txs: txs,
				Plan: tail(cuts), XOrder: []int64{rng.Int63(), rng.Int63()}}
			if err := runScenario(r, scn, sh, "race"); err != nil {
				return err
			}
		case pick < 15:
			// truncations in the middle of the history, some while a committer is stalled,
			// failing committers (orphan values), repeated/decreasing cuts
			T := 4 + rng.Intn(6)
			txs := genTxs(rng, T, fsz, false)
			order := genOrder(rng, T, rng.Intn(4))
			var plan []Act
			committedGuess := 0
			launched := map[uint64]bool{}
			for _, id := range order {
				if rng.Intn(6) == 0 {
					plan = append(plan, Act{Op: "abort", ID: uint64(1 + rng.Intn(T))})
				}
				plan = append(plan, Act{Op: "launch", ID: id})
				launched[id] = true
				for launched[uint64(committedGuess+1)] {
					committedGuess++
				}
				stalledNow := len(launched) > committedGuess
				if rng.Intn(3) == 0 && (!stalledNow || rng.Intn(2) == 0) {
					plan = append(plan, Act{Op: "trunc", N: uint64(rng.Intn(committedGuess + 2))})
				}
			}
			cuts := []uint64{uint64(rng.Intn(T + 2))}
			if rng.Intn(2) == 0 {
				cuts = append(cuts, cuts[0]) // the same truncation twice
			}
			plan = append(plan, tail(cuts)...)
			scn := &Scenario{Mode: "replica", MaxIO: maxio, Fsz: fsz, Emb: emb, Txs: txs, Plan: plan,
				XOrder: []int64{rng.Int63(), rng.Int63()}}
			if err := runScenario(r, scn, sh, "mid"); err != nil {
				return err
			}
		case pick == 16 || pick == 17:
			conc := 1 + rng.Intn(4)
			if emb {
				maxio = 1 + rng.Intn(3)
			}
			if rng.Intn(2) == 0 {
				maxio = 1
			}
			if err := farFamily(r, n, sh, conc, maxio, fsz, false); err != nil {
				return err
			}
		case pick == 15:
			// value cache on: direct checks only (no case is recorded)
			T := 4 + rng.Intn(4)
			txs := genTxs(rng, T, fsz, false)
			var plan []Act
			for _, id := range genOrder(rng, T, 2) {
				plan = append(plan, Act{Op: "launch", ID: id})
			}
			plan = append(plan, tail([]uint64{uint64(1 + rng.Intn(T))})...)
			scn := &Scenario{Mode: "replica", MaxIO: maxio, Fsz: fsz, Emb: emb, Cache: 8, Txs: txs, Plan: plan,
				XOrder: []int64{rng.Int63(), rng.Int63()}}
			if err := runScenario(r, scn, sh, "cache"); err != nil {
				return err
			}
		default:
			// one history, EVERY cut point 0..T+1 (the placement is reproduced exactly each time)
			T := 3 + rng.Intn(5)
			txs := genTxs(rng, T, fsz, false)
			order := genOrder(rng, T, 1+rng.Intn(4))
			var launch []Act
			for _, id := range order {
				launch = append(launch, Act{Op: "launch", ID: id})
			}
			xo := []int64{rng.Int63(), rng.Int63()}
			for cut := 0; cut <= T+1 && r.N < n; cut++ {
				if emb && cut > 2 {
					break // with embedded values TruncateUptoTx deletes nothing: three cuts are enough
				}
				cuts := []uint64{uint64(cut)}
				plan := append(append([]Act{}, launch...), tail(cuts)...)
				scn := &Scenario{Mode: "replica", MaxIO: maxio, Fsz: fsz, Emb: emb, Txs: txs, Plan: plan, XOrder: xo}
				if err := runScenario(r, scn, sh, "allcuts"); err != nil {
					return err
				}
			}
		}
	}
	if err := databaseChecks(r); err != nil {
		return err
	}
	if os.Getenv("VERIF_TIER") == "thorough" {
		raceStress(r, 20)
	}
	return nil
}

// farFamily: small MaxConcurrency (1..4) and committers running MORE than MaxConcurrency ids
// ahead (ReplicateTx appends its values, then waits for its predecessor: it can be overtaken by
// any number of sequential commits), every cut point afterwards.  A stalled committer holds one
// of the MaxConcurrency slots, so at most MaxConcurrency-1 run ahead.
//
// plain = true is the engineered instance run at the start of every check: the LAST transaction
// alone runs ahead, every transaction has one non-empty value of about half a file (so each sits
// in a chunk of its own region and no empty first entry pins a tombstone at 0): for every cut n
// with n + MaxConcurrency < T the value of tx T lies in a chunk below the one of tx n.
func farFamily(r *vk.Run, n int, sh *shared, conc, maxio, fsz int, plain bool) error {
	rng := r.Rng
	T := conc + 4 + rng.Intn(5)
	txs := genTxs(rng, T, fsz, false)
	nAhead := 0
	if conc > 1 {
		nAhead = 1 + rng.Intn(conc-1)
	}
	ahead := map[int]bool{}
	if plain {
		T = conc + 6
		txs = make([][]KV, T)
		for t := range txs {
			txs[t] = []KV{{K: keyOf(t+1, 0), S: rng.Intn(256), N: fsz/2 + rng.Intn(fsz/2)}}
		}
		ahead[T] = true
		nAhead = 1
	}
	for len(ahead) < nAhead {
		id := conc + 2 + rng.Intn(T-conc-1) // conc+2 .. T: more than conc ids beyond tx 1
		ahead[id] = true
	}
	var launch []Act
	for id := T; id >= 1; id-- { // the farthest first
		if ahead[id] {
			// its values must be there to be lost: first entry non-empty
			if txs[id-1][0].N == 0 {
				txs[id-1][0].N = 1 + rng.Intn(fsz)
			}
			launch = append(launch, Act{Op: "launch", ID: uint64(id)})
		}
	}
	for id := 1; id <= T; id++ {
		if !ahead[id] {
			launch = append(launch, Act{Op: "launch", ID: uint64(id)})
		}
	}
	xo := []int64{rng.Int63(), rng.Int63()}
	for cut := 0; cut <= T+1 && r.N < n; cut++ {
		if conc == 1 && cut > 2 {
			break // nobody can run ahead with a single slot: the configuration itself is the point
		}
		plan := append(append([]Act{}, launch...), tail([]uint64{uint64(cut)})...)
		scn := &Scenario{Mode: "replica", MaxIO: maxio, Fsz: fsz, MaxConc: conc, Txs: txs, Plan: plan, XOrder: xo}
		if err := runScenario(r, scn, sh, "far"); err != nil {
			return err
		}
	}
	return nil
}

// tx 1 = (70 bytes, empty value), tx 2 = 100 bytes; TruncateUptoTx(2); ExportTx(1); ExportTx(2)
func lockScenario() *Scenario {
	return &Scenario{Mode: "replica", MaxIO: 1, Fsz: 64,
		Txs: [][]KV{{{K: keyOf(1, 0), S: 1, N: 70}, {K: keyOf(1, 1), S: 0, N: 0}}, {{K: keyOf(2, 0), S: 3, N: 100}}},
		Plan: []Act{{Op: "launch", ID: 1}, {Op: "launch", ID: 2}, {Op: "layout"}, {Op: "trunc", N: 2}, {Op: "read"},
			{Op: "export", ID: 1}, {Op: "export", ID: 2}, {Op: "reopen"}, {Op: "read"}}}
}

// committer 3 appends 70 bytes and stalls; tx 1 commits behind it; TruncateUptoTx(1); tx 2; tx 3 commits
func raceScenario() *Scenario {
	return &Scenario{Mode: "replica", MaxIO: 1, Fsz: 64,
		Txs: [][]KV{{{K: keyOf(1, 0), S: 1, N: 40}}, {{K: keyOf(2, 0), S: 2, N: 40}}, {{K: keyOf(3, 0), S: 3, N: 70}}},
		Plan: []Act{{Op: "launch", ID: 3}, {Op: "launch", ID: 1}, {Op: "trunc", N: 1}, {Op: "launch", ID: 2},
			{Op: "layout"}, {Op: "read"}, {Op: "reopen"}, {Op: "read"}}}
}

// Replay re-runs the scenario stored in a replay file
func Replay(r *vk.Run, c map[string]any) error {
	b, err := json.Marshal(c["scn"])
	if err != nil {
		return err
	}
	var scn Scenario
	if err := json.Unmarshal(b, &scn); err != nil {
		return err
	}
	if len(scn.Txs) == 0 {
		return fmt.Errorf("replay file carries no scenario")
	}
	return runScenario(r, &scn, &shared{}, "replay")
}
