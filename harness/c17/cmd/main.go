package main

import (
	"verif/harness/c17"
	"verif/harness/vk"
)

func main() { vk.Main("Tie.C17", c17.Gen, c17.Replay) }
