// Package c17: correspondence cases and falsifier for the appendables (C17).
//
// Every case is a fresh singleapp file / multiapp directory in a temp dir, a sequence of
// operations run on the REAL implementation and every output it produced.  The Coq side
// (Tie.C17.case_ok) replays the operations on the model and compares every output.
// Beside that each output is compared here with a plain byte-slice log (the specification the
// theorems are about); the first departure of a case is reported with r.Finding.
package c17

import (
	"encoding/hex"
	"encoding/json"
	"errors"
	"fmt"
	"io"
	"math/rand"
	"os"
	"path/filepath"
	"strings"

	"github.com/codenotary/immudb/embedded/appendable"
	"github.com/codenotary/immudb/embedded/appendable/multiapp"
	"github.com/codenotary/immudb/embedded/appendable/singleapp"
	"verif/harness/vk"
)

type Opts struct {
	RO    bool `json:"ro"`
	Buf   int  `json:"buf"`
	Retry bool `json:"retry"`
	Auto  bool `json:"auto"`
}

type Op struct {
	K   string `json:"k"` // append read setoff flush sync size offset discard switchro close reopen meta copy
	Bs  string `json:"bs,omitempty"`
	N   uint64 `json:"n,omitempty"`
	Off uint64 `json:"off,omitempty"`
	O   *Opts  `json:"o,omitempty"`
}

type Out struct {
	K   string `json:"k"` // err ok app full read n bytes copy any
	Off uint64 `json:"off,omitempty"`
	N   uint64 `json:"n,omitempty"`
	Bs  string `json:"bs,omitempty"`
	EOF bool   `json:"eof,omitempty"`
}

type Case struct {
	Kind     string `json:"kind"`     // single | multi
	Prealloc int    `json:"prealloc"` // single: preallocSize; multi: 0/1
	FS       int    `json:"fs"`       // multi: fileSize
	MaxOpen  int    `json:"maxopen"`  // multi: maxOpenedFiles
	Meta     string `json:"meta"`
	O        Opts   `json:"o"`
	Ops      []Op   `json:"ops"`
	Outs     []Out  `json:"outs,omitempty"`
}

// ---------- the implementation under test ----------

type sut struct {
	c      *Case
	dir    string // copies go here
	ncopy  int
	note   string // direct observation on a copy (metadata differs, copy cannot be opened)
	path   string
	app    appendable.Appendable
	closed bool // a Close call was made since the last Open
}

func (s *sut) open(o Opts) error {
	meta, _ := hex.DecodeString(s.c.Meta)
	var wb []byte
	if !o.RO {
		wb = make([]byte, o.Buf)
	}
	if s.c.Kind == "single" {
		so := singleapp.DefaultOptions().WithReadOnly(o.RO).WithRetryableSync(o.Retry).WithAutoSync(o.Auto).
			WithWriteBuffer(wb).WithPreallocSize(s.c.Prealloc).WithMetadata(meta).
			WithCompressionFormat(appendable.NoCompression)
		a, err := singleapp.Open(s.path, so)
		if err != nil {
			return err
		}
		s.app = a
	} else {
		mo := multiapp.DefaultOptions().WithReadOnly(o.RO).WithRetryableSync(o.Retry).WithAutoSync(o.Auto).
			WithWriteBufferSize(o.Buf).WithFileSize(s.c.FS).WithPrealloc(s.c.Prealloc != 0).WithMetadata(meta).
			WithMaxOpenedFiles(s.c.MaxOpen).WithFileExt("aof").WithCompressionFormat(appendable.NoCompression)
		a, err := multiapp.Open(s.path, mo)
		if err != nil {
			return err
		}
		s.app = a
	}
	s.closed = false
	return nil
}

// readCopy opens a copy read-only and returns everything it holds: Size() bytes read at offset 0
func (s *sut) readCopy(dst string, wantMeta []byte) []byte {
	var cp appendable.Appendable
	var err error
	if s.c.Kind == "single" {
		cp, err = singleapp.Open(dst, singleapp.DefaultOptions().WithReadOnly(true).WithWriteBuffer(nil))
	} else {
		cp, err = multiapp.Open(dst, multiapp.DefaultOptions().WithReadOnly(true).WithFileSize(s.c.FS).
			WithFileExt("aof").WithMaxOpenedFiles(1000).WithPrealloc(s.c.Prealloc != 0))
	}
	if err != nil {
		s.note = "the copy cannot be opened: " + err.Error()
		return nil
	}
	defer cp.Close()
	if hex.EncodeToString(cp.Metadata()) != hex.EncodeToString(wantMeta) {
		s.note = fmt.Sprintf("the copy's metadata is %x, the original's %x", cp.Metadata(), wantMeta)
	}
	sz, err := cp.Size()
	if err != nil || sz == 0 {
		return nil
	}
	bs := make([]byte, sz)
	n, err := cp.ReadAt(bs, 0)
	if err != nil && !errors.Is(err, io.EOF) {
		return nil
	}
	return bs[:n]
}

func errOut(err error) Out {
	if err != nil {
		return Out{K: "err"}
	}
	return Out{K: "ok"}
}

// exec runs one operation on the implementation; a Go panic is returned as panicked
func (s *sut) exec(op Op) (out Out, panicked string) {
	defer func() {
		if p := recover(); p != nil {
			out = Out{K: "err"}
			panicked = fmt.Sprint(p)
		}
	}()
	a := s.app
	switch op.K {
	case "append":
		bs, _ := hex.DecodeString(op.Bs)
		off, n, err := a.Append(bs)
		switch {
		case err == nil:
			return Out{K: "app", Off: uint64(off), N: uint64(n)}, ""
		case errors.Is(err, singleapp.ErrBufferFull):
			return Out{K: "full", Off: uint64(off), N: uint64(n)}, ""
		default:
			return Out{K: "err"}, ""
		}
	case "read":
		bs := make([]byte, op.N)
		n, err := a.ReadAt(bs, int64(op.Off))
		switch {
		case err == nil:
			return Out{K: "read", Bs: hex.EncodeToString(bs[:n])}, ""
		case errors.Is(err, io.EOF):
			return Out{K: "read", Bs: hex.EncodeToString(bs[:n]), EOF: true}, ""
		default:
			return Out{K: "err"}, ""
		}
	case "setoff":
		return errOut(a.SetOffset(int64(op.Off))), ""
	case "flush":
		return errOut(a.Flush()), ""
	case "sync":
		return errOut(a.Sync()), ""
	case "size":
		n, err := a.Size()
		if err != nil {
			return Out{K: "err"}, ""
		}
		return Out{K: "n", N: uint64(n)}, ""
	case "offset":
		return Out{K: "n", N: uint64(a.Offset())}, ""
	case "discard":
		return errOut(a.DiscardUpto(int64(op.Off))), ""
	case "switchro":
		return errOut(a.SwitchToReadOnlyMode()), ""
	case "close":
		err := a.Close()
		s.closed = true
		return errOut(err), ""
	case "reopen":
		if !s.closed {
			return Out{K: "err"}, "" // by convention of the model: Reopen is only issued after Close
		}
		if err := s.open(*op.O); err != nil {
			return Out{K: "err"}, ""
		}
		return Out{K: "ok"}, ""
	case "meta":
		return Out{K: "bytes", Bs: hex.EncodeToString(a.Metadata())}, ""
	case "copy":
		s.ncopy++
		dst := filepath.Join(s.dir, fmt.Sprintf("copy%d", s.ncopy))
		defer os.RemoveAll(dst)
		if err := a.Copy(dst); err != nil {
			return Out{K: "err"}, ""
		}
		return Out{K: "copy", Bs: hex.EncodeToString(s.readCopy(dst, a.Metadata()))}, ""
	}
	return Out{K: "err"}, "unknown op " + op.K
}

// ---------- the specification: one byte slice (coq/App/Spec.v, spec_step) ----------

type spec struct {
	data         []byte
	ro, closed   bool
	meta         string
	capOn        bool
	capB         uint64
	sy, fl, disc uint64
	chaos        bool
}

func capOf(o Opts) (bool, uint64) { return o.Retry && !o.Auto, uint64(o.Buf) }

func (a *spec) size() uint64 { return uint64(len(a.data)) }

func (a *spec) step(op Op) Out {
	if a.chaos {
		return Out{K: "any"}
	}
	sz := a.size()
	switch op.K {
	case "append":
		bs, _ := hex.DecodeString(op.Bs)
		if a.closed || a.ro || len(bs) == 0 {
			return Out{K: "err"}
		}
		if !a.capOn {
			a.data = append(a.data, bs...)
			return Out{K: "app", Off: sz, N: uint64(len(bs))}
		}
		var avail uint64
		if used := sz - a.sy; a.capB > used {
			avail = a.capB - used
		}
		if uint64(len(bs)) <= avail {
			a.data = append(a.data, bs...)
			return Out{K: "app", Off: sz, N: uint64(len(bs))}
		}
		a.data = append(a.data, bs[:avail]...)
		return Out{K: "full", Off: sz, N: avail}
	case "read":
		if a.closed {
			return Out{K: "err"}
		}
		if op.Off < a.disc || op.N == 0 {
			return Out{K: "any"}
		}
		if sz < op.Off {
			return Out{K: "read", EOF: true}
		}
		k := op.N
		if sz-op.Off < k {
			k = sz - op.Off
		}
		return Out{K: "read", Bs: hex.EncodeToString(a.data[op.Off : op.Off+k]), EOF: k < op.N}
	case "setoff":
		if a.closed || a.ro || sz < op.Off {
			return Out{K: "err"}
		}
		if op.Off == sz {
			return Out{K: "ok"}
		}
		if op.Off < a.disc {
			a.chaos = true
			return Out{K: "any"}
		}
		a.data = a.data[:op.Off]
		if !(a.fl <= op.Off) {
			a.sy, a.fl = op.Off, op.Off
		}
		return Out{K: "ok"}
	case "flush":
		if a.closed || a.ro {
			return Out{K: "err"}
		}
		a.fl = sz
		return Out{K: "ok"}
	case "sync":
		if a.closed || a.ro {
			return Out{K: "err"}
		}
		a.sy, a.fl = sz, sz
		return Out{K: "ok"}
	case "size":
		if a.closed {
			return Out{K: "err"}
		}
		return Out{K: "n", N: sz}
	case "offset":
		return Out{K: "n", N: sz}
	case "discard":
		if a.closed || sz < op.Off {
			return Out{K: "err"}
		}
		if op.Off > a.disc {
			a.disc = op.Off
		}
		return Out{K: "ok"}
	case "switchro":
		if a.closed || a.ro {
			return Out{K: "err"}
		}
		a.ro, a.sy, a.fl = true, sz, sz
		return Out{K: "ok"}
	case "close":
		if a.closed {
			return Out{K: "err"}
		}
		a.closed = true
		if !a.ro {
			a.fl = sz
		}
		return Out{K: "ok"}
	case "reopen":
		if !a.closed {
			return Out{K: "err"}
		}
		a.closed, a.ro = false, op.O.RO
		a.capOn, a.capB = capOf(*op.O)
		a.sy, a.fl = sz, sz
		return Out{K: "ok"}
	case "meta":
		return Out{K: "bytes", Bs: a.meta}
	case "copy":
		if a.closed {
			return Out{K: "err"}
		}
		a.fl = sz
		if a.disc > 0 {
			return Out{K: "any"}
		}
		return Out{K: "copy", Bs: hex.EncodeToString(a.data)}
	}
	return Out{K: "err"}
}

func sameOut(impl, sp Out) bool {
	if sp.K == "any" {
		return true
	}
	return impl == sp
}

// shape of a departure, used to tell the known defects from anything else
func shape(op Op, impl, sp Out) string {
	if impl.K == "read" && sp.K == "read" {
		li, ls := len(impl.Bs)/2, len(sp.Bs)/2
		switch {
		case li > ls && strings.HasPrefix(impl.Bs, sp.Bs):
			return "read-returns-bytes-beyond-size"
		case li > ls:
			return "read-returns-other-bytes-and-more"
		case li == ls && impl.Bs != sp.Bs:
			return "read-returns-other-bytes"
		case li < ls:
			return "read-short"
		default:
			return "read-eof-flag"
		}
	}
	if impl.K == "copy" && sp.K == "copy" {
		if len(impl.Bs) > len(sp.Bs) && strings.HasPrefix(impl.Bs, sp.Bs) {
			return "copy-carries-bytes-beyond-size"
		}
		return "copy-holds-other-bytes"
	}
	if impl.K == "n" && sp.K == "n" {
		if impl.N > sp.N {
			return op.K + "-larger"
		}
		return op.K + "-smaller"
	}
	return op.K + "-" + impl.K + "-vs-" + sp.K
}

// ---------- running a case ----------

func opTerm(op Op) string {
	switch op.K {
	case "append":
		return `Append (hex "` + op.Bs + `")`
	case "read":
		return fmt.Sprintf("ReadAt %d %d", op.N, op.Off)
	case "setoff":
		return fmt.Sprintf("SetOffset %d", op.Off)
	case "flush":
		return "Flush"
	case "sync":
		return "Sync"
	case "size":
		return "Size"
	case "offset":
		return "Offset"
	case "discard":
		return fmt.Sprintf("Discard %d", op.Off)
	case "switchro":
		return "SwitchRO"
	case "close":
		return "Close"
	case "reopen":
		return "Reopen " + optsTerm(*op.O)
	case "meta":
		return "Meta"
	case "copy":
		return "Copy"
	}
	return "Meta"
}

func optsTerm(o Opts) string {
	return fmt.Sprintf("(mko %s %d %s %s)", vk.Bool(o.RO), o.Buf, vk.Bool(o.Retry), vk.Bool(o.Auto))
}

func outTerm(o Out) string {
	switch o.K {
	case "ok":
		return "OOk"
	case "app":
		return fmt.Sprintf("OApp %d %d", o.Off, o.N)
	case "full":
		return fmt.Sprintf("OFull %d %d", o.Off, o.N)
	case "read":
		return fmt.Sprintf(`ORead (hex "%s") %s`, o.Bs, vk.Bool(o.EOF))
	case "n":
		return fmt.Sprintf("ON %d", o.N)
	case "bytes":
		return `OBytes (hex "` + o.Bs + `")`
	case "copy":
		return `OCopy (hex "` + o.Bs + `")`
	}
	return "OErr"
}

func (c *Case) coq() string {
	ops := make([]string, len(c.Ops))
	for i, o := range c.Ops {
		ops[i] = opTerm(o)
	}
	outs := make([]string, len(c.Outs))
	for i, o := range c.Outs {
		outs[i] = outTerm(o)
	}
	if c.Kind == "single" {
		return fmt.Sprintf(`CSingle %d (hex "%s") %s %s %s`, c.Prealloc, c.Meta, optsTerm(c.O), vk.List(ops), vk.List(outs))
	}
	return fmt.Sprintf(`CMulti %d %s (hex "%s") %s %s %s`, c.FS, vk.Bool(c.Prealloc != 0), c.Meta, optsTerm(c.O), vk.List(ops), vk.List(outs))
}

func modeName(o Opts) string {
	switch {
	case !o.Retry:
		return "flush-when-full"
	case o.Auto:
		return "retryable-autosync"
	default:
		return "retryable-bufferfull"
	}
}

type runner struct {
	r    *vk.Run
	base string
	seq  int
	// findings: one line per distinct tag, with the first case that showed it
	seen map[string]bool
}

// result of playing a case on the implementation
type played struct {
	tag, what  string // first departure from the byte-array log ("" = none)
	at         int
	nontrivial bool
	copyTag    string // a Copy that carries stale bytes behind the log (same defect as the reopen size);
	copyWhat   string // the byte-slice log keeps following the case after it
	copyAt     int
}

// play drives one case: ops come either from c.Ops (replay, directed scenarios, shrinking) or from
// the generator `next`, which sees the implementation's current offset.  c.Ops / c.Outs are
// rewritten with what was executed and observed.
func (rn *runner) play(c *Case, next func(s *sut, sp *spec, i int) *Op) (played, error) {
	var res played
	rn.seq++
	dir := filepath.Join(rn.base, fmt.Sprintf("c%d", rn.seq))
	if err := os.Mkdir(dir, 0o755); err != nil {
		return res, err
	}
	defer os.RemoveAll(dir)
	s := &sut{c: c, dir: dir}
	if c.Kind == "single" {
		s.path = filepath.Join(dir, "single.aof")
	} else {
		s.path = filepath.Join(dir, "multi")
	}
	if err := s.open(c.O); err != nil {
		return res, fmt.Errorf("open: %w", err)
	}
	defer func() {
		if !s.closed {
			s.app.Close()
		}
	}()
	// the byte-slice log; a fresh preallocated file already holds preallocSize zero bytes
	sp := &spec{ro: c.O.RO, meta: c.Meta}
	sp.capOn, sp.capB = capOf(c.O)
	pre := 0
	if c.Kind == "single" {
		pre = c.Prealloc
	} else if c.Prealloc != 0 {
		pre = c.FS
	}
	sp.data = make([]byte, pre)
	sp.sy, sp.fl = uint64(pre), uint64(pre)
	oracle := true
	rewound, reopened := false, false
	_ = reopened
	var okAppend, okRead, spans, rewoundOK bool
	depart := func(i int, tag, what string) {
		if res.tag == "" {
			res.tag, res.what, res.at = fmt.Sprintf("C17/%s/%s", c.Kind, tag), what, i
		}
		oracle = false
	}

	fixed := c.Ops
	c.Ops, c.Outs = nil, nil
	for i := 0; ; i++ {
		var op *Op
		if next != nil {
			op = next(s, sp, i)
		} else if i < len(fixed) {
			op = &fixed[i]
		}
		if op == nil {
			break
		}
		szBefore := sp.size()
		out, panicked := s.exec(*op)
		c.Ops = append(c.Ops, *op)
		c.Outs = append(c.Outs, out)
		if panicked != "" {
			depart(i, "panic", fmt.Sprintf("%s panicked: %s", op.K, panicked))
		}
		switch {
		case out.K == "app":
			okAppend = true
		case out.K == "read" && len(out.Bs) > 0:
			okRead = true
		}
		if c.Kind == "multi" && !s.closed && s.app.Offset() > int64(c.FS) {
			spans = true
		}
		if c.Kind == "multi" && (sp.capOn || (op.K == "reopen" && op.O.Retry && !op.O.Auto)) {
			// multiapp with retryableSync and no autoSync: on ErrBufferFull Append reports neither the
			// offset nor the bytes the current chunk took; this mode is outside the specification
			oracle = false
		}
		if !oracle {
			continue
		}
		want := sp.step(*op)
		if op.K == "setoff" && want.K == "ok" && op.Off < szBefore {
			rewound, rewoundOK = true, true
		}
		if op.K == "reopen" && want.K == "ok" {
			reopened = true
		}
		taint := "clean"
		switch {
		case pre > 0:
			taint = "preallocated"
		case rewound:
			taint = "rewound"
		}
		if s.note != "" {
			depart(i, "copy", s.note)
			s.note = ""
			continue
		}
		if out.K == "copy" && want.K == "copy" && out != want && strings.HasPrefix(out.Bs, want.Bs) {
			if pre > 0 {
				continue // "unless files are preallocated": the copy also holds the preallocated bytes
			}
			if res.copyTag == "" {
				res.copyTag = fmt.Sprintf("C17/%s/%s/copy-carries-bytes-beyond-size", c.Kind, taint)
				res.copyWhat = fmt.Sprintf("Copy produced a file holding %s, the byte-array log holds %s", outTerm(out), outTerm(want))
				res.copyAt = i
			}
			continue
		}
		if !sameOut(out, want) {
			depart(i, fmt.Sprintf("%s/%s", taint, shape(*op, out, want)),
				fmt.Sprintf("%s returned %s, a byte-array log gives %s", opTerm(*op), outTerm(out), outTerm(want)))
			continue
		}
		if op.K == "reopen" && out.K == "ok" && pre > 0 {
			// "the same size unless files are preallocated": the reopened log also holds whatever
			// the preallocated file holds beyond the old size; the byte-slice log cannot follow
			oracle = false
			continue
		}
		if op.K == "reopen" && out.K == "ok" {
			// direct check of "reopening finds the same size"
			if n, err := s.app.Size(); err == nil && uint64(n) != sp.size() && !sp.chaos {
				depart(i, fmt.Sprintf("%s/reopen-size", taint),
					fmt.Sprintf("after Close and reopen Size() = %d, before it was %d", n, sp.size()))
			}
		}
	}
	res.nontrivial = okAppend && okRead && (rewoundOK || reopened || spans)
	return res, nil
}

// session plays a case, records it for the model, and reports its first departure from the
// byte-array log (shrunk to a short operation list) once per kind of departure.
func (rn *runner) session(c *Case, bucket string, next func(s *sut, sp *spec, i int) *Op) error {
	res, err := rn.play(c, next)
	if err != nil {
		return err
	}
	js := map[string]any{}
	b, _ := json.Marshal(c)
	json.Unmarshal(b, &js)
	js["departure"] = res.tag // first departure from the byte-array log seen in this case ("" = none)
	rn.r.Case(c.coq(), js, bucket, res.nontrivial)
	if res.copyTag != "" && !rn.seen[res.copyTag] {
		rn.seen[res.copyTag] = true
		small := *c
		small.Ops, small.Outs = c.Ops[:res.copyAt+1], nil
		sb, _ := json.Marshal(small)
		rn.r.Finding(fmt.Sprintf("%s: %s; replay: harness case %s", res.copyTag, res.copyWhat, sb))
	}
	if res.tag != "" && !rn.seen[res.tag] {
		rn.seen[res.tag] = true
		small, what := rn.shrink(c, res)
		small.Outs = nil
		sb, _ := json.Marshal(small)
		rn.r.Finding(fmt.Sprintf("%s: %s; replay: harness case %s", res.tag, what, sb))
	}
	return nil
}

// shrink removes operations while the same kind of departure is still seen at the last operation
func (rn *runner) shrink(c *Case, res played) (Case, string) {
	cur := *c
	cur.Ops = append([]Op{}, c.Ops[:res.at+1]...)
	what := res.what
	for changed := true; changed; {
		changed = false
		for j := len(cur.Ops) - 2; j >= 0; j-- {
			t := cur
			t.Ops = append(append([]Op{}, cur.Ops[:j]...), cur.Ops[j+1:]...)
			r2, err := rn.play(&t, nil)
			if err == nil && r2.tag == res.tag && r2.at == len(t.Ops)-1 {
				cur, what, changed = t, r2.what, true
			}
		}
	}
	return cur, what
}

// ---------- generation ----------

var bufSizes = []int{1, 2, 3, 4, 5, 7, 8, 16}
var chunkSizes = []int{1, 2, 3, 4, 5, 8, 16}

func pick(rng *rand.Rand, xs []int) int { return xs[rng.Intn(len(xs))] }

func randOpts(rng *rand.Rand, fullModeShare int) Opts {
	o := Opts{Buf: pick(rng, bufSizes)}
	switch x := rng.Intn(100); {
	case x < fullModeShare:
		o.Retry, o.Auto = true, false
	case x < fullModeShare+40:
		o.Retry, o.Auto = true, true
	case x < fullModeShare+50:
		o.Retry, o.Auto = false, true // autoSync has no effect without retryableSync
	default:
		o.Retry, o.Auto = false, false
	}
	return o
}

type gen struct {
	rng       *rand.Rand
	c         *Case
	o         Opts // options of the current open
	nops      int
	ctr       byte
	lastFlush uint64
	lastApp   uint64
	lastSet   uint64
	inChunk   bool // SetOffset never leaves the current chunk (eviction stream)
	pendingRe int  // ops to run on the closed appendable before reopening
}

func (g *gen) bytes(n int) string {
	b := make([]byte, n)
	for i := range b {
		g.ctr++
		if g.ctr == 0 {
			g.ctr = 1
		}
		b[i] = g.ctr
	}
	return hex.EncodeToString(b)
}

func clampPos(xs []int64, max int64) []uint64 {
	var out []uint64
	for _, x := range xs {
		if x >= 0 && x <= max {
			out = append(out, uint64(x))
		}
	}
	return out
}

// offsets around every boundary the code computes with: 0, size, flushed size, buffer multiples,
// chunk multiples
func (g *gen) offsets(size uint64) []uint64 {
	s, b, fs := int64(size), int64(g.o.Buf), int64(g.c.FS)
	xs := []int64{0, 1, s - 1, s, s + 1, s + 2, int64(g.lastFlush) - 1, int64(g.lastFlush), int64(g.lastFlush) + 1,
		int64(g.lastApp), int64(g.lastApp) + 1, int64(g.lastSet), (s / b) * b, (s/b)*b - 1, (s/b)*b + 1, s - b, s - b - 1}
	if fs > 0 {
		k := s / fs
		xs = append(xs, k*fs, k*fs-1, k*fs+1, (k+1)*fs, (k+1)*fs+1, (k-1)*fs, (k-1)*fs-1, (k-1)*fs+1, (k-2)*fs, fs, fs-1, fs+1)
	}
	out := clampPos(xs, s+3)
	for i := 0; i < 4; i++ {
		out = append(out, uint64(g.rng.Int63n(s+3)))
	}
	return out
}

func (g *gen) lengths(size, off uint64) []uint64 {
	b, fs := int64(g.o.Buf), int64(g.c.FS)
	rem := int64(size) - int64(off)
	xs := []int64{1, 2, 3, b - 1, b, b + 1, 2*b + 1, rem - 1, rem, rem + 1, rem + 2}
	if fs > 0 {
		toEnd := fs - int64(off)%fs
		xs = append(xs, fs-1, fs, fs+1, 2*fs, 2*fs+1, 3*fs+1, toEnd-1, toEnd, toEnd+1, toEnd+fs, toEnd+fs+1)
	}
	var out []uint64
	for _, x := range xs {
		if x >= 1 && x <= 40 {
			out = append(out, uint64(x))
		}
	}
	out = append(out, uint64(1+g.rng.Intn(12)))
	return out
}

func pickU(rng *rand.Rand, xs []uint64) uint64 { return xs[rng.Intn(len(xs))] }

func (g *gen) next(s *sut, sp *spec, i int) *Op {
	if i >= g.nops {
		return nil
	}
	rng := g.rng
	if s.closed {
		if g.pendingRe > 0 {
			g.pendingRe--
			// operations on a closed appendable
			ks := []string{"size", "offset", "read", "append", "flush", "close", "meta", "setoff", "discard", "copy"}
			k := ks[rng.Intn(len(ks))]
			switch k {
			case "read":
				return &Op{K: k, N: 2, Off: 0}
			case "append":
				return &Op{K: k, Bs: g.bytes(1)}
			}
			return &Op{K: k}
		}
		o := g.o
		o.RO = rng.Intn(100) < 20
		if rng.Intn(100) < 30 {
			o.Buf = pick(rng, bufSizes)
		}
		if rng.Intn(100) < 20 {
			m := randOpts(rng, 20)
			o.Retry, o.Auto = m.Retry, m.Auto
		}
		g.o = o
		return &Op{K: "reopen", O: &o}
	}
	size := uint64(s.app.Offset())
	g.lastFlush = minU(g.lastFlush, size)
	ro := sp.ro
	x := rng.Intn(100)
	if ro {
		// most writes fail now: mostly read, then close
		switch {
		case x < 55:
			x = 40 // read
		case x < 75:
			x = 97 // close
		}
	}
	switch {
	case x < 30: // append
		// keep the log small
		if size > 90 {
			return &Op{K: "setoff", Off: pickU(rng, g.offsets(size))}
		}
		n := pickU(rng, g.lengths(size+1000, size))
		if n > 24 {
			n = 24
		}
		g.lastApp = size
		return &Op{K: "append", Bs: g.bytes(int(n))}
	case x < 59: // read
		off := pickU(rng, g.offsets(size))
		n := pickU(rng, g.lengths(size, off))
		if rng.Intn(40) == 0 {
			n = 0
		}
		return &Op{K: "read", N: n, Off: off}
	case x < 62:
		return &Op{K: "copy"}
	case x < 72: // setoffset
		off := pickU(rng, g.offsets(size))
		if g.inChunk && g.c.FS > 0 {
			lo := (size / uint64(g.c.FS)) * uint64(g.c.FS)
			if off < lo {
				off = lo + uint64(rng.Int63n(int64(size-lo)+1))
			}
		}
		g.lastSet = off
		return &Op{K: "setoff", Off: off}
	case x < 80:
		g.lastFlush = size
		return &Op{K: "flush"}
	case x < 84:
		g.lastFlush = size
		return &Op{K: "sync"}
	case x < 87:
		return &Op{K: "size"}
	case x < 89:
		return &Op{K: "offset"}
	case x < 92:
		off := pickU(rng, g.offsets(size))
		if g.c.FS > 0 && size > 0 && size%uint64(g.c.FS) == 0 && rng.Intn(2) == 0 {
			// the current chunk is full: DiscardUpto(size) must not remove it
			g.pendingRe = 0
			return &Op{K: "discard", Off: size}
		}
		if rng.Intn(3) > 0 && sp.disc > 0 {
			off = sp.disc // keep the discarded prefix small, so that most reads stay specified
		} else if off > size/2 && rng.Intn(2) == 0 {
			off = off / 2
		}
		return &Op{K: "discard", Off: off}
	case x < 93:
		if rng.Intn(4) > 0 {
			return &Op{K: "copy"}
		}
		return &Op{K: "meta"}
	case x < 95:
		return &Op{K: "switchro"}
	default:
		g.pendingRe = rng.Intn(3) / 2 * (1 + rng.Intn(2))
		g.lastFlush = size
		return &Op{K: "close"}
	}
}

func minU(a, b uint64) uint64 {
	if a < b {
		return a
	}
	return b
}

func (rn *runner) random(kind string, stream string) error {
	rng := rn.r.Rng
	c := &Case{Kind: kind, Meta: hex.EncodeToString(vk.RandBytes(rng, rng.Intn(5)))}
	g := &gen{rng: rng, c: c, nops: 30 + rng.Intn(25), ctr: byte(rng.Intn(200))}
	if kind == "single" {
		c.O = randOpts(rng, 25)
		if stream == "prealloc" {
			c.Prealloc = []int{1, 3, 8, 13}[rng.Intn(4)]
		}
	} else {
		c.O = randOpts(rng, 8)
		c.FS = pick(rng, chunkSizes)
		c.MaxOpen = 1000
		if stream == "prealloc" {
			c.Prealloc = 1
		}
		if stream == "evict" {
			c.MaxOpen = 1 + rng.Intn(3)
			g.inChunk = true
			if rng.Intn(4) == 0 {
				c.Prealloc = 1
			}
		}
	}
	g.o = c.O
	bucket := fmt.Sprintf("%s/%s/%s", kind, stream, modeName(c.O))
	return rn.session(c, bucket, g.next)
}

// the minimal scenarios of the defects found so far (all repaired: /repo 279f5fa, 09014a8): they must
// stay repaired, a recurrence is reported as a violation with this operation sequence; always run first
func directed() []Case {
	nr := Opts{Buf: 16}
	ap := func(s string) Op { return Op{K: "append", Bs: hex.EncodeToString([]byte(s))} }
	rd := func(n, off uint64) Op { return Op{K: "read", N: n, Off: off} }
	so := func(off uint64) Op { return Op{K: "setoff", Off: off} }
	re := func(o Opts) Op { return Op{K: "reopen", O: &o} }
	fl, cl, sz := Op{K: "flush"}, Op{K: "close"}, Op{K: "size"}
	return []Case{
		// rewind below the flushed size, close, reopen: the size comes back as 10
		{Kind: "single", O: nr, Ops: []Op{ap("0123456789"), fl, so(4), sz, cl, re(nr), sz}},
		// rewind, append into the buffer, read across fileOffset: stale file bytes instead of "xy"
		{Kind: "single", O: nr, Ops: []Op{ap("0123456789"), fl, so(4), ap("xy"), rd(6, 0), rd(2, 4)}},
		// rewind, read beyond the size: stale bytes, no EOF
		{Kind: "single", O: nr, Ops: []Op{ap("0123456789"), fl, so(4), rd(8, 0)}},
		// rewind, append more than the buffer holds, read what was just appended
		{Kind: "single", O: Opts{Buf: 4}, Ops: []Op{ap("0123456789"), fl, so(2), ap("abcdef"), rd(6, 2)}},
		// preallocated chunk: zero bytes instead of the buffered "ef"
		{Kind: "multi", FS: 8, Prealloc: 1, MaxOpen: 1000, O: nr, Ops: []Op{sz, ap("abcd"), fl, ap("ef"), rd(6, 8)}},
		{Kind: "single", Prealloc: 8, O: nr, Ops: []Op{sz, so(0), ap("abcd"), fl, ap("ef"), rd(6, 0), cl, re(nr), sz}},
		// SetOffset into an earlier chunk leaves the later chunk files: readable, and current after reopen
		{Kind: "multi", FS: 4, MaxOpen: 1000, O: nr, Ops: []Op{ap("0123456789"), so(2), sz, rd(8, 0)}},
		{Kind: "multi", FS: 4, MaxOpen: 1000, O: nr, Ops: []Op{ap("0123456789"), so(2), sz, cl, re(nr), sz}},
		{Kind: "multi", FS: 4, MaxOpen: 1000, O: nr, Ops: []Op{ap("0123456789"), fl, so(9), ap("x"), rd(2, 8), cl, re(nr), sz}},
		// Copy moves the OS file position to the physical end of the file: the next flush must seek back
		{Kind: "single", O: nr, Ops: []Op{ap("aaaaaaaaaaXXXXXXXXXX"), fl, so(10), ap("BBBBB"), {K: "copy"}, ap("CCCCC"), fl, rd(20, 0)}},
		{Kind: "single", Prealloc: 8, O: nr, Ops: []Op{so(0), ap("abc"), {K: "copy"}, ap("de"), fl, rd(8, 0)}},
		{Kind: "multi", FS: 4, MaxOpen: 1000, O: nr, Ops: []Op{ap("0123456789"), {K: "copy"}, so(6), ap("x"), {K: "copy"}, rd(7, 0)}},
		// the stale chunk files are reached by a read that starts beyond, or runs past, the current chunk
		{Kind: "multi", FS: 4, MaxOpen: 1000, O: nr, Ops: []Op{ap("0123456789"), so(2), rd(2, 4)}},
		{Kind: "multi", FS: 4, MaxOpen: 1000, O: nr, Ops: []Op{ap("0123456789"), so(2), ap("xy"), rd(8, 0)}},
		{Kind: "multi", FS: 4, Prealloc: 1, MaxOpen: 1000, O: nr, Ops: []Op{ap("0123456789"), so(6), ap("xy"), rd(8, 4)}},
	}
}

// tempBase: a private temp dir, on tmpfs when there is one (every Open / chunk creation fsyncs the
// file and its directory, which is what dominates the run time on a disk)
func tempBase() (string, error) {
	if st, err := os.Stat("/dev/shm"); err == nil && st.IsDir() {
		if d, err := os.MkdirTemp("/dev/shm", "vh-c17-"); err == nil {
			return d, nil
		}
	}
	return os.MkdirTemp("", "vh-c17-")
}

func Gen(r *vk.Run, n int) error {
	base, err := tempBase()
	if err != nil {
		return err
	}
	defer os.RemoveAll(base)
	rn := &runner{r: r, base: base, seen: map[string]bool{}}
	for _, c := range directed() {
		c := c
		if err := rn.session(&c, c.Kind+"/directed", nil); err != nil {
			return err
		}
	}
	for i := 0; r.N < n; i++ {
		kind, stream := "single", "plain"
		switch i % 20 {
		case 0, 1, 2, 3, 4, 5, 6:
		case 7:
			stream = "prealloc"
		case 8, 9, 10, 11, 12, 13, 14, 15:
			kind = "multi"
		case 16:
			kind, stream = "multi", "prealloc"
		default:
			kind, stream = "multi", "evict"
		}
		if err := rn.random(kind, stream); err != nil {
			return err
		}
	}
	return nil
}

// Replay re-runs one recorded case (its operation list) on the implementation.
func Replay(r *vk.Run, cm map[string]any) error {
	b, _ := json.Marshal(cm)
	var c Case
	if err := json.Unmarshal(b, &c); err != nil {
		return err
	}
	base, err := tempBase()
	if err != nil {
		return err
	}
	defer os.RemoveAll(base)
	rn := &runner{r: r, base: base, seen: map[string]bool{}}
	return rn.session(&c, c.Kind+"/replay", nil)
}
