// Package c12: correspondence cases and direct constraint checks for C12 (SQL integrity
// constraints hold in every reachable state).  A case is a random DDL/DML history issued by one or
// two sessions under a harness-chosen schedule against the real sql.Engine over a real store in a
// temporary directory.  After every event the whole table is read back through the primary index:
// (a) recorded for Tie.C12.case_ok to compare with the Coq model, (b) checked directly against
// every declared constraint (r.Finding on violation).
package c12

import (
	"context"
	"encoding/hex"
	"encoding/json"
	"errors"
	"fmt"
	"io"
	"os"
	"strings"
	"time"

	"github.com/codenotary/immudb/embedded/logger"
	"github.com/codenotary/immudb/embedded/sql"
	"github.com/codenotary/immudb/embedded/store"
	"verif/harness/vk"
)

// ---------- history language (mirrors SQLCons/Model.v) ----------

type Val struct {
	K int    `json:"k"` // 0 NULL, 1 integer, 2 string
	I int64  `json:"i,omitempty"`
	S string `json:"s,omitempty"`
}

func VNull() Val           { return Val{K: 0} }
func VInt(i int64) Val     { return Val{K: 1, I: i} }
func VStr(s string) Val    { return Val{K: 2, S: s} }
func (v Val) IsNull() bool { return v.K == 0 }

func (v Val) SQL() string {
	switch v.K {
	case 1:
		return fmt.Sprintf("%d", v.I)
	case 2:
		return "'" + v.S + "'"
	}
	return "NULL"
}
func (v Val) Coq() string {
	switch v.K {
	case 1:
		if v.I < 0 {
			return fmt.Sprintf("(VI (%d))", v.I)
		}
		return fmt.Sprintf("(VI %d)", v.I)
	case 2:
		return `(VS "` + hex.EncodeToString([]byte(v.S)) + `")`
	}
	return "VN"
}
func (v Val) Eq(o Val) bool { return v.K == o.K && v.I == o.I && v.S == o.S }
func (v Val) Key() string   { return fmt.Sprintf("%d:%d:%s", v.K, v.I, v.S) }

type InsRow struct {
	HasID bool `json:"hasid"`
	ID    Val  `json:"id"`
	V     Val  `json:"v"`
	S     Val  `json:"s"`
}

// Stmt kinds: "ins" (Mode insert|upsert|nothing|doupdate), "upd", "del"
type Stmt struct {
	Kind  string   `json:"kind"`
	Mode  string   `json:"mode,omitempty"`
	Rows  []InsRow `json:"rows,omitempty"`
	OmitV bool     `json:"omitv,omitempty"` // column v left out of the column list (all rows NULL there)
	OmitS bool     `json:"omits,omitempty"`
	ColV  bool     `json:"colv,omitempty"` // SET v = X (else SET s = X); also for DO UPDATE
	X     Val      `json:"x"`
	Where string   `json:"where,omitempty"` // "" (all rows), "id"
	WK    int64    `json:"wk,omitempty"`
}

type Event struct {
	Sid    int    `json:"sid"`
	Act    string `json:"act"` // begin stmt commit rollback auto ddl
	Stmts  []Stmt `json:"stmts,omitempty"`
	Unique bool   `json:"unique,omitempty"`
	Comp   bool   `json:"comp,omitempty"` // with Unique: the composite index on (v, s) (set from Cfg.UComp)
}

type Cfg struct {
	AutoInc bool `json:"autoinc"`
	NotNull bool `json:"notnull"`
	MaxLen  int  `json:"maxlen"`
	Check   bool `json:"check"`
	UComp   bool `json:"ucomp"` // the UNIQUE index is the composite one on (v, s)
}

func zc(i int64) string {
	if i < 0 {
		return fmt.Sprintf("(%d)", i)
	}
	return fmt.Sprintf("%d", i)
}

func (s Stmt) whereSQL() string {
	switch s.Where {
	case "id":
		return fmt.Sprintf(" WHERE id = %d", s.WK)
	}
	return ""
}
func (s Stmt) whereCoq() string {
	switch s.Where {
	case "id":
		return "(WId " + zc(s.WK) + ")"
	}
	return "WAll"
}
func setCol(colv bool) string {
	if colv {
		return "v"
	}
	return "s"
}

func (s Stmt) SQL() string {
	switch s.Kind {
	case "ins":
		cols := []string{}
		hasID := len(s.Rows) > 0 && s.Rows[0].HasID
		if hasID {
			cols = append(cols, "id")
		}
		if !s.OmitV {
			cols = append(cols, "v")
		}
		if !s.OmitS {
			cols = append(cols, "s")
		}
		var rows []string
		for _, r := range s.Rows {
			vals := []string{}
			if hasID {
				vals = append(vals, r.ID.SQL())
			}
			if !s.OmitV {
				vals = append(vals, r.V.SQL())
			}
			if !s.OmitS {
				vals = append(vals, r.S.SQL())
			}
			rows = append(rows, "("+strings.Join(vals, ", ")+")")
		}
		verb := "INSERT"
		if s.Mode == "upsert" {
			verb = "UPSERT"
		}
		q := fmt.Sprintf("%s INTO t(%s) VALUES %s", verb, strings.Join(cols, ", "), strings.Join(rows, ", "))
		switch s.Mode {
		case "nothing":
			q += " ON CONFLICT DO NOTHING"
		case "doupdate":
			q += fmt.Sprintf(" ON CONFLICT DO UPDATE SET %s = %s", setCol(s.ColV), s.X.SQL())
		}
		return q
	case "upd":
		return fmt.Sprintf("UPDATE t SET %s = %s%s", setCol(s.ColV), s.X.SQL(), s.whereSQL())
	case "del":
		return "DELETE FROM t" + s.whereSQL()
	}
	return ""
}

func (s Stmt) Coq() string {
	switch s.Kind {
	case "ins":
		var rows []string
		for _, r := range s.Rows {
			id := "None"
			if r.HasID {
				id = "(Some " + r.ID.Coq() + ")"
			}
			rows = append(rows, fmt.Sprintf("Rw %s %s %s", id, r.V.Coq(), r.S.Coq()))
		}
		m := "MInsert"
		switch s.Mode {
		case "upsert":
			m = "MUpsert"
		case "nothing":
			m = "MDoNothing"
		case "doupdate":
			m = fmt.Sprintf("(MDoUpdate %s %s)", vk.Bool(s.ColV), s.X.Coq())
		}
		return fmt.Sprintf("SIns %s %s", m, vk.List(rows))
	case "upd":
		return fmt.Sprintf("SUpd %s %s %s", s.whereCoq(), vk.Bool(s.ColV), s.X.Coq())
	case "del":
		return "SDel " + s.whereCoq()
	}
	return ""
}

func (e Event) SQL() string {
	switch e.Act {
	case "begin":
		return "BEGIN TRANSACTION"
	case "commit":
		return "COMMIT"
	case "rollback":
		return "ROLLBACK"
	case "ddl":
		if e.Unique && e.Comp {
			return "CREATE UNIQUE INDEX ON t(v, s)"
		}
		if e.Unique {
			return "CREATE UNIQUE INDEX ON t(v)"
		}
		return "CREATE INDEX ON t(s)"
	}
	var ss []string
	for _, s := range e.Stmts {
		ss = append(ss, s.SQL())
	}
	return strings.Join(ss, "; ")
}

func (e Event) Coq() string {
	var a string
	switch e.Act {
	case "begin":
		a = "ABegin"
	case "commit":
		a = "ACommit"
	case "rollback":
		a = "ARollback"
	case "ddl":
		a = "ADdl " + vk.Bool(e.Unique)
	case "stmt":
		a = "AStmt (" + e.Stmts[0].Coq() + ")"
	case "auto":
		var ss []string
		for _, s := range e.Stmts {
			ss = append(ss, s.Coq())
		}
		a = "AAuto " + vk.List(ss)
	}
	return fmt.Sprintf("(%d, %s)", e.Sid, a)
}

func (c Cfg) CreateSQL() string {
	id := "id INTEGER"
	if c.AutoInc {
		id += " AUTO_INCREMENT"
	}
	v := "v INTEGER"
	if c.NotNull {
		v += " NOT NULL"
	}
	q := fmt.Sprintf("CREATE TABLE t(%s, %s, s VARCHAR[%d], PRIMARY KEY id", id, v, c.MaxLen)
	if c.Check {
		q += ", CHECK (v >= 0)"
	}
	return q + ")"
}
func (c Cfg) Coq() string {
	return fmt.Sprintf("(Cf %s %s %d %s %s)", vk.Bool(c.AutoInc), vk.Bool(c.NotNull), c.MaxLen, vk.Bool(c.Check), vk.Bool(c.UComp))
}

// ---------- execution on the real engine ----------

type TRow struct {
	ID int64 `json:"id"`
	V  Val   `json:"v"`
	S  Val   `json:"s"`
}

func rowsEq(a, b []TRow) bool {
	if len(a) != len(b) {
		return false
	}
	for i := range a {
		if a[i].ID != b[i].ID || !a[i].V.Eq(b[i].V) || !a[i].S.Eq(b[i].S) {
			return false
		}
	}
	return true
}

type Obs struct {
	OK   bool   `json:"ok"`
	Err  string `json:"err,omitempty"`
	Rows []TRow `json:"rows"`
}

type env struct {
	ctx      context.Context
	cancel   context.CancelFunc
	dir      string
	st       *store.ImmuStore
	e        *sql.Engine
	tableID  uint32
	uniqueID uint32
}

func newEnv() (*env, error) {
	dir, err := os.MkdirTemp("", "vh-c12-")
	if err != nil {
		return nil, err
	}
	opts := store.DefaultOptions().WithMultiIndexing(true).WithSynced(false).
		WithLogger(logger.NewSimpleLoggerWithLevel("vh", io.Discard, logger.LogError))
	st, err := store.Open(dir, opts)
	if err != nil {
		os.RemoveAll(dir)
		return nil, err
	}
	e, err := sql.NewEngine(st, sql.DefaultOptions().WithPrefix([]byte("sql")))
	if err != nil {
		st.Close()
		os.RemoveAll(dir)
		return nil, err
	}
	ctx, cancel := context.WithCancel(context.Background())
	return &env{ctx: ctx, cancel: cancel, dir: dir, st: st, e: e}, nil
}
func (v *env) close() {
	v.cancel()
	done := make(chan struct{})
	go func() { v.st.Close(); close(done) }()
	select {
	case <-done:
	case <-time.After(callTimeout):
	}
	os.RemoveAll(v.dir)
}

// every call into the engine is bounded: a stuck indexer (an entry it cannot map) would otherwise
// block the next snapshot forever
const callTimeout = 20 * time.Second

var errHang = errors.New("HANG: the engine did not answer within the time limit")

func (v *env) exec(tx *sql.SQLTx, q string) (ntx *sql.SQLTx, err error) {
	type res struct {
		ntx *sql.SQLTx
		err error
	}
	ch := make(chan res, 1)
	go func() {
		defer func() {
			if r := recover(); r != nil {
				ch <- res{nil, fmt.Errorf("PANIC: %v", r)}
			}
		}()
		// the case-wide context: a transaction opened by BEGIN keeps using it in later calls
		n, _, e := v.e.Exec(v.ctx, tx, q, nil)
		ch <- res{n, e}
	}()
	select {
	case r := <-ch:
		return r.ntx, r.err
	case <-time.After(callTimeout):
		v.cancel() // releases whatever the call is blocked on; the case is abandoned
		return nil, errHang
	}
}

func toVal(tv sql.TypedValue) (Val, error) {
	if tv.IsNull() {
		return VNull(), nil
	}
	switch x := tv.RawValue().(type) {
	case int64:
		return VInt(x), nil
	case string:
		return VStr(x), nil
	}
	return Val{}, fmt.Errorf("unexpected value type %T", tv.RawValue())
}

// table read back through the primary index by a fresh read-only transaction
func (v *env) table() ([]TRow, error) {
	ctx, cancel := context.WithTimeout(context.Background(), callTimeout)
	defer cancel()
	rd, err := v.e.Query(ctx, nil, "SELECT id, v, s FROM t", nil)
	if err != nil {
		if ctx.Err() != nil {
			return nil, errHang
		}
		return nil, err
	}
	defer rd.Close()
	var out []TRow
	for {
		row, err := rd.Read(ctx)
		if errors.Is(err, sql.ErrNoMoreRows) {
			break
		}
		if err != nil {
			if ctx.Err() != nil {
				return nil, errHang
			}
			return nil, err
		}
		id, ok := row.ValuesByPosition[0].RawValue().(int64)
		if !ok {
			return nil, fmt.Errorf("primary key is not an integer: %v", row.ValuesByPosition[0].RawValue())
		}
		vv, err := toVal(row.ValuesByPosition[1])
		if err != nil {
			return nil, err
		}
		sv, err := toVal(row.ValuesByPosition[2])
		if err != nil {
			return nil, err
		}
		out = append(out, TRow{id, vv, sv})
	}
	return out, nil
}

// historyValues lists every value some statement of the history can store in column v
func historyValues(evs []Event) []Val {
	seen := map[string]bool{}
	out := []Val{}
	add := func(x Val) {
		if x.K == 2 {
			return
		}
		if !seen[x.Key()] {
			seen[x.Key()] = true
			out = append(out, x)
		}
	}
	add(VNull())
	for _, ev := range evs {
		for _, s := range ev.Stmts {
			for _, r := range s.Rows {
				add(r.V)
			}
			if s.ColV {
				add(s.X)
			}
		}
	}
	return out
}

// indexPrefix returns the key prefix of the primary index (primary=true) or of the UNIQUE index on v
// extended with the encoded value x.
func (v *env) indexPrefix(primary bool, x Val) []byte {
	if v.tableID == 0 || (!primary && v.uniqueID == 0) {
		ctx := context.Background()
		tx, err := v.e.NewTx(ctx, sql.DefaultTxOptions().WithReadOnly(true))
		if err != nil {
			return nil
		}
		table, err := tx.Catalog().GetTableByName("t")
		tx.Cancel()
		if err != nil {
			return nil
		}
		v.tableID = table.ID()
		for _, i := range table.GetIndexes() {
			if i.IsUnique() && !i.IsPrimary() {
				v.uniqueID = i.ID()
			}
		}
	}
	if primary {
		return sql.MapKey([]byte("sql"), sql.MappedPrefix, sql.EncodeID(v.tableID), sql.EncodeID(0))
	}
	if v.uniqueID == 0 {
		return nil
	}
	var raw interface{}
	if x.K == 1 {
		raw = x.I
	}
	enc, _, err := sql.EncodeRawValueAsKey(raw, sql.IntegerType, 8)
	if err != nil {
		return nil
	}
	return sql.MapKey([]byte("sql"), sql.MappedPrefix, sql.EncodeID(v.tableID), sql.EncodeID(v.uniqueID), enc)
}

// firstIsTomb looks at the store's index directly (no filters): is the first entry under the
// primary-index prefix / under the unique index's prefix for value x a deleted entry?
func (v *env) firstIsTomb(primary bool, x Val) bool {
	ctx := context.Background()
	prefix := v.indexPrefix(primary, x)
	if prefix == nil {
		return false
	}
	snap, err := v.st.SnapshotMustIncludeTxID(ctx, prefix, v.st.LastPrecommittedTxID())
	if err != nil {
		return false
	}
	defer snap.Close()
	_, ref, err := snap.GetWithPrefixAndFilters(ctx, prefix, nil)
	if err != nil {
		return false
	}
	return ref.KVMetadata() != nil && ref.KVMetadata().Deleted()
}

// ---------- direct checks of the property statement on the implementation ----------

const (
	// signatures of the defects repaired by c876bb2 / 12bf3b7 / a77403f (known_findings/C12.json lists them as
	// fixed): a recurrence is reported under these texts and is a VIOLATION
	fTombUnique = "UNIQUE index on t(v) holds duplicate live rows: the first index entry under the value prefix is a tombstone (doUpsert checks only the first key returned by getWithPrefix)"
	fTombCreate = "CREATE UNIQUE INDEX accepted on a non-empty table: the first primary-index entry is a tombstone (CreateIndexStmt checks only the first key returned by getWithPrefix)"
	fNullUpdate = "NOT NULL column v holds NULL after UPDATE ... SET v = NULL (UpdateStmt.execAt has no NOT NULL check)"
	fNullDoUpd  = "NOT NULL column v holds NULL after INSERT ... ON CONFLICT DO UPDATE SET v = NULL (no NOT NULL check on the DO UPDATE path)"
	fCheckDoUpd = "CHECK (v >= 0) is false after INSERT ... ON CONFLICT DO UPDATE SET v = ... (constraints are not re-checked on the DO UPDATE path)"
)

type checker struct {
	cfg    Cfg
	unique bool // a UNIQUE index on v has been created
	// firstIsTomb reports whether the first entry under the primary-index prefix (primary=true) or
	// under the unique index's prefix for value v is a tombstone, read from the store without filters
	firstIsTomb func(primary bool, v Val) bool
	vals        []Val             // every value the history can store in v
	tombFirst   []map[string]bool // per event: values whose first unique-index entry was a tombstone before it
	begin       map[int]int       // per session: index of the event that opened its transaction
}

// ukey: the value of a row under the UNIQUE index, (v) or (v, s)
func (ck *checker) ukey(r TRow) string {
	if ck.cfg.UComp {
		return r.V.Key() + "|" + r.S.Key()
	}
	return r.V.Key()
}

func describe(cfg Cfg, evs []Event, upto int) string {
	var sb strings.Builder
	sb.WriteString(cfg.CreateSQL())
	for i := 0; i <= upto && i < len(evs); i++ {
		fmt.Fprintf(&sb, "; [s%d] %s", evs[i].Sid, evs[i].SQL())
	}
	return sb.String()
}

func stmtsHave(ss []Stmt, f func(Stmt) bool) bool {
	for _, s := range ss {
		if f(s) {
			return true
		}
	}
	return false
}

// check compares the table before and after an event with the declared constraints; `stmts` are
// the statements whose effects the event made visible (for a COMMIT: those of the transaction).
func (ck *checker) check(idx int, ev Event, stmts []Stmt, ok bool, before, after []TRow, where string) []string {
	var out []string
	add := func(s string) { out = append(out, "C12 "+s+" | history: "+where) }
	if !ok && !rowsEq(before, after) {
		add(fmt.Sprintf("a failed event changed the table (%v -> %v)", before, after))
	}
	old := map[int64]TRow{}
	for _, r := range before {
		old[r.ID] = r
	}
	seen := map[int64]bool{}
	for _, r := range after {
		if seen[r.ID] {
			add(fmt.Sprintf("duplicate primary key %d among live rows", r.ID))
		}
		seen[r.ID] = true
		o, had := old[r.ID]
		vChanged := !had || !o.V.Eq(r.V)
		sChanged := !had || !o.S.Eq(r.S)
		if vChanged && r.V.K == 2 {
			add(fmt.Sprintf("INTEGER column v holds a string in row %d", r.ID))
		}
		if sChanged && r.S.K == 1 {
			add(fmt.Sprintf("VARCHAR column s holds an integer in row %d", r.ID))
		}
		if sChanged && r.S.K == 2 && len(r.S.S) > ck.cfg.MaxLen {
			add(fmt.Sprintf("VARCHAR[%d] column s holds %q in row %d", ck.cfg.MaxLen, r.S.S, r.ID))
		}
		if vChanged && ck.cfg.NotNull && r.V.IsNull() {
			switch {
			case stmtsHave(stmts, func(s Stmt) bool { return s.Kind == "upd" && s.ColV && s.X.IsNull() }):
				add(fNullUpdate + fmt.Sprintf(" row %d", r.ID))
			case stmtsHave(stmts, func(s Stmt) bool { return s.Kind == "ins" && s.Mode == "doupdate" && s.ColV && s.X.IsNull() }):
				add(fNullDoUpd + fmt.Sprintf(" row %d", r.ID))
			default:
				add(fmt.Sprintf("NOT NULL column v holds NULL in row %d", r.ID))
			}
		}
		if vChanged && ck.cfg.Check && (r.V.K != 1 || r.V.I < 0) {
			if stmtsHave(stmts, func(s Stmt) bool {
				return s.Kind == "ins" && s.Mode == "doupdate" && s.ColV && (s.X.K != 1 || s.X.I < 0)
			}) {
				add(fCheckDoUpd + fmt.Sprintf(" row %d v=%s", r.ID, r.V.SQL()))
			} else {
				add(fmt.Sprintf("CHECK (v >= 0) is false in row %d (v=%s)", r.ID, r.V.SQL()))
			}
		}
	}
	// plain INSERTs never modify or remove existing rows (auto-generated keys included)
	if ok && (ev.Act == "auto" || ev.Act == "stmt") && !stmtsHave(stmts, func(s Stmt) bool {
		return !(s.Kind == "ins" && (s.Mode == "insert" || s.Mode == "nothing"))
	}) {
		now := map[int64]TRow{}
		for _, r := range after {
			now[r.ID] = r
		}
		for _, o := range before {
			n, has := now[o.ID]
			if !has || !n.V.Eq(o.V) || !n.S.Eq(o.S) {
				add(fmt.Sprintf("INSERT changed or removed the existing row %d (auto-generated or explicit key collided)", o.ID))
			}
		}
	}
	// UNIQUE index
	createdNow := ev.Act == "ddl" && ev.Unique && ok
	if createdNow {
		ck.unique = true
		if len(after) > 0 {
			if ck.firstIsTomb != nil && ck.firstIsTomb(true, Val{}) {
				add(fTombCreate + fmt.Sprintf(" (%d live rows)", len(after)))
			} else {
				add(fmt.Sprintf("CREATE UNIQUE INDEX accepted on a non-empty table (%d live rows)", len(after)))
			}
		}
	}
	if ck.unique {
		byVal := map[string][]int64{}
		for _, r := range after {
			byVal[ck.ukey(r)] = append(byVal[ck.ukey(r)], r.ID)
		}
		oldBy := map[string]int{}
		for _, r := range before {
			oldBy[ck.ukey(r)]++
		}
		for k, ids := range byVal {
			if len(ids) < 2 {
				continue
			}
			if !createdNow && oldBy[k] >= len(ids) && rowsEq(before, after) {
				continue // already reported when it appeared
			}
			if createdNow {
				continue // reported through fTombCreate above
			}
			if oldBy[k] >= len(ids) {
				continue
			}
			// signature of the known defect: when the statement that made the duplicate ran (at some
			// point since its transaction began), the first index entry under the value prefix was
			// a tombstone
			from := idx
			if b, ok := ck.begin[ev.Sid]; ok && ev.Act == "commit" {
				from = b
			}
			shadow := false
			for j := from; j <= idx && j < len(ck.tombFirst); j++ {
				if ck.tombFirst[j][k] {
					shadow = true
				}
			}
			if shadow {
				add(fTombUnique + fmt.Sprintf(" value %s rows %v", k, ids))
			} else {
				on := "t(v)"
				if ck.cfg.UComp {
					on = "t(v, s)"
				}
				add(fmt.Sprintf("UNIQUE index on %s holds duplicate live rows: value %s rows %v", on, k, ids))
			}
		}
	}
	return out
}

// runHistory executes the history, returns the observations and the direct findings.
func runHistory(cfg Cfg, evs []Event) ([]Obs, []string, error) {
	v, err := newEnv()
	if err != nil {
		return nil, nil, err
	}
	defer v.close()
	if _, err := v.exec(nil, cfg.CreateSQL()); err != nil {
		return nil, nil, fmt.Errorf("create table: %w", err)
	}
	ck := &checker{cfg: cfg, firstIsTomb: v.firstIsTomb}
	txs := map[int]*sql.SQLTx{}
	pending := map[int][]Stmt{}
	var obs []Obs
	var findings []string
	before, err := v.table()
	if err != nil {
		return nil, nil, err
	}
	ck.vals = historyValues(evs)
	ck.begin = map[int]int{}
	for i, ev := range evs {
		tx := txs[ev.Sid]
		var err error
		var ntx *sql.SQLTx
		visible := ev.Stmts
		probe := map[string]bool{}
		if ck.unique && !cfg.UComp {
			for _, x := range ck.vals {
				if v.firstIsTomb(false, x) {
					probe[x.Key()] = true
				}
			}
		}
		ck.tombFirst = append(ck.tombFirst, probe)
		if ev.Act == "begin" {
			ck.begin[ev.Sid] = i
		} else if tx == nil {
			delete(ck.begin, ev.Sid)
		}
		switch ev.Act {
		case "begin":
			ntx, err = v.exec(nil, "BEGIN TRANSACTION")
			pending[ev.Sid] = nil
		case "stmt":
			ntx, err = v.exec(tx, ev.SQL())
			if tx != nil {
				pending[ev.Sid] = append(pending[ev.Sid], ev.Stmts...)
				visible = nil
			}
		case "commit", "rollback":
			if tx == nil {
				err = errors.New("no ongoing transaction")
			} else {
				ntx, err = v.exec(tx, ev.SQL())
			}
			if ev.Act == "commit" {
				visible = pending[ev.Sid]
			}
			pending[ev.Sid] = nil
		case "auto", "ddl":
			if tx != nil {
				// never generated; keep the session's transaction out of it
				err = errors.New("harness: autocommit event while a transaction is open")
				tx.Cancel()
			} else {
				ntx, err = v.exec(nil, ev.SQL())
			}
		}
		if err != nil {
			ntx = nil
			if tx != nil && !tx.Closed() {
				tx.Cancel()
			}
		}
		if ntx != nil && ntx.Closed() {
			ntx = nil
		}
		txs[ev.Sid] = ntx
		if err != nil && strings.HasPrefix(err.Error(), "PANIC") {
			findings = append(findings, "C12 panic: "+err.Error()+" | history: "+describe(cfg, evs, i))
		}
		if errors.Is(err, errHang) {
			findings = append(findings, "C12 engine hang: "+ev.SQL()+" did not return | history: "+describe(cfg, evs, i))
			return obs, findings, errHang
		}
		after, terr := v.table()
		if errors.Is(terr, errHang) {
			findings = append(findings, "C12 engine hang: the table cannot be read back after "+ev.SQL()+" (indexing stuck?) | history: "+describe(cfg, evs, i))
			return obs, findings, errHang
		}
		if terr != nil {
			return nil, nil, fmt.Errorf("read back: %w", terr)
		}
		o := Obs{OK: err == nil, Rows: after}
		if err != nil {
			o.Err = err.Error()
		}
		obs = append(obs, o)
		findings = append(findings, ck.check(i, ev, visible, err == nil, before, after, describe(cfg, evs, i))...)
		before = after
	}
	for _, tx := range txs {
		if tx != nil && !tx.Closed() {
			tx.Cancel()
		}
	}
	return obs, findings, nil
}

// ---------- case emission ----------

func rowsCoq(rows []TRow) string {
	var xs []string
	for _, r := range rows {
		xs = append(xs, fmt.Sprintf("Tb %s %s %s", zc(r.ID), r.V.Coq(), r.S.Coq()))
	}
	return vk.List(xs)
}

func emit(r *vk.Run, cfg Cfg, evs []Event, bucket string) error {
	for i := range evs {
		evs[i].Comp = evs[i].Act == "ddl" && evs[i].Unique && cfg.UComp
	}
	obs, findings, err := runHistory(cfg, evs)
	if errors.Is(err, errHang) {
		// reported as a finding; the case cannot be compared with the model
		for _, f := range findings {
			r.Finding(f)
		}
		r.Stats["hang"]++
		return nil
	}
	if err != nil {
		return err
	}
	var es, os_ []string
	var prev []TRow
	nerr, ncommit, nconf := 0, 0, 0
	for i, ev := range evs {
		es = append(es, ev.Coq())
		if rowsEq(prev, obs[i].Rows) {
			os_ = append(os_, "OSame "+vk.Bool(obs[i].OK))
		} else {
			os_ = append(os_, fmt.Sprintf("OTab %s %s", vk.Bool(obs[i].OK), rowsCoq(obs[i].Rows)))
			prev = obs[i].Rows
			ncommit++
		}
		if !obs[i].OK {
			nerr++
			if strings.Contains(obs[i].Err, "read conflict") {
				nconf++
			}
		}
	}
	seen := map[string]bool{}
	for _, f := range findings {
		if !seen[f] {
			seen[f] = true
			r.Finding(f)
		}
	}
	var sqls []string
	for _, ev := range evs {
		sqls = append(sqls, fmt.Sprintf("[s%d] %s", ev.Sid, ev.SQL()))
	}
	js := map[string]any{"cfg": cfg, "events": evs, "obs": obs, "viol": findings, "create": cfg.CreateSQL(), "sql": sqls}
	r.Case(fmt.Sprintf("CHist %s %s %s", cfg.Coq(), vk.List(es), vk.List(os_)), js, bucket,
		ncommit >= 2 && nerr >= 1)
	r.Stats["events"] += len(evs)
	r.Stats["events/failed"] += nerr
	r.Stats["events/read-conflict"] += nconf
	r.Stats["events/table-changed"] += ncommit
	return nil
}

func Replay(r *vk.Run, c map[string]any) error {
	b, _ := json.Marshal(c)
	var x struct {
		Cfg    Cfg     `json:"cfg"`
		Events []Event `json:"events"`
	}
	if err := json.Unmarshal(b, &x); err != nil {
		return err
	}
	return emit(r, x.Cfg, x.Events, "replay")
}
