package c12

// Wide stream (direct falsifier only, no Coq model): generalised schemas — 1-2 tables, composite
// primary keys, 2-3 INTEGER value columns (NOT NULL, DEFAULT), composite [UNIQUE] indexes, ALTER TABLE
// ADD / DROP / RENAME COLUMN — driven by 2-3 sessions with DDL in its own autocommit transactions
// interleaved with open (idle, read-only or writing) transactions.  The oracle checks the tables read
// back from the engine against the constraints DECLARED so far, tracked by the harness itself from
// the DDL statements the engine accepted (never from the engine's catalog).  The table is not read
// back after every event: a read-only transaction warms the engine's catalog cache and would hide
// defects of the cold-cache paths.

import (
	"context"
	"errors"
	"fmt"
	"math/rand"
	"os"
	"sort"
	"strings"

	"github.com/codenotary/immudb/embedded/sql"
	"verif/harness/vk"
)

type wcol struct {
	Name    string
	NotNull bool
	Default *int64
}
type wtable struct {
	Name    string
	PK      []string
	Cols    []*wcol    // primary-key columns first
	Uniques [][]string // declared UNIQUE indexes
	Indexes [][]string // declared non-unique indexes
}

func (t *wtable) col(n string) *wcol {
	for _, c := range t.Cols {
		if c.Name == n {
			return c
		}
	}
	return nil
}
func (t *wtable) isPK(n string) bool {
	for _, p := range t.PK {
		if p == n {
			return true
		}
	}
	return false
}
func (t *wtable) indexed(n string) bool {
	for _, ix := range append(append([][]string{}, t.Uniques...), t.Indexes...) {
		for _, c := range ix {
			if c == n {
				return true
			}
		}
	}
	return t.isPK(n)
}
func (t *wtable) createSQL() string {
	var cs []string
	for _, c := range t.Cols {
		s := c.Name + " INTEGER"
		if c.NotNull && !t.isPK(c.Name) {
			s += " NOT NULL"
		}
		cs = append(cs, s)
	}
	pk := t.PK[0]
	if len(t.PK) > 1 {
		pk = "(" + strings.Join(t.PK, ", ") + ")"
	}
	return fmt.Sprintf("CREATE TABLE %s(%s, PRIMARY KEY %s)", t.Name, strings.Join(cs, ", "), pk)
}

type wrow []*int64 // one cell per column of the tracked schema, nil = NULL

func cellStr(c *int64) string {
	if c == nil {
		return "NULL"
	}
	return fmt.Sprintf("%d", *c)
}
func (r wrow) String() string {
	var xs []string
	for _, c := range r {
		xs = append(xs, cellStr(c))
	}
	return "(" + strings.Join(xs, ",") + ")"
}

type wide struct {
	rng    *rand.Rand
	v      *env
	tables []*wtable
	log    []string // executed SQL, for the finding text
	txs    map[int]*sql.SQLTx
	names  int
}

func (w *wide) history() string { return strings.Join(w.log, "; ") }

func (w *wide) exec(sid int, q string) error {
	tx := w.txs[sid]
	ntx, err := w.v.exec(tx, q)
	st := "ok"
	if err != nil {
		st = "ERR " + err.Error()
		if tx != nil && !tx.Closed() {
			tx.Cancel()
		}
		ntx = nil
	}
	if ntx != nil && ntx.Closed() {
		ntx = nil
	}
	w.txs[sid] = ntx
	w.log = append(w.log, fmt.Sprintf("[s%d] %s => %s", sid, q, st))
	return err
}

// a SELECT inside the session's open transaction (an idle / read-only use of a read-write tx)
func (w *wide) selectInTx(sid int, t *wtable) {
	tx := w.txs[sid]
	if tx == nil {
		return
	}
	q := "SELECT " + t.PK[0] + " FROM " + t.Name
	rd, err := w.v.e.Query(w.v.ctx, tx, q, nil)
	if err == nil {
		for {
			if _, e := rd.Read(w.v.ctx); e != nil {
				break
			}
		}
		rd.Close()
	}
	w.log = append(w.log, fmt.Sprintf("[s%d] %s (in tx) => %v", sid, q, err))
}

func (w *wide) read(t *wtable) ([]wrow, error) {
	ctx, cancel := context.WithTimeout(context.Background(), callTimeout)
	defer cancel()
	var names []string
	for _, c := range t.Cols {
		names = append(names, c.Name)
	}
	rd, err := w.v.e.Query(ctx, nil, "SELECT "+strings.Join(names, ", ")+" FROM "+t.Name, nil)
	if err != nil {
		return nil, err
	}
	defer rd.Close()
	var out []wrow
	for {
		row, err := rd.Read(ctx)
		if errors.Is(err, sql.ErrNoMoreRows) {
			break
		}
		if err != nil {
			return nil, err
		}
		r := make(wrow, len(t.Cols))
		for i, tv := range row.ValuesByPosition {
			if tv.IsNull() {
				continue
			}
			x, ok := tv.RawValue().(int64)
			if !ok {
				return nil, fmt.Errorf("column %s holds a %T", t.Cols[i].Name, tv.RawValue())
			}
			y := x
			r[i] = &y
		}
		out = append(out, r)
	}
	return out, nil
}

func tupleKey(t *wtable, r wrow, cols []string) string {
	var xs []string
	for _, n := range cols {
		for i, c := range t.Cols {
			if c.Name == n {
				xs = append(xs, cellStr(r[i]))
			}
		}
	}
	return strings.Join(xs, "|")
}

// oracle: the declared constraints on what the engine returns
func (w *wide) check(t *wtable, rows []wrow) []string {
	var out []string
	seen := map[string]bool{}
	for _, r := range rows {
		k := tupleKey(t, r, t.PK)
		if seen[k] {
			out = append(out, fmt.Sprintf("table %s: duplicate primary key (%s)", t.Name, k))
		}
		seen[k] = true
		for i, c := range t.Cols {
			if r[i] == nil && (c.NotNull || t.isPK(c.Name)) {
				out = append(out, fmt.Sprintf("table %s: NOT NULL column %s holds NULL in row %s", t.Name, c.Name, r))
			}
		}
	}
	for _, u := range t.Uniques {
		seenU := map[string]wrow{}
		for _, r := range rows {
			k := tupleKey(t, r, u)
			if o, dup := seenU[k]; dup {
				out = append(out, fmt.Sprintf("table %s: UNIQUE index on (%s) holds duplicate live rows %s and %s", t.Name, strings.Join(u, ", "), o, r))
			}
			seenU[k] = r
		}
	}
	return out
}

func rowsSame(a, b []wrow) bool {
	if len(a) != len(b) {
		return false
	}
	for i := range a {
		if a[i].String() != b[i].String() {
			return false
		}
	}
	return true
}

// ---------- generation ----------

func (w *wide) val() string {
	switch w.rng.Intn(8) {
	case 0:
		return "NULL"
	default:
		return fmt.Sprintf("%d", 1+w.rng.Intn(3))
	}
}
func (w *wide) pkWhere(t *wtable) string {
	var cs []string
	for _, p := range t.PK {
		cs = append(cs, fmt.Sprintf("%s = %d", p, 1+w.rng.Intn(3)))
	}
	return " WHERE " + strings.Join(cs, " AND ")
}

func (w *wide) dml(t *wtable) string {
	var nonpk []*wcol
	for _, c := range t.Cols {
		if !t.isPK(c.Name) {
			nonpk = append(nonpk, c)
		}
	}
	switch x := w.rng.Intn(10); {
	case x < 5 || len(nonpk) == 0:
		verb, tail := "INSERT", ""
		switch w.rng.Intn(6) {
		case 0, 1:
			verb = "UPSERT"
		case 2:
			tail = " ON CONFLICT DO NOTHING"
		}
		var names, vals []string
		for _, c := range t.Cols {
			if !t.isPK(c.Name) && w.rng.Intn(6) == 0 {
				continue // left to NULL / DEFAULT
			}
			names = append(names, c.Name)
			if t.isPK(c.Name) {
				vals = append(vals, fmt.Sprintf("%d", 1+w.rng.Intn(3)))
			} else {
				vals = append(vals, w.val())
			}
		}
		return fmt.Sprintf("%s INTO %s(%s) VALUES (%s)%s", verb, t.Name, strings.Join(names, ", "), strings.Join(vals, ", "), tail)
	case x < 8:
		c := nonpk[w.rng.Intn(len(nonpk))]
		wh := ""
		if w.rng.Intn(5) > 0 {
			wh = w.pkWhere(t)
		}
		return fmt.Sprintf("UPDATE %s SET %s = %s%s", t.Name, c.Name, w.val(), wh)
	default:
		wh := w.pkWhere(t)
		if w.rng.Intn(8) == 0 {
			wh = ""
		}
		return "DELETE FROM " + t.Name + wh
	}
}

// ddl returns the statement and the change to apply to the tracked catalog when the engine accepts it
func (w *wide) ddl(t *wtable) (string, func()) {
	var nonpk []*wcol
	for _, c := range t.Cols {
		if !t.isPK(c.Name) {
			nonpk = append(nonpk, c)
		}
	}
	pickCols := func() []string {
		n := 1 + w.rng.Intn(2)
		perm := w.rng.Perm(len(nonpk))
		var cs []string
		for i := 0; i < n && i < len(perm); i++ {
			cs = append(cs, nonpk[perm[i]].Name)
		}
		return cs
	}
	switch x := w.rng.Intn(10); {
	case x < 4 && len(nonpk) > 0:
		cs := pickCols()
		uq := w.rng.Intn(3) > 0
		kw := "INDEX"
		if uq {
			kw = "UNIQUE INDEX"
		}
		return fmt.Sprintf("CREATE %s ON %s(%s)", kw, t.Name, strings.Join(cs, ", ")), func() {
			if uq {
				t.Uniques = append(t.Uniques, cs)
			} else {
				t.Indexes = append(t.Indexes, cs)
			}
		}
	case x < 7:
		w.names++
		c := &wcol{Name: fmt.Sprintf("n%d", w.names)}
		s := fmt.Sprintf("ALTER TABLE %s ADD COLUMN %s INTEGER", t.Name, c.Name)
		if w.rng.Intn(2) == 0 {
			c.NotNull = true
			s += " NOT NULL"
		}
		if w.rng.Intn(2) == 0 {
			d := int64(1 + w.rng.Intn(3))
			c.Default = &d
			s += fmt.Sprintf(" DEFAULT %d", d)
		}
		return s, func() { t.Cols = append(t.Cols, c) }
	case x < 9 && len(nonpk) > 0:
		c := nonpk[w.rng.Intn(len(nonpk))]
		w.names++
		nn := fmt.Sprintf("r%d", w.names)
		old := c.Name
		return fmt.Sprintf("ALTER TABLE %s RENAME COLUMN %s TO %s", t.Name, old, nn), func() {
			c.Name = nn
			for _, ixs := range [][][]string{t.Uniques, t.Indexes} {
				for _, ix := range ixs {
					for i := range ix {
						if ix[i] == old {
							ix[i] = nn
						}
					}
				}
			}
		}
	default:
		if len(nonpk) == 0 {
			return "", nil
		}
		c := nonpk[w.rng.Intn(len(nonpk))]
		return fmt.Sprintf("ALTER TABLE %s DROP COLUMN %s", t.Name, c.Name), func() {
			var cols []*wcol
			for _, x := range t.Cols {
				if x != c {
					cols = append(cols, x)
				}
			}
			t.Cols = cols
		}
	}
}

func (w *wide) newTable(name string) *wtable {
	t := &wtable{Name: name}
	t.PK = []string{"id"}
	t.Cols = []*wcol{{Name: "id"}}
	if w.rng.Intn(3) == 0 {
		t.PK = append(t.PK, "g")
		t.Cols = append(t.Cols, &wcol{Name: "g"})
	}
	for _, n := range []string{"a", "b", "c"}[:2+w.rng.Intn(2)] {
		t.Cols = append(t.Cols, &wcol{Name: n, NotNull: w.rng.Intn(4) == 0})
	}
	return t
}

// observe reads every table back and runs the oracle; returns the findings
func (w *wide) observe(last map[string][]wrow, failed bool) []string {
	var out []string
	for _, t := range w.tables {
		rows, err := w.read(t)
		if err != nil {
			out = append(out, fmt.Sprintf("table %s cannot be read with its declared columns: %v", t.Name, err))
			continue
		}
		sort.Slice(rows, func(i, j int) bool { return rows[i].String() < rows[j].String() })
		out = append(out, w.check(t, rows)...)
		if prev, ok := last[t.Name]; ok && failed && !rowsSame(prev, rows) {
			out = append(out, fmt.Sprintf("table %s changed although every event since the last observation failed (%v -> %v)", t.Name, prev, rows))
		}
		last[t.Name] = rows
	}
	return out
}

type wstep struct {
	sid     int
	sql     string // "" with kind set
	kind    string // "", "select"
	table   int
	apply   func(w *wide) // catalog change when accepted
	observe bool
}

// scripted wide histories: the shapes behind composite unique indexes, ADD COLUMN NOT NULL on a
// populated table, and DDL committed while another session holds an idle transaction opened on a
// cold catalog cache
func scriptedWide() []struct {
	tables []*wtable
	steps  []wstep
} {
	tab := func(name string, cols ...string) *wtable {
		t := &wtable{Name: name, PK: []string{"id"}, Cols: []*wcol{{Name: "id"}}}
		for _, c := range cols {
			t.Cols = append(t.Cols, &wcol{Name: c})
		}
		return t
	}
	uq := func(cols ...string) func(w *wide) {
		return func(w *wide) { w.tables[0].Uniques = append(w.tables[0].Uniques, cols) }
	}
	addcol := func(name string, nn bool) func(w *wide) {
		return func(w *wide) { w.tables[0].Cols = append(w.tables[0].Cols, &wcol{Name: name, NotNull: nn}) }
	}
	return []struct {
		tables []*wtable
		steps  []wstep
	}{
		{[]*wtable{tab("t", "a", "b")}, []wstep{
			{sql: "CREATE UNIQUE INDEX ON t(a, b)", apply: uq("a", "b")},
			{sql: "INSERT INTO t(id, a, b) VALUES (1, 1, 1)"},
			{sql: "INSERT INTO t(id, a, b) VALUES (2, 2, 1)"},
			{sql: "UPDATE t SET a = 1 WHERE id = 2", observe: true},
			{sql: "UPSERT INTO t(id, a, b) VALUES (2, 1, 1)", observe: true},
			{sql: "UPDATE t SET b = 2 WHERE id = 2"},
			{sql: "UPDATE t SET a = 1 WHERE id = 2", observe: true},
			{sql: "UPDATE t SET b = 1 WHERE id = 2", observe: true},
		}},
		{[]*wtable{tab("t", "a")}, []wstep{
			{sql: "INSERT INTO t(id, a) VALUES (1, 1)"},
			{sql: "INSERT INTO t(id, a) VALUES (2, 2)"},
			{sql: "ALTER TABLE t ADD COLUMN x INTEGER NOT NULL DEFAULT 5", apply: addcol("x", true), observe: true},
			{sql: "UPDATE t SET a = 3 WHERE id = 1", observe: true},
			{sql: "ALTER TABLE t ADD COLUMN y INTEGER NOT NULL", apply: addcol("y", true), observe: true},
			{sql: "ALTER TABLE t ADD COLUMN z INTEGER DEFAULT 7", apply: addcol("z", false), observe: true},
		}},
		{[]*wtable{tab("t", "a")}, []wstep{
			{sid: 1, sql: "BEGIN TRANSACTION"},
			{sid: 1, kind: "select"},
			{sid: 2, sql: "CREATE UNIQUE INDEX ON t(a)", apply: uq("a")},
			{sid: 1, sql: "COMMIT"},
			{sid: 0, sql: "INSERT INTO t(id, a) VALUES (1, 10)"},
			{sid: 2, sql: "INSERT INTO t(id, a) VALUES (2, 10)", observe: true},
		}},
		{[]*wtable{tab("t", "a")}, []wstep{
			{sid: 1, sql: "BEGIN TRANSACTION"},
			{sid: 2, sql: "ALTER TABLE t ADD COLUMN x INTEGER", apply: addcol("x", false)},
			{sid: 1, sql: "COMMIT"},
			{sid: 0, sql: "INSERT INTO t(id, a, x) VALUES (1, 10, 3)", observe: true},
		}},
	}
}

func (w *wide) runStep(s wstep, last map[string][]wrow, failedSince *bool) []string {
	var err error
	if s.kind == "select" {
		w.selectInTx(s.sid, w.tables[s.table])
	} else {
		err = w.exec(s.sid, s.sql)
		if err == nil && s.apply != nil {
			s.apply(w)
		}
		if err == nil {
			*failedSince = false
		}
	}
	if errors.Is(err, errHang) {
		return []string{"engine hang: " + s.sql + " did not return"}
	}
	if s.observe {
		f := w.observe(last, *failedSince)
		*failedSince = true
		return f
	}
	return nil
}

func runWide(r *vk.Run, scripted int) error {
	v, err := newEnv()
	if err != nil {
		return err
	}
	defer v.close()
	w := &wide{rng: r.Rng, v: v, txs: map[int]*sql.SQLTx{}}
	last := map[string][]wrow{}
	failedSince := true
	report := func(fs []string) bool {
		for _, f := range fs {
			r.Finding("C12 wide: " + f + " | history: " + w.history())
		}
		return len(fs) > 0
	}
	finish := func() {
		if os.Getenv("C12_WIDE_DUMP") != "" {
			fmt.Fprintln(os.Stderr, "WIDE:", w.history())
		}
		for _, tx := range w.txs {
			if tx != nil && !tx.Closed() {
				tx.Cancel()
			}
		}
	}
	if scripted >= 0 {
		sc := scriptedWide()[scripted]
		w.tables = sc.tables
		for _, t := range w.tables {
			if err := w.exec(0, t.createSQL()); err != nil {
				return fmt.Errorf("wide create table: %w", err)
			}
		}
		for _, s := range sc.steps {
			if report(w.runStep(s, last, &failedSince)) {
				break
			}
		}
		finish()
		r.Stats["wide/scripted"]++
		r.Stats["wide/events"] += len(w.log)
		return nil
	}
	// random history
	w.tables = []*wtable{w.newTable("t")}
	if w.rng.Intn(3) == 0 {
		w.tables = append(w.tables, w.newTable("u"))
	}
	for _, t := range w.tables {
		if err := w.exec(0, t.createSQL()); err != nil {
			return fmt.Errorf("wide create table: %w", err)
		}
	}
	sessions := 2 + w.rng.Intn(2)
	steps := 12 + w.rng.Intn(20)
	// UNIQUE indexes can only be created on empty tables: often do it first, sometimes while another
	// session holds a transaction it opened before (on a cold catalog cache) and commits after
	for ti, t := range w.tables {
		if w.rng.Intn(3) == 0 {
			continue
		}
		idle := w.rng.Intn(3) == 0
		if idle {
			if report(w.runStep(wstep{sid: 1, sql: "BEGIN TRANSACTION"}, last, &failedSince)) {
				finish()
				return nil
			}
			if w.rng.Intn(2) == 0 {
				w.runStep(wstep{sid: 1, kind: "select", table: ti}, last, &failedSince)
			}
		}
		var q string
		var ap func()
		for q == "" || !strings.Contains(q, "INDEX") {
			q, ap = w.ddl(t)
		}
		apc := ap
		w.runStep(wstep{sid: 0, sql: q, apply: func(*wide) { apc() }}, last, &failedSince)
		if idle {
			w.runStep(wstep{sid: 1, sql: "COMMIT"}, last, &failedSince)
		}
	}
	for i := 0; i < steps; i++ {
		sid := w.rng.Intn(sessions)
		ti := w.rng.Intn(len(w.tables))
		t := w.tables[ti]
		s := wstep{sid: sid, table: ti, observe: w.rng.Intn(5) < 2}
		if w.txs[sid] == nil {
			switch x := w.rng.Intn(20); {
			case x < 4:
				q, ap := w.ddl(t)
				if q == "" {
					continue
				}
				s.sql = q
				s.apply = func(*wide) { ap() }
				s.observe = w.rng.Intn(4) == 0
			case x < 8:
				s.sql = "BEGIN TRANSACTION"
				s.observe = false
			default:
				s.sql = w.dml(t)
				if w.rng.Intn(4) == 0 {
					s.sql += "; " + w.dml(t)
				}
			}
		} else {
			switch x := w.rng.Intn(20); {
			case x < 6:
				s.sql = "COMMIT"
			case x < 7:
				s.sql = "ROLLBACK"
			case x < 11:
				s.kind = "select"
				s.observe = false
			default:
				s.sql = w.dml(t)
				s.observe = false
			}
		}
		if report(w.runStep(s, last, &failedSince)) {
			finish()
			r.Stats["wide/random"]++
			r.Stats["wide/events"] += len(w.log)
			return nil
		}
	}
	for sid := 0; sid < sessions; sid++ {
		if w.txs[sid] != nil {
			if report(w.runStep(wstep{sid: sid, sql: "COMMIT"}, last, &failedSince)) {
				break
			}
		}
	}
	report(w.observe(last, false))
	finish()
	r.Stats["wide/random"]++
	r.Stats["wide/events"] += len(w.log)
	return nil
}
