package c12

import (
	"strings"
	"math/rand"

	"verif/harness/vk"
)

// ---------- generators ----------

type gen struct {
	rng *rand.Rand
	cfg Cfg
}

func (g *gen) pick(xs ...int64) int64 { return xs[g.rng.Intn(len(xs))] }

// small domains so that keys and indexed values collide often
func (g *gen) id() int64 {
	switch g.rng.Intn(12) {
	case 0:
		return g.pick(0, -1, 7, 9, 1000)
	default:
		return 1 + int64(g.rng.Intn(5))
	}
}
func (g *gen) vInt() int64 {
	switch g.rng.Intn(10) {
	case 0:
		return g.pick(-1, -5, 0, 1<<40, -(1 << 40))
	default:
		return g.pick(10, 20, 30, 0, 1)
	}
}

// value for column v: mostly integers, sometimes NULL, rarely a (non-numeric) string
func (g *gen) vVal() Val {
	switch g.rng.Intn(14) {
	case 0, 1:
		return VNull()
	case 2:
		return VStr(string(rune('p' + g.rng.Intn(3))))
	default:
		return VInt(g.vInt())
	}
}

var letters = "abcdefgh"

func (g *gen) str(n int) string {
	b := make([]byte, n)
	for i := range b {
		b[i] = letters[g.rng.Intn(3)]
	}
	return string(b)
}

// value for column s: strings around the declared length, NULL, rarely an integer
func (g *gen) sVal() Val {
	m := g.cfg.MaxLen
	switch g.rng.Intn(16) {
	case 14: // multi-byte runes: at most m characters but more than m bytes (the limit is a byte length)
		return VStr(strings.Repeat("é", (m+2)/2))
	case 15: // multi-byte, within the byte limit when m >= 2
		return VStr(strings.Repeat("é", 1+g.rng.Intn(2)))
	case 0, 1:
		return VNull()
	case 2:
		return VInt(g.pick(5, 12, 123, 12345, -7))
	case 3:
		return VStr(g.str(m + 1)) // off by one above the limit
	case 4:
		return VStr(g.str(m)) // exactly the limit
	case 5:
		return VStr(g.str(m + 2 + g.rng.Intn(3)))
	case 6:
		return VStr("")
	default:
		n := 1
		if m > 1 {
			n = 1 + g.rng.Intn(m)
		}
		return VStr(g.str(n))
	}
}

func (g *gen) where() (string, int64) {
	switch g.rng.Intn(10) {
	case 0, 1:
		return "", 0
	default:
		return "id", g.id()
	}
}

func (g *gen) insStmt() Stmt {
	s := Stmt{Kind: "ins", Mode: "insert"}
	switch g.rng.Intn(10) {
	case 0, 1, 2:
		s.Mode = "upsert"
	case 3:
		s.Mode = "nothing"
	case 4:
		s.Mode = "doupdate"
		s.ColV = g.rng.Intn(3) > 0
		if s.ColV {
			switch g.rng.Intn(5) {
			case 0:
				s.X = VNull()
			case 1:
				s.X = VInt(g.pick(-1, -5))
			default:
				s.X = VInt(g.vInt())
			}
		} else {
			switch g.rng.Intn(5) {
			case 0:
				s.X = VNull()
			case 1:
				s.X = VStr(g.str(g.cfg.MaxLen + 1))
			default:
				s.X = VStr(g.str(1))
			}
		}
	}
	n := 1
	if g.rng.Intn(6) == 0 {
		n = 2 + g.rng.Intn(2)
	}
	hasID := true
	if g.cfg.AutoInc {
		hasID = g.rng.Intn(3) == 0
	} else if g.rng.Intn(25) == 0 {
		hasID = false
	}
	allVNull, allSNull := true, true
	for i := 0; i < n; i++ {
		r := InsRow{HasID: hasID, V: g.vVal(), S: g.sVal()}
		if hasID {
			switch g.rng.Intn(30) {
			case 0:
				r.ID = VNull()
			case 1:
				r.ID = VStr("x")
			default:
				r.ID = VInt(g.id())
				if g.cfg.AutoInc && g.rng.Intn(2) == 0 {
					// close to table.maxPK (a handful of auto-generated keys): below, equal, just above
					r.ID = VInt(1 + int64(g.rng.Intn(7)))
				}
			}
		}
		allVNull = allVNull && r.V.IsNull()
		allSNull = allSNull && r.S.IsNull()
		s.Rows = append(s.Rows, r)
	}
	// a NULL column may also simply be left out of the column list
	s.OmitV = allVNull && g.rng.Intn(2) == 0
	s.OmitS = allSNull && g.rng.Intn(2) == 0
	if s.OmitV && s.OmitS && !hasID {
		s.OmitS = false
	}
	return s
}

func (g *gen) stmt() Stmt {
	switch g.rng.Intn(10) {
	case 0, 1, 2, 3, 4:
		return g.insStmt()
	case 5, 6, 7:
		s := Stmt{Kind: "upd", ColV: g.rng.Intn(3) > 0}
		s.Where, s.WK = g.where()
		if s.ColV {
			s.X = g.vVal()
		} else {
			s.X = g.sVal()
		}
		return s
	default:
		s := Stmt{Kind: "del"}
		s.Where, s.WK = g.where()
		if s.Where == "" && g.rng.Intn(3) > 0 {
			s.Where, s.WK = "id", g.id()
		}
		return s
	}
}

func (g *gen) history(sessions, steps int) []Event {
	var evs []Event
	open := make([]bool, sessions)
	ddlU, ddlN := false, false
	for i := 0; i < steps; i++ {
		sid := g.rng.Intn(sessions)
		if !open[sid] {
			switch x := g.rng.Intn(20); {
			case x < 2 && !(ddlU && ddlN):
				u := g.rng.Intn(3) > 0
				if u {
					ddlU = ddlU || g.rng.Intn(4) > 0 // sometimes try again later (already exists / non-empty)
				} else {
					ddlN = true
				}
				evs = append(evs, Event{Sid: sid, Act: "ddl", Unique: u})
			case x < 7:
				evs = append(evs, Event{Sid: sid, Act: "begin"})
				open[sid] = true
			case x < 10:
				n := 2 + g.rng.Intn(2)
				var ss []Stmt
				for j := 0; j < n; j++ {
					ss = append(ss, g.stmt())
				}
				evs = append(evs, Event{Sid: sid, Act: "auto", Stmts: ss})
			default:
				evs = append(evs, Event{Sid: sid, Act: "auto", Stmts: []Stmt{g.stmt()}})
			}
		} else {
			switch x := g.rng.Intn(20); {
			case x < 5:
				evs = append(evs, Event{Sid: sid, Act: "commit"})
				open[sid] = false
			case x < 6:
				evs = append(evs, Event{Sid: sid, Act: "rollback"})
				open[sid] = false
			default:
				evs = append(evs, Event{Sid: sid, Act: "stmt", Stmts: []Stmt{g.stmt()}})
			}
		}
	}
	for sid := range open {
		if open[sid] {
			evs = append(evs, Event{Sid: sid, Act: "commit"})
		}
	}
	return evs
}

// fixSessions repairs the bookkeeping of `open` after the fact: a failing statement cancels the
// session's transaction in the engine, so later "stmt"/"commit" events of that session would be
// issued without a transaction.  The generator cannot know outcomes in advance; the executor
// handles both (a "stmt" without a transaction is an autocommit statement, a "commit" without one
// fails with "no ongoing transaction"), and so does the model.

// scripted histories: the shapes behind each constraint, incl. the witnesses of the repaired defects
func scripted() []struct {
	cfg Cfg
	evs []Event
} {
	ins := func(sid int, mode string, id int64, v Val, s Val) Event {
		return Event{Sid: sid, Act: "auto", Stmts: []Stmt{{Kind: "ins", Mode: mode, Rows: []InsRow{{HasID: true, ID: VInt(id), V: v, S: s}}}}}
	}
	stmt := func(e Event) Event { e.Act = "stmt"; return e }
	upd := func(sid int, id int64, colv bool, x Val) Event {
		return Event{Sid: sid, Act: "auto", Stmts: []Stmt{{Kind: "upd", ColV: colv, X: x, Where: "id", WK: id}}}
	}
	del := func(sid int, id int64) Event {
		return Event{Sid: sid, Act: "auto", Stmts: []Stmt{{Kind: "del", Where: "id", WK: id}}}
	}
	uq := Event{Act: "ddl", Unique: true}
	nq := Event{Act: "ddl", Unique: false}
	begin := func(sid int) Event { return Event{Sid: sid, Act: "begin"} }
	commit := func(sid int) Event { return Event{Sid: sid, Act: "commit"} }
	plain := Cfg{MaxLen: 3}
	n := VNull()
	return []struct {
		cfg Cfg
		evs []Event
	}{
		// the design-phase witness: tombstone first under the value prefix
		{plain, []Event{uq, ins(0, "insert", 1, VInt(10), n), upd(0, 1, true, VInt(20)), ins(0, "insert", 2, VInt(10), n), ins(0, "insert", 3, VInt(10), n)}},
		// same through two concurrent sessions
		{plain, []Event{uq, ins(0, "insert", 1, VInt(10), n), upd(0, 1, true, VInt(20)), begin(0), begin(1),
			stmt(ins(0, "insert", 2, VInt(10), n)), stmt(ins(1, "insert", 3, VInt(10), n)), commit(0), commit(1)}},
		// unique index accepted on a populated table whose first primary-index entry is a tombstone
		{plain, []Event{ins(0, "insert", 1, VInt(5), n), ins(0, "insert", 2, VInt(10), n), ins(0, "insert", 3, VInt(10), n), uq, del(0, 1), uq,
			ins(0, "insert", 4, VInt(10), n)}},
		// honest concurrent duplicates: the second commit must conflict
		{plain, []Event{uq, begin(0), begin(1), stmt(ins(0, "insert", 1, VInt(10), n)), stmt(ins(1, "insert", 2, VInt(10), n)), commit(0), commit(1)}},
		{plain, []Event{begin(0), begin(1), stmt(ins(0, "insert", 1, VInt(10), n)), stmt(ins(1, "insert", 1, VInt(11), n)), commit(0), commit(1)}},
		// NOT NULL through UPDATE and through DO UPDATE
		{Cfg{NotNull: true, MaxLen: 3}, []Event{ins(0, "insert", 1, VInt(10), VStr("ab")), upd(0, 1, true, n), ins(0, "insert", 2, n, n)}},
		{Cfg{NotNull: true, MaxLen: 3, Check: true}, []Event{ins(0, "insert", 1, VInt(10), VStr("ab")),
			{Act: "auto", Stmts: []Stmt{{Kind: "ins", Mode: "doupdate", ColV: true, X: VInt(-5), Rows: []InsRow{{HasID: true, ID: VInt(1), V: VInt(3), S: n}}}}},
			{Act: "auto", Stmts: []Stmt{{Kind: "ins", Mode: "doupdate", ColV: true, X: n, Rows: []InsRow{{HasID: true, ID: VInt(1), V: VInt(3), S: n}}}}}}},
		// delete then re-insert, in one transaction and across transactions
		{plain, []Event{uq, nq, ins(0, "insert", 1, VInt(10), VStr("a")), del(0, 1), ins(0, "insert", 1, VInt(10), VStr("a")), begin(0),
			stmt(del(0, 1)), stmt(ins(0, "insert", 1, VInt(11), n)), commit(0)}},
		// auto-increment mixed with explicit ids
		{Cfg{AutoInc: true, MaxLen: 2}, []Event{
			{Act: "auto", Stmts: []Stmt{{Kind: "ins", Mode: "insert", Rows: []InsRow{{V: VInt(1), S: n}}}}},
			ins(0, "insert", 5, VInt(2), n),
			{Act: "auto", Stmts: []Stmt{{Kind: "ins", Mode: "insert", Rows: []InsRow{{V: VInt(3), S: n}, {V: VInt(4), S: n}}}}},
			ins(0, "insert", 4, VInt(2), n), ins(0, "upsert", 2, VInt(2), n), begin(0), begin(1),
			stmt(Event{Sid: 0, Stmts: []Stmt{{Kind: "ins", Mode: "insert", Rows: []InsRow{{V: VInt(7), S: n}}}}}),
			stmt(Event{Sid: 1, Stmts: []Stmt{{Kind: "ins", Mode: "insert", Rows: []InsRow{{V: VInt(8), S: n}}}}}),
			commit(1), commit(0)}},
		// deprecateIndexEntries inside one transaction: a value given up by one row and taken by another
		// (non-unique and unique index), and an update back to the old value
		{plain, []Event{nq, ins(0, "insert", 1, VInt(10), VStr("a")), ins(0, "insert", 2, VInt(20), VStr("b")), begin(0),
			stmt(upd(0, 1, false, VStr("c"))), stmt(upd(0, 2, false, VStr("a"))), commit(0),
			uq, begin(0), stmt(upd(0, 1, true, VInt(30))), stmt(upd(0, 1, true, VInt(10))), commit(0),
			begin(0), stmt(upd(0, 1, true, VInt(30))), stmt(ins(0, "insert", 3, VInt(10), n)), commit(0),
			{Act: "auto", Stmts: []Stmt{{Kind: "upd", ColV: false, X: VStr("q")}}},
			{Act: "auto", Stmts: []Stmt{{Kind: "ins", Mode: "upsert", Rows: []InsRow{{HasID: true, ID: VInt(1), V: VInt(10), S: VStr("w")}, {HasID: true, ID: VInt(2), V: VInt(20), S: VStr("e")}}}}}}},
		// composite UNIQUE index on (v, s): changing one indexed column while keeping the other
		{Cfg{MaxLen: 3, UComp: true}, []Event{uq, nq, ins(0, "insert", 1, VInt(1), VStr("a")), ins(0, "insert", 2, VInt(2), VStr("a")),
			upd(0, 2, true, VInt(1)), ins(0, "upsert", 2, VInt(1), VStr("a")), upd(0, 2, false, VStr("b")), upd(0, 2, true, VInt(1)),
			upd(0, 2, false, VStr("a")), ins(0, "insert", 3, VInt(1), n), ins(0, "insert", 4, VInt(1), n), ins(0, "upsert", 1, VInt(1), VStr("b")),
			begin(0), begin(1), stmt(ins(0, "insert", 5, VInt(7), VStr("c"))), stmt(ins(1, "insert", 6, VInt(7), VStr("c"))), commit(0), commit(1),
			begin(0), stmt(upd(0, 1, true, VInt(9))), stmt(upd(0, 2, true, VInt(9))), commit(0)}},
		// explicit keys around table.maxPK: equal to it after its row was deleted, one below, one above
		{Cfg{AutoInc: true, MaxLen: 2}, []Event{
			{Act: "auto", Stmts: []Stmt{{Kind: "ins", Mode: "insert", Rows: []InsRow{{V: VInt(1), S: n}, {V: VInt(2), S: n}, {V: VInt(3), S: n}}}}},
			del(0, 3), ins(0, "insert", 3, VInt(9), n), ins(0, "upsert", 3, VInt(9), n), del(0, 2), ins(0, "insert", 2, VInt(9), n),
			ins(0, "insert", 4, VInt(9), n), ins(0, "nothing", 4, VInt(8), n), ins(0, "upsert", 6, VInt(7), n),
			{Act: "auto", Stmts: []Stmt{{Kind: "ins", Mode: "insert", Rows: []InsRow{{V: VInt(5), S: n}}}}}}},
	}
}

func Gen(r *vk.Run, n int) error {
	for _, sc := range scripted() {
		if err := emit(r, sc.cfg, sc.evs, "scripted"); err != nil {
			return err
		}
	}
	// wide stream: generalised schemas, ALTER TABLE, 2-3 sessions with DDL (direct oracle only)
	for i := range scriptedWide() {
		if err := runWide(r, i); err != nil {
			return err
		}
	}
	for i := 0; i < n/2; i++ {
		if err := runWide(r, -1); err != nil {
			return err
		}
	}
	g := &gen{rng: r.Rng}
	for i := 0; i < n; i++ {
		g.cfg = Cfg{
			AutoInc: r.Rng.Intn(4) == 0,
			NotNull: r.Rng.Intn(3) == 0,
			MaxLen:  1 + r.Rng.Intn(4),
			Check:   r.Rng.Intn(3) == 0,
			UComp:   r.Rng.Intn(3) == 0,
		}
		sessions := 1
		bucket := "one-session"
		if r.Rng.Intn(5) < 2 {
			sessions = 2
			bucket = "two-sessions"
		}
		steps := 8 + r.Rng.Intn(18)
		if err := emit(r, g.cfg, g.history(sessions, steps), bucket); err != nil {
			return err
		}
	}
	return nil
}
