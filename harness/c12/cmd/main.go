package main

import (
	"verif/harness/c12"
	"verif/harness/vk"
)

func main() { vk.Main("Tie.C12", c12.Gen, c12.Replay) }
