package main

import (
	"verif/harness/c03"
	"verif/harness/vk"
)

func main() { vk.Main("Tie.C03", c03.Gen, c03.Replay) }
