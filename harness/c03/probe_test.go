package c03

import (
	"context"
	"fmt"
	"io"
	"os"
	"testing"
	"time"

	"github.com/codenotary/immudb/embedded/logger"
	"github.com/codenotary/immudb/embedded/store"
)

func TestProbe(t *testing.T) {
	dir, _ := os.MkdirTemp("", "c03p")
	defer os.RemoveAll(dir)
	rec := NewRecorder(dir, true)
	opts := store.DefaultOptions().WithSynced(true).WithSyncFrequency(2 * time.Millisecond).
		WithFileSize(512).WithWriteBufferSize(128).WithMaxTxEntries(4).WithMaxKeyLen(16).WithMaxValueLen(64).
		WithMaxConcurrency(2).WithMaxActiveTransactions(4).
		WithLogger(logger.NewSimpleLoggerWithLevel("vh", io.Discard, logger.LogError)).
		WithAppFactory(rec.Factory)
	opts.WithAHTOptions(store.DefaultAHTOptions().WithSyncThld(2).WithWriteBufferSize(128))
	st, err := store.Open(dir, opts)
	if err != nil {
		t.Fatal(err)
	}
	for i := 0; i < 6; i++ {
		tx, _ := st.NewWriteOnlyTx(context.Background())
		tx.Set([]byte(fmt.Sprintf("k%d", i%3)), nil, []byte(fmt.Sprintf("value-%03d-xxxxxxxxxxxxxxxxxxxxxxxxxxxxxxxxxxxxxx", i)))
		h, err := tx.Commit(context.Background())
		if err != nil {
			t.Fatal(err)
		}
		rec.Ack(h.ID)
	}
	st.Close()
	for i, e := range rec.Events {
		s := fmt.Sprintf("%3d %-9s %-22s off=%d len=%d tx=%d", i, e.Kind, e.Log, e.Off, e.Len, e.Tx)
		for _, w := range e.Created {
			s += fmt.Sprintf(" C[%s %d]", w.File, len(w.Data))
		}
		for _, w := range e.Writes {
			s += fmt.Sprintf(" W[%s @%d +%d]", w.File, w.Off, len(w.Data))
		}
		for _, f := range e.Synced {
			s += " S[" + f + "]"
		}
		fmt.Println(s)
	}
}
