// Package c03: crash-durability check of the immudb store (property C03).
//
// trace.go: an instrumented appendable, injected through the PUBLIC seam
// store.Options.WithAppFactory. It wraps the real multiapp.MultiFileAppendable of every log of the
// store (tx, commit, val_i, aht/{data,tree,commit}, index/*) and records, per log, the sequence of
// Append / SetOffset / Flush / Sync / Close calls together with WHAT REACHED THE OPERATING SYSTEM
// during each call: after every call the files of that log are read back and compared with a shadow
// copy, which yields the physical writes (file, offset, bytes) in the order they happened. All
// storage operations of all logs are serialised by one mutex, so the trace is a total order that is
// consistent with real time; "ack" events (a commit returning to its caller) are inserted into the
// same order.
//
// What is durable is NOT observed (fsync cannot be seen from user space); it is derived from the
// calls, by the contract of the appendable API:
//   - Sync()                      : the current chunk file is fsynced (multiapp syncs only that one);
//   - file creation               : a new chunk is created with its header, fsynced, directory synced
//                                   (singleapp.Open), so it exists with its header at any later crash;
//   - rotation inside Append      : the chunk being left is flushed, and fsynced when the store runs
//                                   with Synced(true) (SwitchToReadOnlyMode with retryable sync);
//   - a buffer-full auto-sync inside Append is treated as a plain write (NOT durable): this only
//     enlarges the set of crash images (a durable write can always be "lost" by choosing an earlier
//     crash point of the same file), it never hides one.
//
// PHYSICAL level (NewPhysicalRecorder; store directory on a disk file system): none of the above is
// assumed. After every call the kernel is asked, per physical chunk file, whether the file still has
// dirty or under-writeback pages (cachestat(2)): a file that was written and has none has been
// fsynced (or written back), its content at that moment is its durable content; a file with dirty
// pages keeps its writes pending whatever the appendable API was told. This sees a chunk that is
// rotated out without fsync, a Sync() that reaches only some chunk, a missing fsync after a flush.
package c03

import (
	"bytes"
	"encoding/binary"
	"fmt"
	"os"
	"path/filepath"
	"sort"
	"strings"
	"sync"

	"golang.org/x/sys/unix"

	"github.com/codenotary/immudb/embedded/appendable"
	"github.com/codenotary/immudb/embedded/appendable/multiapp"
)

type Write struct {
	File  string // path relative to the store directory
	Off   int64  // offset in the physical file (header included); Trunc: the new length
	Data  []byte
	Trunc bool // the file was cut to Off bytes (a rewind below the flushed size, since fix 09014a8)
	Whole bool // the whole file was replaced atomically (temp file written + fsynced, then renamed over it)
}

type Event struct {
	Kind    string // open append setoffset flush sync close ro discard ack mark
	Log     string // log directory relative to the store directory ("" for ack/mark)
	Off     int64  // append: logical offset returned; setoffset: argument
	Len     int    // append: payload length
	Tx      uint64 // ack: transaction id
	Note    string // mark: free text
	Created []Write  // files created during the call: their initial durable content (header)
	Writes  []Write  // physical writes observed, in order
	Synced  []string // files made durable by the call
	Removed []string
}

// Recorder is shared by all traced appendables of one store instance.
type Recorder struct {
	mu      sync.Mutex
	root    string
	synced  bool // store runs with Synced(true): rotation fsyncs the chunk it leaves
	Events  []Event
	shadow  map[string][]byte // OS view of every file we have seen (relative path -> content)
	enabled bool
	// physical level: durability is observed (cachestat), not derived from the calls
	physical bool
	dirty    map[string]bool // files with writes not yet seen clean
	truncW   map[string]bool // physical level: truncated, no later write of the file seen fsynced yet
	metaDirs map[string]bool // parents of log directories (index folders): scanned for TIMESTAMP files
}

func NewRecorder(root string, synced bool) *Recorder {
	return &Recorder{root: root, synced: synced, shadow: map[string][]byte{}, enabled: true}
}

// fileClean: no dirty and no under-writeback page (cachestat); ok=false when the kernel cannot tell.
func fileClean(path string) (clean bool, ok bool) {
	f, err := os.Open(path)
	if err != nil {
		return false, false
	}
	defer f.Close()
	var cs unix.Cachestat_t
	if err := unix.Cachestat(uint(f.Fd()), &unix.CachestatRange{Off: 0, Len: 0}, &cs, 0); err != nil {
		return false, false
	}
	return cs.Dirty == 0 && cs.Writeback == 0, true
}

// PhysicalAvailable: the file system under dir reports dirty pages (a disk file system with
// cachestat(2); not tmpfs).
func PhysicalAvailable(dir string) bool {
	f, err := os.CreateTemp(dir, "c03probe")
	if err != nil {
		return false
	}
	defer os.Remove(f.Name())
	defer f.Close()
	f.Write(make([]byte, 4096))
	c1, ok1 := fileClean(f.Name())
	f.Sync()
	c2, ok2 := fileClean(f.Name())
	return ok1 && ok2 && !c1 && c2
}

// NewPhysicalRecorder: durability per physical chunk file is OBSERVED after every call.
func NewPhysicalRecorder(root string) *Recorder {
	r := NewRecorder(root, true)
	r.physical = true
	r.dirty = map[string]bool{}
	return r
}

// Preload makes the recorder aware of files that exist before the store is opened (second run on a
// recovered directory): they are the starting OS view and produce no events.
func (r *Recorder) Preload() error {
	return filepath.Walk(r.root, func(p string, info os.FileInfo, err error) error {
		if err != nil || info.IsDir() {
			return err
		}
		rel, _ := filepath.Rel(r.root, p)
		b, err := os.ReadFile(p)
		if err != nil {
			return err
		}
		r.shadow[rel] = b
		return nil
	})
}

func (r *Recorder) Ack(tx uint64) {
	r.mu.Lock()
	r.Events = append(r.Events, Event{Kind: "ack", Tx: tx})
	r.mu.Unlock()
}

func (r *Recorder) Mark(note string) {
	r.mu.Lock()
	r.Events = append(r.Events, Event{Kind: "mark", Note: note})
	r.mu.Unlock()
}

func (r *Recorder) Len() int {
	r.mu.Lock()
	defer r.mu.Unlock()
	return len(r.Events)
}

// headerLen returns the length of the singleapp file header (4-byte length + metadata).
func headerLen(b []byte) int {
	if len(b) < 4 {
		return len(b)
	}
	n := 4 + int(binary.BigEndian.Uint32(b))
	if n > len(b) {
		return len(b)
	}
	return n
}

// observeMeta: plain files written next to the log directories without going through an appendable: the
// index TIMESTAMP files (tbtree.writeTsFile: temp file, fsync, rename; the directory is not fsynced). A new
// content is recorded as ONE atomic pending replacement that no later call makes durable: after a crash
// the name shows either the old or the new content. Seen at the next traced call of any log.
func (r *Recorder) observeMeta(ev *Event) {
	for d := range r.metaDirs {
		ents, err := os.ReadDir(filepath.Join(r.root, d))
		if err != nil {
			continue
		}
		for _, e := range ents {
			if e.IsDir() || !strings.HasPrefix(e.Name(), "TIMESTAMP") {
				continue
			}
			rel := filepath.Join(d, e.Name())
			cur, err := os.ReadFile(filepath.Join(r.root, rel))
			if err != nil {
				continue
			}
			if old, known := r.shadow[rel]; known && bytes.Equal(old, cur) {
				continue
			}
			r.shadow[rel] = cur
			ev.Writes = append(ev.Writes, Write{File: rel, Data: clone(cur), Whole: true})
		}
	}
}

// observe reads back the files of one log directory and turns the differences with the shadow into
// Created / Writes (caller holds r.mu).
func (r *Recorder) observe(log string, ev *Event) {
	if parent := filepath.Dir(log); parent != "." && parent != "/" {
		if r.metaDirs == nil {
			r.metaDirs = map[string]bool{}
		}
		r.metaDirs[parent] = true
	}
	defer r.observeMeta(ev)
	dir := filepath.Join(r.root, log)
	ents, err := os.ReadDir(dir)
	if err != nil {
		return
	}
	names := make([]string, 0, len(ents))
	for _, e := range ents {
		if !e.IsDir() {
			names = append(names, e.Name())
		}
	}
	sort.Strings(names)
	seen := map[string]bool{}
	for _, n := range names {
		rel := filepath.Join(log, n)
		seen[rel] = true
		cur, err := os.ReadFile(filepath.Join(dir, n))
		if err != nil {
			continue
		}
		old, known := r.shadow[rel]
		if !known {
			h := headerLen(cur)
			// preallocated files are created zero-filled and fsynced as a whole
			init := h
			if allZero(cur[h:]) {
				init = len(cur)
			}
			ev.Created = append(ev.Created, Write{File: rel, Off: 0, Data: clone(cur[:init])})
			old = cur[:init]
		}
		changed := !bytes.Equal(old, cur)
		wrote := false
		if changed {
			if len(cur) < len(old) {
				// the file shrank: a truncation, pending like a write until the file is fsynced
				ev.Writes = append(ev.Writes, Write{File: rel, Off: int64(len(cur)), Trunc: true})
				old = old[:len(cur)]
				if r.physical {
					if r.truncW == nil {
						r.truncW = map[string]bool{}
					}
					r.truncW[rel] = true
				}
			}
			ws := diffWrites(rel, old, cur)
			wrote = len(ws) > 0
			ev.Writes = append(ev.Writes, ws...)
		}
		r.shadow[rel] = cur
		if r.physical && (changed || r.dirty[rel]) {
			clean, ok := fileClean(filepath.Join(dir, n))
			switch {
			case ok && clean && r.truncW[rel] && !wrote:
				// no dirty page says nothing about the inode size: the truncation stays pending until
				// a later write of this file is seen fsynced
				r.dirty[rel] = true
			case ok && clean:
				ev.Synced = append(ev.Synced, rel) // observed: nothing of this file is left un-fsynced
				delete(r.dirty, rel)
				delete(r.truncW, rel)
			default:
				r.dirty[rel] = true
			}
		}
	}
	for rel := range r.shadow {
		if filepath.Dir(rel) == log && !seen[rel] {
			ev.Removed = append(ev.Removed, rel)
			delete(r.shadow, rel)
		}
	}
	sort.Strings(ev.Removed)
}

func allZero(b []byte) bool {
	for _, x := range b {
		if x != 0 {
			return false
		}
	}
	return true
}

func clone(b []byte) []byte { return append([]byte{}, b...) }

// diffWrites: maximal runs of positions where cur differs from old (or extends it).
func diffWrites(rel string, old, cur []byte) []Write {
	var ws []Write
	i := 0
	n := len(cur)
	for i < n {
		if i < len(old) && old[i] == cur[i] {
			i++
			continue
		}
		j := i
		for j < n && (j >= len(old) || old[j] != cur[j]) {
			j++
		}
		ws = append(ws, Write{File: rel, Off: int64(i), Data: clone(cur[i:j])})
		i = j
	}
	return ws
}

// ---- the appendable wrapper -------------------------------------------------------------------

type tracedApp struct {
	inner *multiapp.MultiFileAppendable
	log   string
	ext   string
	rec   *Recorder
}

var _ appendable.Appendable = (*tracedApp)(nil)

// Factory is what is handed to store.Options.WithAppFactory.
func (r *Recorder) Factory(rootPath, subPath string, opts *multiapp.Options) (appendable.Appendable, error) {
	full := filepath.Join(rootPath, subPath)
	rel, err := filepath.Rel(r.root, full)
	if err != nil {
		return nil, err
	}
	r.mu.Lock()
	defer r.mu.Unlock()
	inner, err := multiapp.Open(full, opts)
	if err != nil {
		return nil, err
	}
	t := &tracedApp{inner: inner, log: rel, ext: opts.GetFileExt(), rec: r}
	ev := Event{Kind: "open", Log: rel}
	r.observe(rel, &ev)
	r.Events = append(r.Events, ev)
	return t, nil
}

// Remove is what is handed to store.Options.WithAppRemoveFunc (the index discards snapshot folders
// through it): the removal is recorded, the files disappear from every later crash image.
func (r *Recorder) Remove(rootPath, subPath string) error {
	full := filepath.Join(rootPath, subPath)
	rel, err := filepath.Rel(r.root, full)
	if err != nil {
		return err
	}
	r.mu.Lock()
	defer r.mu.Unlock()
	err = os.RemoveAll(full)
	ev := Event{Kind: "remove", Log: rel}
	for f := range r.shadow {
		if filepath.Dir(f) == rel {
			ev.Removed = append(ev.Removed, f)
			delete(r.shadow, f)
		}
	}
	sort.Strings(ev.Removed)
	if r.enabled {
		r.Events = append(r.Events, ev)
	}
	return err
}

func (t *tracedApp) curFile() string {
	_, id := t.inner.CurrApp()
	return filepath.Join(t.log, fmt.Sprintf("%08d.%s", id, t.ext))
}

func (t *tracedApp) op(kind string, off int64, n int, f func() error) error {
	t.rec.mu.Lock()
	defer t.rec.mu.Unlock()
	before := t.curFile()
	err := f()
	if !t.rec.enabled {
		return err
	}
	ev := Event{Kind: kind, Log: t.log, Off: off, Len: n}
	t.rec.observe(t.log, &ev)
	after := t.curFile()
	if t.rec.physical {
		kind2 := kind
		_ = kind2
		t.rec.Events = append(t.rec.Events, ev)
		return err
	}
	switch kind {
	case "sync":
		if err == nil {
			ev.Synced = append(ev.Synced, after)
		}
	case "ro":
		if err == nil && t.rec.synced {
			ev.Synced = append(ev.Synced, after)
		}
	}
	_ = before
	t.rec.Events = append(t.rec.Events, ev)
	return err
}

func contains(l []string, s string) bool {
	for _, x := range l {
		if x == s {
			return true
		}
	}
	return false
}

func (t *tracedApp) Metadata() []byte         { return t.inner.Metadata() }
func (t *tracedApp) Size() (int64, error)     { return t.inner.Size() }
func (t *tracedApp) Offset() int64            { return t.inner.Offset() }
func (t *tracedApp) CompressionFormat() int   { return t.inner.CompressionFormat() }
func (t *tracedApp) CompressionLevel() int    { return t.inner.CompressionLevel() }
func (t *tracedApp) Copy(dst string) error    { return t.inner.Copy(dst) }
func (t *tracedApp) ReadAt(b []byte, off int64) (int, error) { return t.inner.ReadAt(b, off) }

func (t *tracedApp) SetOffset(off int64) error {
	return t.op("setoffset", off, 0, func() error { return t.inner.SetOffset(off) })
}
func (t *tracedApp) DiscardUpto(off int64) error {
	return t.op("discard", off, 0, func() error { return t.inner.DiscardUpto(off) })
}
func (t *tracedApp) Append(bs []byte) (off int64, n int, err error) {
	t.rec.mu.Lock()
	before := t.curFile()
	off, n, err = t.inner.Append(bs)
	if t.rec.enabled {
		ev := Event{Kind: "append", Log: t.log, Off: off, Len: len(bs)}
		t.rec.observe(t.log, &ev)
		after := t.curFile()
		if before != after && t.rec.synced && !t.rec.physical {
			// rotation: every chunk that was left has been flushed and fsynced
			for _, w := range ev.Writes {
				if w.File != after && !contains(ev.Synced, w.File) {
					ev.Synced = append(ev.Synced, w.File)
				}
			}
			if !contains(ev.Synced, before) {
				ev.Synced = append(ev.Synced, before)
			}
		}
		t.rec.Events = append(t.rec.Events, ev)
	}
	t.rec.mu.Unlock()
	return
}
func (t *tracedApp) Flush() error { return t.op("flush", 0, 0, t.inner.Flush) }
func (t *tracedApp) Sync() error  { return t.op("sync", 0, 0, t.inner.Sync) }
func (t *tracedApp) SwitchToReadOnlyMode() error {
	return t.op("ro", 0, 0, t.inner.SwitchToReadOnlyMode)
}
func (t *tracedApp) Close() error { return t.op("close", 0, 0, t.inner.Close) }
