package c03

// workload.go: configurations and workloads run on the REAL store over the traced appendables.

import (
	"context"
	"crypto/sha256"
	"errors"
	"fmt"
	"io"
	"math/rand"
	"sync"
	"time"

	"github.com/codenotary/immudb/embedded/logger"
	"github.com/codenotary/immudb/embedded/store"
)

const (
	maxTxEntries = 4
	maxKeyLen    = 12
	maxValueLen  = 96
)

type Cfg struct {
	Embedded  bool `json:"embedded"`
	Prealloc  bool `json:"prealloc"`
	FileSize  int  `json:"fileSize"`
	WriteBuf  int  `json:"writeBuf"`
	MaxActive int  `json:"maxActive"`
	IOConc    int  `json:"ioConc"`
	AhtThld   int  `json:"ahtThld"`
	AhtBuf    int  `json:"ahtBuf"`
	ExtAllow  bool `json:"extAllow"`
	HdrVer    int  `json:"hdrVer"`
	Free      bool `json:"free"` // free-running: real goroutines + syncer with a short SyncFrequency
	IdxFlush  int  `json:"idxFlush"`
	IdxSync   int  `json:"idxSync"`  // index SyncThld (0: = IdxFlush, every threshold flush is synced)
	NoIdx     int  `json:"noIdx"`    // percentage of transactions whose entries are all marked non-indexable (needs HdrVer >= 1)
	FlushMore bool `json:"flushMore"` // driver: many explicit index flushes, synced and not
	Physical  bool `json:"physical"` // durability observed per physical chunk file (cachestat), store on a disk fs
	Long      bool `json:"long"`     // long schedule (many transactions: every log rotates several times)
}

func (c Cfg) String() string {
	return fmt.Sprintf("emb=%v pre=%v fs=%d wb=%d act=%d io=%d aht=%d/%d ext=%v v=%d free=%v phys=%v",
		c.Embedded, c.Prealloc, c.FileSize, c.WriteBuf, c.MaxActive, c.IOConc, c.AhtThld, c.AhtBuf, c.ExtAllow, c.HdrVer, c.Free, c.Physical)
}

func quiet() logger.Logger { return logger.NewSimpleLoggerWithLevel("vh", io.Discard, logger.LogError) }

// options builds the store options of a configuration. syncFreq: long for the deterministic driver
// (the driver calls Sync itself), short for free-running workloads and for every re-open.
func (c Cfg) options(syncFreq time.Duration, rec *Recorder) *store.Options {
	var clock int64 = 1_700_000_000
	var cmu sync.Mutex
	o := store.DefaultOptions().WithSynced(true).WithSyncFrequency(syncFreq).
		WithFileSize(c.FileSize).WithWriteBufferSize(c.WriteBuf).
		WithMaxTxEntries(maxTxEntries).WithMaxKeyLen(maxKeyLen).WithMaxValueLen(maxValueLen).
		WithMaxConcurrency(8).WithMaxActiveTransactions(c.MaxActive).WithMaxIOConcurrency(c.IOConc).
		WithEmbeddedValues(c.Embedded).WithPreallocFiles(c.Prealloc).
		WithExternalCommitAllowance(c.ExtAllow).WithWriteTxHeaderVersion(c.HdrVer).
		WithTimeFunc(func() time.Time { cmu.Lock(); defer cmu.Unlock(); clock++; return time.Unix(clock, 0) }).
		WithLogger(quiet())
	o.WithAHTOptions(store.DefaultAHTOptions().WithSyncThld(c.AhtThld).WithWriteBufferSize(c.AhtBuf))
	io := store.DefaultIndexOptions().WithMaxNodeSize(512).WithFlushBufferSize(256)
	if c.IdxFlush > 0 {
		sy := c.IdxFlush
		if c.IdxSync > sy {
			sy = c.IdxSync
		}
		io.WithFlushThld(c.IdxFlush).WithSyncThld(sy)
	}
	o.WithIndexOptions(io)
	if rec != nil {
		o.WithAppFactory(rec.Factory).WithAppRemoveFunc(rec.Remove)
	}
	return o
}

func genCfg(rng *rand.Rand, k int) Cfg {
	c := Cfg{
		Embedded:  rng.Intn(4) == 0,
		FileSize:  []int{256, 512, 1024, 4096}[rng.Intn(4)],
		WriteBuf:  []int{32, 64, 128, 256, 1024}[rng.Intn(5)],
		MaxActive: []int{1, 2, 3, 6}[rng.Intn(4)],
		IOConc:    1 + rng.Intn(3),
		AhtThld:   1 + rng.Intn(4),
		AhtBuf:    []int{40, 64, 128, 512}[rng.Intn(4)],
		ExtAllow:  rng.Intn(5) == 0,
		HdrVer:    rng.Intn(2),
		Free:      k%4 == 3,
		IdxFlush:  []int{0, 2, 5}[rng.Intn(3)],
	}
	if c.Embedded {
		c.IOConc = 1
	}
	if rng.Intn(6) == 0 {
		c.Prealloc = true
		if c.FileSize < 512 {
			c.FileSize = 512
		}
	}
	if c.Free && c.MaxActive < 2 {
		c.MaxActive = 3
	}
	// derived without drawing from rng: non-synced threshold flushes, transactions without anything indexable
	c.IdxSync = c.IdxFlush * (1 + k%3)
	if c.HdrVer >= 1 && k%2 == 0 {
		c.NoIdx = 30
	}
	return c
}

// genRotCfg: chunk rotation is the point: small FileSize (tx records of 180..300 bytes straddle the
// chunk boundary almost every time, the commit log rotates every 5-6 transactions, the value logs every
// few transactions), a long schedule, durability observed per physical chunk file.
func genRotCfg(rng *rand.Rand, k int) Cfg {
	return Cfg{
		FileSize:  []int{256, 384, 512, 1024}[rng.Intn(4)],
		WriteBuf:  []int{64, 128, 512, 4096}[rng.Intn(4)],
		MaxActive: 2 + rng.Intn(3),
		IOConc:    1 + rng.Intn(2),
		AhtThld:   1 + rng.Intn(4),
		AhtBuf:    []int{64, 512}[rng.Intn(2)],
		HdrVer:    rng.Intn(2),
		Free:      k%5 == 4,
		Physical:  true,
		Long:      true,
	}
}

// ---- reference history -------------------------------------------------------------------------

type kv struct {
	Key, Val []byte
	NoIdx    bool // entry marked non-indexable: committed, never reaches the index
}

type txRef struct {
	ID      uint64
	Alh     [sha256.Size]byte
	PrevAlh [sha256.Size]byte
	Hdr     *store.TxHeader
	KVs     []kv // in entry order
}

type Workload struct {
	Seed  int64
	Idx   int
	Cfg   Cfg
	Dir   string
	Rec   *Recorder
	Refs  map[uint64]*txRef // every tx the live store committed (read back before close)
	NTx   uint64
	Steps []string
}

func readRef(st *store.ImmuStore, id uint64) (*txRef, error) {
	tx := store.NewTx(maxTxEntries, maxKeyLen)
	if err := retry(func() error { return st.ReadTx(id, false, tx) }); err != nil {
		return nil, err
	}
	h := tx.Header()
	r := &txRef{ID: id, Alh: h.Alh(), PrevAlh: h.PrevAlh, Hdr: h}
	for _, e := range tx.Entries() {
		var v []byte
		err := retry(func() (e2 error) { v, e2 = st.ReadValue(e); return })
		if err != nil {
			return nil, fmt.Errorf("value of %x: %w", e.Key(), err)
		}
		r.KVs = append(r.KVs, kv{Key: e.Key(), Val: v})
	}
	return r, nil
}

// randEntriesCfg: with probability NoIdx% a transaction whose entries are ALL non-indexable (keys n*:
// the indexer only moves the index timestamp forward for it)
func randEntriesCfg(rng *rand.Rand, c Cfg) []kv {
	if c.NoIdx > 0 && c.HdrVer >= 1 && rng.Intn(100) < c.NoIdx {
		n := 1 + rng.Intn(2)
		var out []kv
		for i := 0; i < n; i++ {
			v := make([]byte, 1+rng.Intn(20))
			rng.Read(v)
			out = append(out, kv{Key: []byte(fmt.Sprintf("n%d", i)), Val: v, NoIdx: true})
		}
		return out
	}
	return randEntries(rng)
}

func randEntries(rng *rand.Rand) []kv {
	n := 1 + rng.Intn(3)
	var out []kv
	used := map[string]bool{}
	for len(out) < n {
		k := fmt.Sprintf("k%d", rng.Intn(6))
		if used[k] {
			continue
		}
		used[k] = true
		var v []byte
		switch rng.Intn(6) {
		case 0:
			v = []byte{}
		case 1:
			v = make([]byte, maxValueLen)
		default:
			v = make([]byte, 1+rng.Intn(40))
		}
		rng.Read(v)
		out = append(out, kv{Key: []byte(k), Val: v})
	}
	return out
}

func commitKVs(st *store.ImmuStore, kvs []kv, async bool, timeout time.Duration) (*store.TxHeader, error) {
	tx, err := st.NewWriteOnlyTx(context.Background())
	if err != nil {
		return nil, err
	}
	for _, e := range kvs {
		var md *store.KVMetadata
		if e.NoIdx {
			md = store.NewKVMetadata()
			md.AsNonIndexable(true)
		}
		if err := tx.Set(e.Key, md, e.Val); err != nil {
			tx.Cancel()
			return nil, err
		}
	}
	ctx, cancel := context.WithTimeout(context.Background(), timeout)
	defer cancel()
	if async {
		return tx.AsyncCommit(ctx)
	}
	return tx.Commit(ctx)
}

// Run executes one workload on a fresh store in dir and leaves the recorded trace in w.Rec.
func RunWorkload(seed int64, idx int, cfg Cfg, dir string) (*Workload, error) {
	rng := rand.New(rand.NewSource(seed*1_000_003 + int64(idx)*7919 + 11))
	w := &Workload{Seed: seed, Idx: idx, Cfg: cfg, Dir: dir, Refs: map[uint64]*txRef{}}
	if cfg.Physical {
		w.Rec = NewPhysicalRecorder(dir)
	} else {
		w.Rec = NewRecorder(dir, true)
	}
	freq := 10 * time.Minute
	if cfg.Free {
		freq = 2 * time.Millisecond
	}
	st, err := store.Open(dir, cfg.options(freq, w.Rec))
	if err != nil {
		return nil, fmt.Errorf("open: %w", err)
	}
	if cfg.Free {
		err = w.runFree(st, rng)
	} else {
		err = w.runDriven(st, rng)
	}
	if err != nil {
		st.Close()
		return nil, err
	}
	// reference history, read back from the live store (no storage events: reads only)
	w.Rec.Mark("end-of-workload")
	cid, _ := st.CommittedAlh()
	w.NTx = cid
	for id := uint64(1); id <= cid; id++ {
		r, err := readRef(st, id)
		if err != nil {
			st.Close()
			return nil, fmt.Errorf("live store cannot read back tx %d: %w", id, err)
		}
		w.Refs[id] = r
	}
	w.Rec.mu.Lock()
	w.Rec.enabled = false // Close is a clean shutdown, not part of the crash space
	w.Rec.mu.Unlock()
	st.Close()
	return w, nil
}

func waitUntil(cond func() bool, d time.Duration) bool {
	deadline := time.Now().Add(d)
	for !cond() {
		if time.Now().After(deadline) {
			return false
		}
		time.Sleep(50 * time.Microsecond)
	}
	return true
}

// runDriven: a single driver decides the schedule; committers are goroutines blocked in Commit
// until the driver calls Sync (the store's own syncer never fires: SyncFrequency is 10 minutes).
func (w *Workload) runDriven(st *store.ImmuStore, rng *rand.Rand) error {
	var wg sync.WaitGroup
	var mu sync.Mutex
	inflight := 0
	nsteps := 10 + rng.Intn(14)
	if w.Cfg.Long {
		nsteps = 40 + rng.Intn(16)
	}
	launch := func() {
		kvs := randEntriesCfg(rng, w.Cfg)
		async := rng.Intn(3) == 0
		pre := st.LastPrecommittedTxID()
		done := make(chan struct{})
		mu.Lock()
		inflight++
		mu.Unlock()
		wg.Add(1)
		go func() {
			defer wg.Done()
			h, err := commitKVs(st, kvs, async, 120*time.Second)
			if err == nil {
				w.Rec.Ack(h.ID)
			} else {
				w.Rec.Mark("commit-failed")
			}
			mu.Lock()
			inflight--
			mu.Unlock()
			close(done)
		}()
		// deterministic rendezvous: the tx is precommitted (or was refused)
		waitUntil(func() bool {
			select {
			case <-done:
				return true
			default:
			}
			return st.LastPrecommittedTxID() > pre
		}, 5*time.Second)
	}
	syncNow := func() error {
		if err := st.Sync(); err != nil {
			return fmt.Errorf("Sync: %w", err)
		}
		return nil
	}
	allowed := uint64(0)
	for i := 0; i < nsteps; i++ {
		x := rng.Intn(10)
		if w.Cfg.FlushMore && x < 6 && x >= 3 {
			x = 8 // half of the plain commit steps become explicit index flushes
		}
		switch {
		case x < 6:
			w.Steps = append(w.Steps, "C")
			launch()
		case x < 8:
			w.Steps = append(w.Steps, "S")
			if w.Cfg.ExtAllow {
				p := st.LastPrecommittedTxID()
				if p > allowed {
					allowed += uint64(1 + rng.Intn(int(p-allowed)))
					st.AllowCommitUpto(allowed)
				}
			}
			if err := syncNow(); err != nil {
				return err
			}
		case x < 9:
			w.Steps = append(w.Steps, "F")
			cid, _ := st.CommittedAlh()
			ctx, cancel := context.WithTimeout(context.Background(), 5*time.Second)
			st.WaitForIndexingUpto(ctx, cid)
			cancel()
			st.FlushIndexes(0, rng.Intn(2) == 0)
		default:
			w.Steps = append(w.Steps, "CC")
			launch()
			launch()
		}
	}
	// drain: allow + sync everything so that all committers return
	for k := 0; k < 50; k++ {
		mu.Lock()
		n := inflight
		mu.Unlock()
		if n == 0 {
			break
		}
		if w.Cfg.ExtAllow {
			st.AllowCommitUpto(st.LastPrecommittedTxID())
		}
		if err := syncNow(); err != nil {
			return err
		}
		time.Sleep(200 * time.Microsecond)
	}
	wg.Wait()
	return nil
}

// runFree: real concurrency, the store's syncer commits on its own schedule.
func (w *Workload) runFree(st *store.ImmuStore, rng *rand.Rand) error {
	var wg sync.WaitGroup
	ncomm := 2 + rng.Intn(3)
	per := 3 + rng.Intn(4)
	if w.Cfg.Long {
		per = 8 + rng.Intn(5)
	}
	stop := make(chan struct{})
	if w.Cfg.ExtAllow {
		go func() {
			for {
				select {
				case <-stop:
					return
				default:
				}
				st.AllowCommitUpto(st.LastPrecommittedTxID())
				time.Sleep(500 * time.Microsecond)
			}
		}()
	}
	var firstErr error
	var emu sync.Mutex
	for c := 0; c < ncomm; c++ {
		crng := rand.New(rand.NewSource(rng.Int63()))
		wg.Add(1)
		go func() {
			defer wg.Done()
			for i := 0; i < per; i++ {
				kvs := randEntriesCfg(crng, w.Cfg)
				h, err := commitKVs(st, kvs, crng.Intn(3) == 0, 120*time.Second)
				if err == nil {
					w.Rec.Ack(h.ID)
				} else if !errors.Is(err, store.ErrMaxActiveTransactionsLimitExceeded) {
					emu.Lock()
					if firstErr == nil {
						firstErr = err
					}
					emu.Unlock()
				}
				if crng.Intn(3) == 0 {
					time.Sleep(time.Duration(crng.Intn(1500)) * time.Microsecond)
				}
			}
		}()
	}
	wg.Wait()
	close(stop)
	w.Steps = append(w.Steps, fmt.Sprintf("free:%dx%d", ncomm, per))
	return firstErr
}
