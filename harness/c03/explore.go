package c03

// explore.go: enumeration of crash points and crash images of a recorded workload, first and
// second incarnation (crash again during / after recovery), with the property check on each image.

import (
	"fmt"
	"path/filepath"
	"math/rand"
	"os"
	"sort"
	"strings"
	"sync"
)

type Budget struct {
	Points    int // crash points per workload (first incarnation)
	NRand     int // random per-file-prefix images per crash point (besides the 12 structured ones)
	Stage2    int // how many first-incarnation images are continued into a second incarnation
	Points2   int // crash points per second incarnation
	Workers   int
	AllAcks   bool // every point right after an acknowledgement is a crash point
	OnlyPol   []string // restrict the image policies (directed scenarios, replay)
	OnlyPoint int      // restrict to one crash point (replay); 0 = no restriction
	OnlyPol2  []string
}

type Stats struct {
	mu         sync.Mutex
	Images     int
	Images2    int
	Points     int
	OpenOK     int
	Reloaded   int // images on which recovery reloaded precommitted transactions
	Torn       int
	ByPolicy   map[string]int
	Violations map[string]int
}

func NewStats() *Stats { return &Stats{ByPolicy: map[string]int{}, Violations: map[string]int{}} }

// partialCommitEntry: with preallocated files, is the last non-zero commit-log slot of the image a
// partially written entry (its bytes differ from what the complete write put there)?
func partialCommitEntry(img map[string][]byte, full map[string][]byte) bool {
	for n, b := range img {
		if classOf(n) != "commit" {
			continue
		}
		h := headerLen(b)
		body, fb := b[h:], full[n][h:]
		for s := len(body)/44 - 1; s >= 0; s-- {
			slot := body[s*44 : s*44+44]
			if allZero(slot) {
				continue
			}
			if (s+1)*44 > len(fb) || string(slot) != string(fb[s*44:s*44+44]) {
				return true
			}
			break
		}
		if r := len(body) % 44; r != 0 && !allZero(body[len(body)-r:]) {
			return true
		}
	}
	return false
}

// final: the files as the OS saw them at the end of the traced run (every write complete)
// ahtEntries: number of complete entries in the hash tree's commit log of an image
func ahtEntries(img map[string][]byte) uint64 {
	var n uint64
	for name, b := range img {
		if strings.HasPrefix(filepath.ToSlash(name), "aht/commit/") {
			n += uint64((len(b) - headerLen(b)) / 12)
		}
	}
	return n
}

// ahtLogsRewound: the payload or digest log of the hash tree was rewound below its flushed size
// (bytes cut off, or chunk files removed) in the recorded events
func ahtLogsRewound(evs []Event) bool {
	for _, e := range evs {
		if e.Log != "aht/data" && e.Log != "aht/tree" {
			continue
		}
		if len(e.Removed) > 0 {
			return true
		}
		for _, w := range e.Writes {
			if w.Trunc {
				return true
			}
		}
	}
	return false
}

const tagTreeCut = " [the tree was rewound by recovery (ResetSize): its payload/digest logs were cut on disk while its commit log still lists the dropped entries]"

func annotate(v string, cfg Cfg, img map[string][]byte, final map[string][]byte) string {
	if cfg.Prealloc && strings.HasPrefix(v, "open fails after the crash") && partialCommitEntry(img, final) {
		return "PreallocFiles: the last commit-log entry is partially written and taken as committed: " + v
	}
	return v
}

// violation class: the text up to the first ':' that precedes variable detail, digits removed
func violClass(v string) string {
	var b strings.Builder
	for _, c := range v {
		if c >= '0' && c <= '9' {
			continue
		}
		b.WriteRune(c)
	}
	s := b.String()
	if i := strings.Index(s, ":"); i > 0 {
		s = s[:i]
	}
	if len(s) > 90 {
		s = s[:90]
	}
	return strings.TrimSpace(s)
}

func maxAckedBefore(evs []Event, p int) uint64 {
	var m uint64
	for i := 0; i < p && i < len(evs); i++ {
		if evs[i].Kind == "ack" && evs[i].Tx > m {
			m = evs[i].Tx
		}
	}
	return m
}

func endOfWorkload(evs []Event) int {
	for i, e := range evs {
		if e.Kind == "mark" && e.Note == "end-of-workload" {
			return i
		}
	}
	return len(evs)
}

// choosePoints: crash point p means "events[0..p) happened". Points right after an event that
// changed what is on disk or what is acknowledged are the interesting ones; the rest is sampled.
func choosePoints(evs []Event, n int, budget int, rng *rand.Rand, allAcks bool) []int {
	var hot, cold, acks []int
	for p := 1; p <= n; p++ {
		e := evs[p-1]
		if e.Kind == "open" && len(e.Writes) == 0 && len(e.Created) > 0 && p < 12 {
			continue // store creation
		}
		if allAcks && e.Kind == "ack" {
			acks = append(acks, p)
		} else if len(e.Writes) > 0 || len(e.Synced) > 0 || e.Kind == "ack" {
			hot = append(hot, p)
		} else {
			cold = append(cold, p)
		}
	}
	pick := func(l []int, k int) []int {
		if len(l) <= k {
			return l
		}
		rng.Shuffle(len(l), func(i, j int) { l[i], l[j] = l[j], l[i] })
		return l[:k]
	}
	ps := append(pick(hot, budget*4/5), pick(cold, budget/5)...)
	ps = append(ps, acks...)
	sort.Ints(ps)
	return ps
}

type job struct {
	p      int
	after  string
	policy string
	img    map[string][]byte
	acked  uint64
	stage2 bool
}

// Explore runs the crash-image search of one workload and returns the findings (replayable texts).
func Explore(w *Workload, b Budget, rng *rand.Rand, st *Stats) []string {
	evs := w.Rec.Events
	n := endOfWorkload(evs)
	points := choosePoints(evs, n, b.Points, rng, b.AllAcks)
	if b.OnlyPoint > 0 {
		points = []int{b.OnlyPoint}
	}
	want := map[int]bool{}
	for _, p := range points {
		want[p] = true
	}
	var findings []string
	var fmu sync.Mutex
	perClass := map[string]int{}
	report := func(v, where string) {
		fmu.Lock()
		defer fmu.Unlock()
		c := violClass(v)
		st.mu.Lock()
		st.Violations[c]++
		st.mu.Unlock()
		perClass[c]++
		if perClass[c] <= 2 {
			findings = append(findings, fmt.Sprintf("%s | seed=%d workload=%d cfg{%s} %s", v, w.Seed, w.Idx, w.Cfg, where))
		}
	}

	jobs := make(chan job, 64)
	var wg sync.WaitGroup
	workers := b.Workers
	if workers <= 0 {
		workers = 8
	}
	for k := 0; k < workers; k++ {
		jrng := rand.New(rand.NewSource(rng.Int63()))
		wg.Add(1)
		go func() {
			defer wg.Done()
			for j := range jobs {
				runJob(w, j, b, jrng, st, report)
			}
		}()
	}
	disk := NewDisk()
	seen := map[string]bool{}
	stage2Left := b.Stage2
	for p := 1; p <= n; p++ {
		disk.Apply(&evs[p-1])
		if !want[p] {
			continue
		}
		st.mu.Lock()
		st.Points++
		st.mu.Unlock()
		acked := maxAckedBefore(evs, p)
		pols := policies(rng, b.NRand)
		if len(b.OnlyPol) > 0 {
			pols = b.OnlyPol
		}
		after := fmt.Sprintf("%s %s", evs[p-1].Kind, evs[p-1].Log)
		for _, pol := range pols {
			img := disk.Image(pol)
			key := fmt.Sprintf("%s/%d", imageHash(img), acked)
			if seen[key] {
				continue
			}
			seen[key] = true
			j := job{p: p, after: after, policy: pol, img: img, acked: acked}
			if stage2Left > 0 && (len(b.OnlyPol) > 0 || rng.Intn(6) == 0 || pol == "only:aht" || pol == "except:val") {
				j.stage2 = true
				stage2Left--
			}
			jobs <- j
		}
	}
	close(jobs)
	wg.Wait()
	sort.Strings(findings)
	return findings
}

func runJob(w *Workload, j job, b Budget, rng *rand.Rand, st *Stats, report func(v, where string)) {
	dir, err := mkTemp("c03img")
	if err != nil {
		return
	}
	defer os.RemoveAll(dir)
	if err := Materialise(j.img, dir); err != nil {
		return
	}
	where := fmt.Sprintf("point=%d(after %s) image=%s acked<=%d", j.p, j.after, j.policy, j.acked)
	st.mu.Lock()
	st.Images++
	st.ByPolicy[strings.SplitN(j.policy, ":", 2)[0]]++
	st.mu.Unlock()
	if !j.stage2 {
		res := CheckImage(dir, w.Cfg, w.Refs, j.acked, nil, 1, rng)
		note(st, res)
		for _, v := range res.Viol {
			report(annotate(v, w.Cfg, j.img, w.Rec.shadow), where)
		}
		return
	}
	// second incarnation: traced recovery + fresh commits, then crash again
	disk2, err := DiskFromDir(dir)
	if err != nil {
		return
	}
	rec2 := NewRecorder(dir, true)
	if err := rec2.Preload(); err != nil {
		return
	}
	res := CheckImage(dir, w.Cfg, w.Refs, j.acked, rec2, 1+rng.Intn(2), rng)
	note(st, res)
	for _, v := range res.Viol {
		report(annotate(v, w.Cfg, j.img, w.Rec.shadow), where)
	}
	if res.st == nil {
		return
	}
	rec2.mu.Lock()
	rec2.enabled = false
	evs2 := append([]Event{}, rec2.Events...)
	final2 := map[string][]byte{}
	for n, b := range rec2.shadow {
		final2[n] = b
	}
	rec2.mu.Unlock()
	res.st.Close()
	if len(res.Viol) > 0 {
		return // the first incarnation is already in violation; do not pile up on it
	}
	// acknowledged set of the second incarnation: what was acknowledged before the first crash, plus
	// everything committed up to a fresh transaction whose commit returned
	refs2 := map[uint64]*txRef{}
	for id, r := range w.Refs {
		if id <= j.acked {
			refs2[id] = r
		}
	}
	for id, r := range res.Refs {
		if id > j.acked {
			refs2[id] = r
		}
	}
	points := choosePoints(evs2, len(evs2), b.Points2, rng, false)
	want := map[int]bool{}
	for _, p := range points {
		want[p] = true
	}
	seen := map[string]bool{}
	for p := 1; p <= len(evs2); p++ {
		disk2.Apply(&evs2[p-1])
		if !want[p] {
			continue
		}
		acked2 := maxAckedBefore(evs2, p)
		if acked2 < j.acked {
			acked2 = j.acked
		}
		pols := []string{"dur", "os", "notrunc", "only:tx", "except:aht", "only:aht", "except:val", fmt.Sprintf("rand:%d", rng.Intn(1<<30))}
		if len(b.OnlyPol2) > 0 {
			pols = b.OnlyPol2
		}
		for _, pol := range pols {
			img := disk2.Image(pol)
			key := fmt.Sprintf("%s/%d", imageHash(img), acked2)
			if seen[key] {
				continue
			}
			seen[key] = true
			dir3, err := mkTemp("c03img2")
			if err != nil {
				return
			}
			if err := Materialise(img, dir3); err == nil {
				st.mu.Lock()
				st.Images2++
				st.mu.Unlock()
				r3 := CheckImage(dir3, w.Cfg, refs2, acked2, nil, 1, rng)
				if os.Getenv("C03_DEBUG") != "" && r3.OpenErr != nil {
					fmt.Println("DEBUG open error", r3.OpenErr, "policy", pol, "point2", p)
					for _, n := range disk2.names() {
						f := disk2.files[n]
						fmt.Printf("   %-32s durable=%d pending=%d image=%d hdr=%d\n", n, len(f.durable), len(f.pending), len(img[n]), headerLen(img[n]))
					}
					for q := 0; q < p; q++ {
						e := evs2[q]
						if len(e.Created)+len(e.Removed) > 0 || e.Kind == "open" {
							fmt.Printf("   ev %d %s %s created=%d removed=%v writes=%d\n", q, e.Kind, e.Log, len(e.Created), e.Removed, len(e.Writes))
						}
					}
				}
				for _, v := range r3.Viol {
					if strings.Contains(v, "(the hash tree holds a stale leaf)") && ahtEntries(j.img) > res.Cid0+res.Reloaded {
						v += " [tree fsynced ahead of the tx log before the first crash, rewound in memory only]"
					}
					if strings.Contains(v, "could not open aht: ahtree:") && (strings.Contains(v, "data log is corrupted") || strings.Contains(v, "hash log is corrupted")) &&
						ahtEntries(j.img) > res.Cid0 && ahtLogsRewound(evs2[:p]) { // OpenWith resets the tree to the COMMITTED id
						v += tagTreeCut
					}
					report("after a second crash: "+annotate(v, w.Cfg, img, final2), fmt.Sprintf("%s >> recovery+%d fresh commit(s) >> point2=%d(after %s %s) image2=%s acked<=%d",
						where, len(res.Fresh), p, evs2[p-1].Kind, evs2[p-1].Log, pol, acked2))
				}
			}
			os.RemoveAll(dir3)
		}
	}
}

func note(st *Stats, res *Result) {
	st.mu.Lock()
	if res.OpenErr == nil {
		st.OpenOK++
	}
	if res.Reloaded > 0 {
		st.Reloaded++
	}
	st.mu.Unlock()
}
