package c03

// tie.go: projection of a recorded storage trace to a schedule of operations of the protocol model
// (coq/Crash/Protocol.v) together with what was observed at each point — the happens-before facts
// the proofs use, NOT the raw trace: Flush / buffer-full writes become OFlush (free in the model),
// only their order relative to Sync / commit-entry append / acknowledgement is constrained.

import (
	"fmt"
	"strings"
)

type schedule struct {
	items   []string // Coq terms of type `item` (CRun)
	ops     []string // Coq terms of type `op` (prefixes are used by CRec)
	opEnd   []int    // index of the last trace event belonging to ops[i]
	nTx     int
	nSync   int
	nFlush  int
	reason  string // non-empty: the trace cannot be expressed in the model (and why)
}

func isVal(log string) (int, bool) {
	if strings.HasPrefix(log, "val_") {
		var i int
		fmt.Sscanf(log[4:], "%d", &i)
		return i, true
	}
	return 0, false
}

func written(e *Event) int {
	n := 0
	for _, w := range e.Writes {
		n += len(w.Data)
	}
	return n
}

const modelRecOverhead = 76 + 45 // id, prevAlh, len, alh + value reference

// derive walks the trace of the first incarnation of a workload.
func derive(evs []Event, n int, nv int, grouped bool) *schedule {
	sc := &schedule{}
	inflight := 0
	inSync := false
	vSynced := 0
	txSynced := false
	committed := 0
	pendingCommit := 0
	emit := func(op, obs string, end int) {
		sc.items = append(sc.items, fmt.Sprintf("IOp %s %s", op, obs))
		sc.ops = append(sc.ops, op)
		sc.opEnd = append(sc.opEnd, end)
	}
	fid := func(log string) string {
		if i, ok := isVal(log); ok {
			return fmt.Sprintf("(FVal %d)", i)
		}
		switch log {
		case "tx":
			return "FTx"
		case "commit":
			return "FCm"
		}
		return ""
	}
	skip := map[int]bool{}
	merged := map[int]bool{} // value appends already covered by the OVal of their transaction
	valSince := false        // a value append belonging to the NEXT precommit has been seen
	cycleAht := false        // the hash tree fsynced inside the current sync()
	for i := 0; i < n; i++ {
		e := &evs[i]
		if skip[i] {
			continue
		}
		if e.Kind == "mark" && e.Note == "commit-failed" {
			valSince = false // values appended by a commit that was refused: orphan extent
			continue
		}
		if e.Kind == "ack" {
			sc.items = append(sc.items, fmt.Sprintf("IAck %d", e.Tx))
			continue
		}
		f := fid(e.Log)
		if f == "" {
			// hash tree and index logs are not part of the schedule; noted: the tree fsynced by sync()
			// itself, between the tx-log Sync and the commit-log append
			if txSynced && e.Log == "aht/commit" && e.Kind == "sync" {
				cycleAht = true
			}
			continue
		}
		vi, isv := isVal(e.Log)
		switch e.Kind {
		case "append":
			switch {
			case isv && merged[i]:
				// part of the extent already appended by the OVal of this transaction
			case isv:
				total := e.Len
				if grouped {
					// sequential committers: all values of one transaction are appended back to back to
					// one value log (appendValuesInto under the vLog lock): ONE extent in the model
					for j := i + 1; j < n; j++ {
						ej := &evs[j]
						if ej.Log == e.Log {
							if ej.Kind != "append" {
								break
							}
							total += ej.Len
							merged[j] = true
							continue
						}
						if _, v := isVal(ej.Log); v || ej.Log == "tx" || ej.Log == "commit" || ej.Kind == "mark" {
							break
						}
					}
				}
				emit(fmt.Sprintf("(OVal %d (zeros %d))", vi, total), fmt.Sprintf("(OOff %d)", e.Off), i)
				inflight++
				valSince = true
			case e.Log == "tx":
				if e.Len < modelRecOverhead {
					sc.reason = "tx record shorter than the model's fixed part"
					return sc
				}
				if inflight == 0 || (grouped && !valSince) {
					emit("(OVal 0 (zeros 0))", "ONone", i-1) // a transaction without (non-empty) values: nothing is appended
					inflight++
				}
				pick := 0 // concurrent committers: which extent belongs to which record is not observable
				if grouped {
					pick = inflight - 1 // sequential committers: the extent appended last
				}
				valSince = false
				// did the hash tree fsync during this precommit? (its events follow, same critical section)
				ahtSync := false
				end := i
				for j := i + 1; j < n; j++ {
					l := evs[j].Log
					if strings.HasPrefix(l, "index") || evs[j].Kind == "ack" || evs[j].Kind == "mark" {
						continue
					}
					if !strings.HasPrefix(l, "aht") {
						if _, v := isVal(l); v && evs[j].Kind == "append" {
							continue // a concurrent committer's value append (no commit lock)
						}
						break
					}
					end = j
					if l == "aht/commit" && evs[j].Kind == "sync" {
						ahtSync = true
					}
				}
				emit(fmt.Sprintf("(OPre %d (zeros %d))", pick, e.Len-modelRecOverhead),
					fmt.Sprintf("(OTx %d %d %v)", e.Off, e.Len, ahtSync), end)
				inflight--
				sc.nTx++
				if w := written(e); w > 0 {
					emit(fmt.Sprintf("(OFlush FTx %d)", w), "ONone", end)
					sc.nFlush++
				}
				continue
			case e.Log == "commit":
				if !txSynced {
					sc.reason = "commit entries appended without a preceding tx-log Sync"
					// still emitted: the model will refuse OSyncTx unless it is in the right phase
				}
				// one Append per entry: the run of consecutive commit-log appends is ONE model step
				total, wr, end := 0, 0, i
				for j := i; j < n; j++ {
					ej := &evs[j]
					if ej.Log == "commit" {
						if ej.Kind != "append" {
							break
						}
						total += ej.Len
						wr += written(ej)
						end = j
						skip[j] = true
						continue
					}
					if _, v := isVal(ej.Log); v && ej.Kind == "append" {
						continue
					}
					if strings.HasPrefix(ej.Log, "index") || ej.Kind == "ack" || ej.Kind == "mark" {
						continue
					}
					break
				}
				if total%44 != 0 {
					sc.reason = "commit-log append is not a multiple of the entry size"
					return sc
				}
				pendingCommit = total / 44
				emit("OSyncTx", fmt.Sprintf("(OCnt %d %v)", pendingCommit, cycleAht), end)
				txSynced = false
				cycleAht = false
				if wr > 0 {
					emit(fmt.Sprintf("(OFlush FCm %d)", wr), "ONone", end)
					sc.nFlush++
				}
				continue
			}
			if w := written(e); w > 0 {
				emit(fmt.Sprintf("(OFlush %s %d)", f, w), "ONone", i)
				sc.nFlush++
			}
		case "flush":
			if w := written(e); w > 0 {
				emit(fmt.Sprintf("(OFlush %s %d)", f, w), "ONone", i)
				sc.nFlush++
			}
		case "sync":
			switch {
			case isv:
				if !inSync {
					emit("OSyncStart", "ONone", i)
					inSync = true
					vSynced = 0
				}
				emit(fmt.Sprintf("(OSyncV %d)", vi), "ONone", i)
				vSynced++
			case e.Log == "tx":
				if !inSync { // no value logs would be nv = 0, which the store does not allow here
					emit("OSyncStart", "ONone", i)
					inSync = true
				}
				txSynced = true
			case e.Log == "commit":
				committed += pendingCommit
				emit("OSyncC", fmt.Sprintf("(OCommitted %d)", committed), i)
				inSync = false
				sc.nSync++
			}
		}
	}
	if txSynced {
		sc.reason = "a tx-log Sync is not followed by a commit (external allowance / interrupted sync)"
	}
	_ = vSynced
	return sc
}

func coqList(xs []string) string { return "[" + strings.Join(xs, "; ") + "]" }
