package c03

// image.go: from a recorded trace, the durability-aware state of every file at a crash point
// (durable content as of the last fsync + the ordered list of writes handed to the OS since), the
// admissible crash images of that state, and their materialisation as a real store directory.

import (
	"crypto/sha256"
	"encoding/hex"
	"fmt"
	"math/rand"
	"os"
	"path/filepath"
	"sort"
	"strings"
)

type fstate struct {
	durable []byte
	pending []Write
	absent  bool // no durable version: the file exists only if one of its pending replacements is on disk
}

type Disk struct {
	files map[string]*fstate
}

func NewDisk() *Disk { return &Disk{files: map[string]*fstate{}} }

// DiskFromDir: every file of a directory as durable content (start of a second incarnation).
func DiskFromDir(root string) (*Disk, error) {
	d := NewDisk()
	err := filepath.Walk(root, func(p string, info os.FileInfo, err error) error {
		if err != nil || info.IsDir() {
			return err
		}
		rel, _ := filepath.Rel(root, p)
		b, err := os.ReadFile(p)
		if err != nil {
			return err
		}
		d.files[rel] = &fstate{durable: b}
		return nil
	})
	return d, err
}

func overlay(base []byte, w Write, n int) []byte {
	// first n bytes of write w applied over base; a truncation cuts; an atomic replacement replaces
	if w.Whole {
		return clone(w.Data)
	}
	if w.Trunc {
		if int(w.Off) < len(base) {
			return base[:w.Off:w.Off]
		}
		return base
	}
	end := int(w.Off) + n
	if end > len(base) {
		nb := make([]byte, end)
		copy(nb, base)
		base = nb
	}
	copy(base[w.Off:], w.Data[:n])
	return base
}

func (d *Disk) Apply(ev *Event) {
	for _, c := range ev.Created {
		d.files[c.File] = &fstate{durable: clone(c.Data)}
	}
	for _, w := range ev.Writes {
		f := d.files[w.File]
		if f == nil {
			f = &fstate{durable: []byte{}, absent: w.Whole}
			d.files[w.File] = f
		}
		f.pending = append(f.pending, w)
	}
	for _, s := range ev.Synced {
		if f := d.files[s]; f != nil {
			b := clone(f.durable)
			for _, w := range f.pending {
				b = overlay(b, w, len(w.Data))
			}
			f.durable = b
			f.pending = nil
		}
	}
	for _, r := range ev.Removed {
		delete(d.files, r)
	}
}

// snapshot: a copy that later Apply calls do not affect (contents are never mutated in place).
func (d *Disk) snapshot() *Disk {
	c := NewDisk()
	for n, f := range d.files {
		c.files[n] = &fstate{durable: f.durable, pending: append([]Write{}, f.pending...), absent: f.absent}
	}
	return c
}

// class of a file: tx, commit, val, aht, index
func classOf(file string) string {
	if strings.HasPrefix(filepath.Base(file), "TIMESTAMP") {
		return "meta" // index timestamp files: written by rename, not through an appendable
	}
	top := strings.Split(filepath.ToSlash(file), "/")[0]
	if strings.HasPrefix(top, "val_") {
		return "val"
	}
	return top
}

var classes = []string{"tx", "commit", "val", "aht", "index", "meta"}

// A policy decides, per file, how many pending writes reached the disk (k full writes and t bytes
// of the next one). It is a short string so that an image is reproducible from (point, policy).
//
//	dur            nothing that was not fsynced
//	os             everything handed to the OS (process kill)
//	only:<class>   files of the class as the OS saw them, all other files durable only
//	except:<class> files of the class durable only, all others as the OS saw them
//	rand:<n>       independent pseudo-random prefix per file (seed n), torn last write one in two,
//	               a truncation inside the prefix missing one in two
//	notrunc        everything handed to the OS except the truncations (the inode sizes did not
//	               reach the disk: stale bytes behind rewound offsets)
func policies(rng *rand.Rand, nrand int) []string {
	ps := []string{"dur", "os", "notrunc"}
	for _, c := range classes {
		ps = append(ps, "only:"+c, "except:"+c)
	}
	for i := 0; i < nrand; i++ {
		ps = append(ps, fmt.Sprintf("rand:%d", rng.Intn(1<<30)))
	}
	return ps
}

func (d *Disk) names() []string {
	ns := make([]string, 0, len(d.files))
	for n := range d.files {
		ns = append(ns, n)
	}
	sort.Strings(ns)
	return ns
}

// Image computes the content of every file under a policy.
func (d *Disk) Image(policy string) map[string][]byte {
	img := map[string][]byte{}
	var prng *rand.Rand
	if strings.HasPrefix(policy, "rand:") {
		var s int64
		fmt.Sscanf(policy[5:], "%d", &s)
		prng = rand.New(rand.NewSource(s))
	}
	for _, n := range d.names() {
		f := d.files[n]
		b := clone(f.durable)
		k, t := 0, 0
		cl := classOf(n)
		switch {
		case policy == "dur":
		case policy == "os", policy == "notrunc":
			k = len(f.pending)
		case strings.HasPrefix(policy, "only:"):
			if cl == policy[5:] {
				k = len(f.pending)
			}
		case strings.HasPrefix(policy, "except:"):
			if cl != policy[7:] {
				k = len(f.pending)
			}
		case strings.HasPrefix(policy, "mask:"):
			// mask:<tx><commit><val><aht><index>, 1 = as the OS saw the files of the class
			m := policy[5:]
			for ci, c := range classes {
				if c == cl && ci < len(m) && m[ci] == '1' {
					k = len(f.pending)
				}
			}
		case prng != nil:
			if len(f.pending) > 0 {
				k = prng.Intn(len(f.pending) + 1)
				if k < len(f.pending) && !f.pending[k].Trunc && !f.pending[k].Whole && len(f.pending[k].Data) > 0 && prng.Intn(2) == 0 {
					t = prng.Intn(len(f.pending[k].Data))
				}
			}
		}
		for i := 0; i < k; i++ {
			if f.pending[i].Trunc && (policy == "notrunc" || (prng != nil && prng.Intn(2) == 0)) {
				continue
			}
			b = overlay(b, f.pending[i], len(f.pending[i].Data))
		}
		if t > 0 {
			b = overlay(b, f.pending[k], t)
		}
		if f.absent && k == 0 {
			continue // the rename never reached the disk
		}
		img[n] = b
	}
	return img
}

func imageHash(img map[string][]byte) string {
	ns := make([]string, 0, len(img))
	for n := range img {
		ns = append(ns, n)
	}
	sort.Strings(ns)
	h := sha256.New()
	for _, n := range ns {
		s := sha256.Sum256(img[n])
		h.Write([]byte(n))
		h.Write([]byte{0})
		h.Write(s[:])
	}
	return hex.EncodeToString(h.Sum(nil)[:12])
}

func Materialise(img map[string][]byte, dir string) error {
	for n, b := range img {
		p := filepath.Join(dir, n)
		if err := os.MkdirAll(filepath.Dir(p), 0o755); err != nil {
			return err
		}
		if err := os.WriteFile(p, b, 0o644); err != nil {
			return err
		}
	}
	return nil
}

// hasPending reports whether some file of the class has un-fsynced writes.
func (d *Disk) pendingBytes() map[string]int {
	m := map[string]int{}
	for n, f := range d.files {
		for _, w := range f.pending {
			m[classOf(n)] += len(w.Data)
		}
	}
	return m
}

// tmpBase: temporary store directories go to a memory file system when there is one (thousands of
// small stores are created and fsynced by the real code); "" = the default temp dir.
func tmpBase() string {
	if fi, err := os.Stat("/dev/shm"); err == nil && fi.IsDir() {
		if d, err := os.MkdirTemp("/dev/shm", "c03probe"); err == nil {
			os.RemoveAll(d)
			return "/dev/shm"
		}
	}
	return ""
}

var tmpRoot = tmpBase()

func mkTemp(pat string) (string, error) { return os.MkdirTemp(tmpRoot, pat) }
