package c03

// check.go: the property checked DIRECTLY on the real store opened on a materialised crash image.

import (
	"bytes"
	"context"
	"crypto/sha256"
	"fmt"
	"math/rand"
	"sort"
	"time"

	"github.com/codenotary/immudb/embedded/store"
)

type Result struct {
	Viol      []string          // violations of the property statement (short, stable texts)
	OpenErr   error
	Committed uint64            // committed id after recovery (and after the syncer's first pass)
	Cid0      uint64            // committed id right after Open
	Reloaded  uint64            // precommitted txs reloaded by recovery
	Fresh     []*txRef          // transactions committed (and acknowledged) after recovery
	Refs      map[uint64]*txRef // the recovered committed history, as far as it is readable
	st        *store.ImmuStore
}

// retry: the chunk cache of multiapp can make a ReadAt fail spuriously ("key not found") when a
// concurrent reader (the indexer) evicts the chunk between its insertion and its lookup
// (appendableFor); that is not a durability matter, so reads are repeated before a failure counts.
func retry(f func() error) error {
	var err error
	for i := 0; i < 4; i++ {
		if err = f(); err == nil {
			return nil
		}
		time.Sleep(time.Duration(i+1) * time.Millisecond)
	}
	return err
}

func (r *Result) violf(f string, a ...any) { r.Viol = append(r.Viol, fmt.Sprintf(f, a...)) }

func sampleIDs(rng *rand.Rand, max uint64, n int) []uint64 {
	if max == 0 {
		return nil
	}
	set := map[uint64]bool{1: true, max: true}
	for i := 0; i < n && uint64(len(set)) < max; i++ {
		set[1+uint64(rng.Int63n(int64(max)))] = true
	}
	var ids []uint64
	for id := range set {
		ids = append(ids, id)
	}
	sort.Slice(ids, func(i, j int) bool { return ids[i] < ids[j] })
	return ids
}

// CheckImage opens the real store on dir and checks the property. refs/maxAcked: the transactions
// acknowledged before the crash (ids 1..maxAcked, as the live store read them back). rec != nil:
// the run is itself traced (second incarnation) and the store is left OPEN in res.st for the caller
// to enumerate crash points; otherwise it is closed.
func CheckImage(dir string, cfg Cfg, refs map[uint64]*txRef, maxAcked uint64, rec *Recorder, nfresh int, rng *rand.Rand) (res *Result) {
	res = &Result{Refs: map[uint64]*txRef{}}
	defer func() {
		if p := recover(); p != nil {
			res.violf("panic while recovering/reading the store: %v", p)
		}
	}()
	st, err := store.Open(dir, cfg.options(time.Millisecond, rec))
	if err != nil {
		res.OpenErr = err
		res.violf("open fails after the crash: %v", err)
		return
	}
	res.st = st
	if rec == nil {
		defer func() { st.Close(); res.st = nil }()
	}
	cid0, _ := st.CommittedAlh()
	pid := st.LastPrecommittedTxID()
	res.Reloaded = pid - cid0
	res.Cid0 = cid0
	if cid0 < maxAcked {
		res.violf("acknowledged tx lost: recovered committed id %d < acknowledged %d", cid0, maxAcked)
	}
	// what the store's syncer does on its first pass: make the reloaded precommitted txs committed
	if cfg.ExtAllow {
		st.AllowCommitUpto(pid)
	}
	if err := st.Sync(); err != nil {
		res.violf("Sync after recovery fails: %v", err)
	}
	cid, calh := st.CommittedAlh()
	res.Committed = cid

	// ---- history: gap-free, chained, acknowledged part byte-identical, every value readable
	type last struct {
		val []byte
		tx  uint64
		ok  bool
	}
	latest := map[string]*last{}
	var alhs [][sha256.Size]byte
	staleTree := false
	prev := sha256.Sum256(nil)
	var lastHdr *store.TxHeader
	tx := store.NewTx(maxTxEntries, maxKeyLen)
	for id := uint64(1); id <= cid; id++ {
		if err := retry(func() error { return st.ReadTx(id, false, tx) }); err != nil {
			if id <= maxAcked {
				res.violf("acknowledged tx %d cannot be read after recovery: %v", id, err)
			} else {
				res.violf("recovered committed tx %d (not acknowledged before the crash) cannot be read: %v", id, err)
			}
			return
		}
		h := tx.Header()
		if h.ID != id {
			res.violf("tx at position %d has id %d (gap)", id, h.ID)
		}
		if h.PrevAlh != prev {
			res.violf("hash chain broken at tx %d (PrevAlh is not the Alh of tx %d)", id, id-1)
		}
		prev = h.Alh()
		lastHdr = h
		if !blRootOK(h, alhs) {
			res.violf("recovered tx %d: BlRoot is not the Merkle root of the recovered transactions 1..%d (the hash tree holds a stale leaf)", id, h.BlTxID)
			staleTree = true
		}
		alhs = append(alhs, h.Alh())
		cur := &txRef{ID: id, Alh: h.Alh(), PrevAlh: h.PrevAlh, Hdr: h}
		ref := refs[id]
		if id <= maxAcked && ref != nil {
			if ref.Alh != h.Alh() {
				res.violf("acknowledged tx %d differs after recovery (Alh)", id)
			}
			if len(ref.KVs) != len(tx.Entries()) {
				res.violf("acknowledged tx %d differs after recovery (entries)", id)
			}
		}
		for i, e := range tx.Entries() {
			var v []byte
			err := retry(func() (e2 error) { v, e2 = st.ReadValue(e); return })
			l := &last{tx: id}
			if err != nil {
				if id <= maxAcked {
					res.violf("acknowledged tx %d: value of entry %d unreadable after recovery: %v", id, i, err)
				} else {
					res.violf("recovered committed tx %d (reloaded precommitted, never acknowledged) has an unreadable value: %v", id, err)
				}
			} else {
				l.ok, l.val = true, v
				cur.KVs = append(cur.KVs, kv{Key: e.Key(), Val: v})
				if id <= maxAcked && ref != nil && i < len(ref.KVs) {
					if !bytes.Equal(ref.KVs[i].Key, e.Key()) || !bytes.Equal(ref.KVs[i].Val, v) {
						res.violf("acknowledged tx %d differs after recovery (entry %d)", id, i)
					}
				}
			}
			if md := e.Metadata(); md != nil && md.NonIndexable() {
				continue // never reaches the index
			}
			latest[string(e.Key())] = l
		}
		res.Refs[id] = cur
	}
	if cid > 0 && prev != calh {
		res.violf("CommittedAlh is not the Alh of the last committed tx %d", cid)
	}

	ctx, cancel := context.WithTimeout(context.Background(), 90*time.Second)
	defer cancel()

	// proof failures are held back until the hash tree has been cross-checked through the BlRoot
	// of a fresh transaction: over a stale tree they are consequences, the root cause is reported
	var proofViol []string
	defer func() {
		if !staleTree {
			res.Viol = append(res.Viol, proofViol...)
		}
	}()
	verify := func(what string, src *txRef, tgt *store.TxHeader) {
		var p *store.DualProof
		err := retry(func() (e2 error) { p, e2 = st.DualProof(src.Hdr, tgt); return })
		if err != nil {
			proofViol = append(proofViol, fmt.Sprintf("DualProof(%s) cannot be built: %v", what, err))
			return
		}
		if !store.VerifyDualProof(p, src.ID, tgt.ID, src.Alh, tgt.Alh()) {
			proofViol = append(proofViol, fmt.Sprintf("DualProof(%s) does not verify", what))
		}
	}
	acked := sampleIDs(rng, maxAcked, 3)
	if lastHdr != nil {
		for _, i := range acked {
			if refs[i] != nil && i <= cid {
				verify(fmt.Sprintf("acked tx %d -> recovered tx %d", i, cid), refs[i], lastHdr)
			}
		}
	}

	// ---- index
	checkIndex := func(upto uint64) {
		if err := st.WaitForIndexingUpto(ctx, upto); err != nil {
			res.violf("index does not catch up to tx %d: %v", upto, err)
			return
		}
		keys := make([]string, 0, len(latest))
		for k := range latest {
			keys = append(keys, k)
		}
		sort.Strings(keys)
		for _, k := range keys {
			l := latest[k]
			var vr store.ValueRef
			err := retry(func() (e2 error) { vr, e2 = st.Get(ctx, []byte(k)); return })
			if err != nil {
				res.violf("Get(%s) fails: %v (latest committed value is in tx %d)", k, err, l.tx)
				continue
			}
			if vr.Tx() != l.tx {
				res.violf("Get(%s) returns the value of tx %d, latest committed is tx %d", k, vr.Tx(), l.tx)
				continue
			}
			var v []byte
			err = retry(func() (e2 error) { v, e2 = vr.Resolve(); return })
			if err != nil {
				if l.ok {
					res.violf("Get(%s): value of tx %d cannot be resolved: %v", k, l.tx, err)
				}
				continue
			}
			if l.ok && !bytes.Equal(v, l.val) {
				res.violf("Get(%s) returns a wrong value for tx %d", k, l.tx)
			}
		}
	}
	checkIndex(cid)

	// ---- the store accepts new commits; proofs from acknowledged states to the new state verify
	for f := 0; f < nfresh; f++ {
		kvs := []kv{{Key: []byte(fmt.Sprintf("f%d", rng.Intn(3))), Val: []byte(fmt.Sprintf("fresh-%d-%d", cid, rng.Intn(1000)))},
			{Key: []byte(fmt.Sprintf("k%d", rng.Intn(6))), Val: vkRand(rng, 1+rng.Intn(30))}}
		var hdr *store.TxHeader
		var err error
		if cfg.ExtAllow {
			done := make(chan struct{})
			go func() {
				for {
					select {
					case <-done:
						return
					default:
						st.AllowCommitUpto(st.LastPrecommittedTxID())
						time.Sleep(200 * time.Microsecond)
					}
				}
			}()
			hdr, err = commitKVs(st, kvs, false, 90*time.Second)
			close(done)
		} else {
			hdr, err = commitKVs(st, kvs, false, 90*time.Second)
		}
		if err != nil {
			res.violf("a fresh commit after recovery fails: %v", err)
			return
		}
		if rec != nil {
			rec.Ack(hdr.ID)
		}
		if hdr.ID != cid+1+uint64(f) {
			res.violf("fresh commit got id %d, expected %d", hdr.ID, cid+1+uint64(f))
		}
		fr, err := readRef(st, hdr.ID)
		if err != nil {
			res.violf("fresh tx %d cannot be read back: %v", hdr.ID, err)
			return
		}
		if !blRootOK(fr.Hdr, alhs) {
			res.violf("tx %d committed after recovery: BlRoot is not the Merkle root of the recovered transactions 1..%d (the hash tree holds a stale leaf)", hdr.ID, fr.Hdr.BlTxID)
			staleTree = true
		}
		alhs = append(alhs, fr.Alh)
		for i, e := range kvs {
			if i >= len(fr.KVs) || !bytes.Equal(fr.KVs[i].Val, e.Val) {
				res.violf("fresh tx %d reads back differently", hdr.ID)
			}
			latest[string(e.Key)] = &last{val: e.Val, tx: hdr.ID, ok: true}
		}
		res.Fresh = append(res.Fresh, fr)
		res.Refs[hdr.ID] = fr
		for _, i := range acked {
			if refs[i] != nil && i <= cid {
				verify(fmt.Sprintf("acked tx %d -> fresh tx %d", i, hdr.ID), refs[i], fr.Hdr)
			}
		}
		if r := res.Refs[hdr.ID-1]; r != nil {
			verify(fmt.Sprintf("recovered tx %d -> fresh tx %d", hdr.ID-1, hdr.ID), r, fr.Hdr)
		}
		if f == nfresh-1 {
			checkIndex(hdr.ID)
		}
	}
	return
}

// mth: the reference Merkle tree hash (RFC 6962 shape, leaf = H(0x00|d), node = H(0x01|l|r)) that
// the store's accumulative hash tree implements (property C08).
func mth(leaves [][sha256.Size]byte) [sha256.Size]byte {
	if len(leaves) == 1 {
		return sha256.Sum256(append([]byte{0}, leaves[0][:]...))
	}
	k := 1
	for k*2 < len(leaves) {
		k *= 2
	}
	l, r := mth(leaves[:k]), mth(leaves[k:])
	b := append([]byte{1}, l[:]...)
	return sha256.Sum256(append(b, r[:]...))
}

// blRootOK: the BlRoot of a header is the Merkle root of the Alh values of transactions 1..BlTxID
// of the recovered history.
func blRootOK(h *store.TxHeader, alhs [][sha256.Size]byte) bool {
	if h.BlTxID == 0 {
		// no tree to commit to. (Observed: the first transaction after a recovery with an empty
		// history can carry a non-zero BlRoot left in the pooled tx holder by the recovery's parse of
		// the log tail; it is hashed into its Alh consistently and no verifier looks at it.)
		return true
	}
	if int(h.BlTxID) > len(alhs) {
		return false
	}
	return h.BlRoot == mth(alhs[:h.BlTxID])
}

func vkRand(rng *rand.Rand, n int) []byte {
	b := make([]byte, n)
	rng.Read(b)
	return b
}
