package c03

// c03.go: Gen / Replay of the C03 check.
//
//	gen -n N : N workloads (configuration and schedule drawn from the seed) run on the real store over
//	           the traced appendables; for each: (1) the crash-image search (falsifier), (2) the
//	           correspondence cases CRun / CRec for the protocol model; plus the directed scenarios that
//	           replay the Coq witnesses A, B, C on the real store.

import (
	"fmt"
	"math/rand"
	"os"
	"sort"
	"strings"
	"time"

	"github.com/codenotary/immudb/embedded/store"
	"verif/harness/vk"
)

func tier() string { return os.Getenv("VERIF_TIER") }

func budgetFor(t string) Budget {
	if t == "thorough" {
		return Budget{Points: 120, NRand: 4, Stage2: 24, Points2: 10, Workers: 12}
	}
	return Budget{Points: 26, NRand: 2, Stage2: 5, Points2: 5, Workers: 12}
}

// probeImage: what the real store recovers on an image (no commits, no Sync).
func probeImage(dir string, cfg Cfg) (ok bool, cid, reloaded uint64) {
	defer func() {
		if p := recover(); p != nil {
			ok = false
		}
	}()
	st, err := store.Open(dir, cfg.options(10*time.Minute, nil))
	if err != nil {
		return false, 0, 0
	}
	defer st.Close()
	cid, _ = st.CommittedAlh()
	return true, cid, st.LastPrecommittedTxID() - cid
}

var recMasks = []string{"00000", "11111", "10000", "01000", "01110", "10110", "00010", "11011"}

func polTerm(m string) string {
	b := func(i int) string { return vk.Bool(m[i] == '1') }
	return fmt.Sprintf("(mkPol %s %s %s %s)", b(0), b(1), b(2), b(3))
}

// tieCases emits the correspondence cases of one workload.
func tieCases(r *vk.Run, w *Workload, rng *rand.Rand, nrec int) {
	base := func() map[string]any {
		return map[string]any{"seed": w.Seed, "workload": w.Idx, "cfg": w.Cfg}
	}
	if w.Cfg.Embedded || w.Cfg.ExtAllow || w.Cfg.Prealloc {
		r.Stats["untied/embedded-extallow-prealloc"]++
		return
	}
	if w.Cfg.Physical {
		// the protocol model treats a log as one file: chunk-level durability is falsifier-side only
		r.Stats["untied/physical-chunk-level"]++
		return
	}
	evs := w.Rec.Events
	n := endOfWorkload(evs)
	sc := derive(evs, n, w.Cfg.IOConc, !w.Cfg.Free)
	if sc.reason != "" {
		// the real trace has a shape the model has no schedule for: that is a disagreement
		js := base()
		js["kind"] = "run"
		js["reason"] = sc.reason
		r.Case(fmt.Sprintf("CRun %d %d %d %s", w.Cfg.AhtThld, w.Cfg.MaxActive, w.Cfg.IOConc, coqList(append(sc.items, "IAck 1000000"))),
			js, "run/unrepresentable", true)
		return
	}
	js := base()
	js["kind"] = "run"
	js["txs"] = sc.nTx
	js["syncs"] = sc.nSync
	js["flushes"] = sc.nFlush
	js["items"] = len(sc.items)
	bucket := "run/driven"
	if w.Cfg.Free {
		bucket = "run/free"
	}
	r.Case(fmt.Sprintf("CRun %d %d %d %s", w.Cfg.AhtThld, w.Cfg.MaxActive, w.Cfg.IOConc, coqList(sc.items)),
		js, bucket, sc.nTx >= 2 && sc.nSync >= 1)

	// recovery correspondence at crash points between model operations.  Recovery looks at the values
	// of the reloaded records (fix ccd70f3): with concurrent committers the trace does not tell which
	// value extent belongs to which record, so only sequential-committer workloads are compared.
	if len(sc.ops) == 0 {
		return
	}
	if w.Cfg.Free {
		r.Stats["rec-skipped/concurrent-committers"]++
		return
	}
	idx := rng.Perm(len(sc.ops))
	if len(idx) > nrec {
		idx = idx[:nrec]
	}
	sort.Ints(idx)
	want := map[int][]int{} // trace point -> op counts
	for _, j := range idx {
		// all operations that end with the same trace event belong to the prefix
		for j+1 < len(sc.ops) && sc.opEnd[j+1] == sc.opEnd[j] {
			j++
		}
		want[sc.opEnd[j]+1] = append(want[sc.opEnd[j]+1], j+1)
	}
	disk := NewDisk()
	seen := map[string]bool{}
	// a chunk rotation fsyncs the chunk it leaves: the model has no chunks, so its notion of "durable
	// only" differs for that log from then on; such (class, durable-only) images are not compared
	rot := map[string]bool{}
	for p := 1; p <= n; p++ {
		disk.Apply(&evs[p-1])
		if evs[p-1].Kind == "append" && len(evs[p-1].Synced) > 0 {
			rot[classOf(evs[p-1].Log+"/x")] = true
		}
		for _, nops := range want[p] {
			// several ops can end at the same event (append + auto flush): take the longest prefix
			last := true
			for _, other := range want[p] {
				if other > nops {
					last = false
				}
			}
			if !last {
				continue
			}
			for _, m := range recMasks {
				skipMask := false
				for ci, c := range classes {
					if rot[c] && ci < 4 && m[ci] == '0' {
						skipMask = true
					}
				}
				if skipMask {
					r.Stats["rec-skipped/rotation-fsync"]++
					continue
				}
				img := disk.Image("mask:" + m)
				key := imageHash(img)
				if seen[key+m[:4]] {
					continue
				}
				seen[key+m[:4]] = true
				dir, err := mkTemp("c03rec")
				if err != nil {
					continue
				}
				ok, cid, rel := false, uint64(0), uint64(0)
				if Materialise(img, dir) == nil {
					ok, cid, rel = probeImage(dir, w.Cfg)
				}
				os.RemoveAll(dir)
				js := base()
				js["kind"] = "rec"
				js["point"] = p
				js["ops"] = nops
				js["mask"] = m
				js["open_ok"] = ok
				js["committed"] = cid
				js["reloaded"] = rel
				b := "rec/other"
				switch {
				case !ok:
					b = "rec/open-fails"
				case rel > 0:
					b = "rec/reloaded-precommitted"
				case cid > 0:
					b = "rec/committed-only"
				default:
					b = "rec/empty"
				}
				r.Case(fmt.Sprintf("CRec %d %d %d %s %s %s %d %d", w.Cfg.AhtThld, w.Cfg.MaxActive, w.Cfg.IOConc,
					coqList(sc.ops[:nops]), polTerm(m), vk.Bool(ok), cid, rel), js, b, cid+rel > 0)
			}
		}
	}
}

func runOne(r *vk.Run, seed int64, k int, cfg Cfg, b Budget, st *Stats, nrec int) {
	rng := rand.New(rand.NewSource(seed*977 + int64(k)))
	var dir string
	var err error
	if cfg.Physical {
		if !PhysicalAvailable(os.TempDir()) {
			r.Stats["physical-unavailable(no cachestat or memory fs): derived durability used"]++
			cfg.Physical = false
			dir, err = mkTemp("c03w")
		} else {
			dir, err = os.MkdirTemp("", "c03phys") // a disk file system: fsync and dirty pages are real
		}
	} else {
		dir, err = mkTemp("c03w")
	}
	if err != nil {
		r.Finding(fmt.Sprintf("harness: cannot create a temp dir: %v", err))
		return
	}
	defer os.RemoveAll(dir)
	w, err := RunWorkload(seed, k, cfg, dir)
	if err != nil {
		r.Finding(fmt.Sprintf("workload fails on the live store (no crash involved): %v | seed=%d workload=%d cfg{%s}", err, seed, k, cfg))
		return
	}
	for _, f := range Explore(w, b, rng, st) {
		r.Finding(f)
	}
	tieCases(r, w, rng, nrec)
}

// directed scenarios: the Coq witnesses of Crash/Refuted.v on the real store
func directed(r *vk.Run, st *Stats) {
	// A: tx record reaches the OS (small write buffer, two precommitted txs), values do not
	cfgA := Cfg{FileSize: 4096, WriteBuf: 128, MaxActive: 3, IOConc: 1, AhtThld: 4, AhtBuf: 512}
	// B: the tree fsyncs ahead of the tx log (threshold 2), crash, new commit, crash before the tree syncs
	cfgB := Cfg{FileSize: 4096, WriteBuf: 1024, MaxActive: 3, IOConc: 1, AhtThld: 2, AhtBuf: 512}
	// C: PreallocFiles, write buffer smaller than a commit entry
	cfgC := Cfg{FileSize: 1024, WriteBuf: 32, MaxActive: 2, IOConc: 1, AhtThld: 3, AhtBuf: 64, Prealloc: true}
	// D (fixed by 0b488aa): small chunks, the tree fsyncs ahead of the tx log, crash, recovery rewinds the
	// tree, the next Append cuts its payload/digest logs (chunk files removed), second crash before the
	// tree syncs again
	cfgD := Cfg{FileSize: 256, WriteBuf: 64, MaxActive: 3, IOConc: 1, AhtThld: 2, AhtBuf: 64}
	// E: index recovery. Transactions with nothing indexable (the indexer only moves the index timestamp)
	// between indexable ones, flush threshold 2 with a sync threshold far away + explicit flushes synced
	// and not; images that drop the un-fsynced index logs but keep a renamed TIMESTAMP file (and the converse)
	cfgE := Cfg{FileSize: 4096, WriteBuf: 256, MaxActive: 3, IOConc: 1, AhtThld: 3, AhtBuf: 512, HdrVer: 1,
		IdxFlush: 2, IdxSync: 1000, NoIdx: 45, FlushMore: true, Long: true}
	type sc struct {
		name string
		cfg  Cfg
		b    Budget
	}
	for i, s := range []sc{
		{"A", cfgA, Budget{Points: 60, Workers: 8, OnlyPol: []string{"only:tx", "os"}}},
		{"B", cfgB, Budget{Points: 40, Workers: 8, Stage2: 40, Points2: 12, OnlyPol: []string{"only:aht"}, OnlyPol2: []string{"except:aht", "dur"}}},
		{"C", cfgC, Budget{Points: 60, Workers: 8, OnlyPol: []string{"os", "only:commit"}}},
		{"D", cfgD, Budget{Points: 40, Workers: 8, Stage2: 40, Points2: 14, OnlyPol: []string{"only:aht", "dur"}, OnlyPol2: []string{"dur", "except:aht", "only:aht", "notrunc", "os"}}},
		{"E", cfgE, Budget{Points: 120, Workers: 8, OnlyPol: []string{"only:meta", "except:index", "dur", "os", "except:meta"}}},
	} {
		seed := int64(7000 + i)
		rng := rand.New(rand.NewSource(seed))
		dir, err := mkTemp("c03d")
		if err != nil {
			continue
		}
		w, err := RunWorkload(seed, 900+i, s.cfg, dir)
		if err == nil {
			fs := Explore(w, s.b, rng, st)
			for _, f := range fs {
				r.Finding(f)
			}
			r.Stats["directed/"+s.name] += len(fs)
		} else {
			r.Finding(fmt.Sprintf("directed scenario %s: workload fails on the live store: %v", s.name, err))
		}
		os.RemoveAll(dir)
	}
}

var lastStats *Stats

func Gen(r *vk.Run, n int) error {
	st := NewStats()
	lastStats = st
	b := budgetFor(tier())
	nrec := 10
	if tier() == "thorough" {
		nrec = 40
	}
	directed(r, st)
	for k := 0; k < n; k++ {
		crng := rand.New(rand.NewSource(r.Seed*977 + int64(k)))
		cfg := genCfg(crng, k)
		runOne(r, r.Seed, k, cfg, b, st, nrec)
	}
	// rotation workloads, durability observed per physical chunk file, a crash point after every ack
	nrot := 1 + n/5
	rb := b
	rb.AllAcks = true
	rb.Stage2 = b.Stage2 / 2
	for k := 0; k < nrot; k++ {
		crng := rand.New(rand.NewSource(r.Seed*977 + int64(500+k)))
		cfg := genRotCfg(crng, k)
		before := st.Images
		runOne(r, r.Seed, 500+k, cfg, rb, st, 0)
		r.Stats["falsifier/rotation-workloads"]++
		r.Stats["falsifier/rotation-images"] += st.Images - before
	}
	r.Stats["falsifier/crash-points"] = st.Points
	r.Stats["falsifier/images-first-crash"] = st.Images
	r.Stats["falsifier/images-second-crash"] = st.Images2
	r.Stats["falsifier/images-with-reloaded-precommitted"] = st.Reloaded
	for k, v := range st.ByPolicy {
		r.Stats["falsifier/policy-"+k] = v
	}
	// findings are many per defect: keep at most 3 of each violation class
	per := map[string]int{}
	var keep []string
	for _, f := range r.Findings {
		c := violClass(strings.TrimPrefix(f, "after a second crash: "))
		per[c]++
		if per[c] <= 3 {
			keep = append(keep, f)
		}
	}
	r.Findings = keep
	return nil
}

// Replay re-runs the workload of a disagreeing case (same seed and index) and emits its cases again.
func Replay(r *vk.Run, c map[string]any) error {
	seed, _ := c["seed"].(float64)
	k, _ := c["workload"].(float64)
	crng := rand.New(rand.NewSource(int64(seed)*977 + int64(k)))
	cfg := genCfg(crng, int(k))
	if int(k) >= 500 {
		cfg = genRotCfg(crng, int(k)-500)
	}
	runOne(r, int64(seed), int(k), cfg, budgetFor("quick"), NewStats(), 40)
	return nil
}
