package c03

import (
	"fmt"
	"math/rand"
	"os"
	"testing"
)

func TestLive2(t *testing.T) {
	st := NewStats()
	for k := 0; k < 12; k++ {
		crng := rand.New(rand.NewSource(1*977 + int64(k)))
		cfg := genCfg(crng, k)
		dir, _ := mkTemp("c03live")
		w, err := RunWorkload(1, k, cfg, dir)
		if err != nil {
			fmt.Println("LIVE FAIL", k, cfg, err)
		} else if os.Getenv("NOEXP") == "" {
			Explore(w, Budget{Points: 26, NRand: 2, Stage2: 5, Points2: 5, Workers: 12}, crng, st)
		}
		os.RemoveAll(dir)
	}
}
