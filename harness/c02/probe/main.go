package main

import (
	"context"
	"fmt"
	"io"
	"os"
	"time"

	"github.com/codenotary/immudb/embedded/ahtree"
	"github.com/codenotary/immudb/embedded/logger"
	"github.com/codenotary/immudb/embedded/store"
)

func opts() *store.Options {
	return store.DefaultOptions().WithSynced(false).WithExternalCommitAllowance(true).
		WithLogger(logger.NewSimpleLoggerWithLevel("vh", io.Discard, logger.LogError)).WithMaxActiveTransactions(10).
		WithSyncFrequency(time.Hour)
}

func pre(st *store.ImmuStore, k, v string) {
	tx, err := st.NewWriteOnlyTx(context.Background())
	if err != nil {
		panic(err)
	}
	tx.Set([]byte(k), nil, []byte(v))
	before := st.LastPrecommittedTxID()
	done := make(chan error, 1)
	go func() {
		ctx, cancel := context.WithTimeout(context.Background(), 200*time.Millisecond)
		defer cancel()
		_, err := tx.AsyncCommit(ctx)
		done <- err
	}()
	for {
		select {
		case err := <-done:
			fmt.Println("  commit returned:", err)
			return
		default:
		}
		if st.LastPrecommittedTxID() > before {
			return
		}
		time.Sleep(50 * time.Microsecond)
	}
}

func dump(st *store.ImmuStore) {
	id, alh := st.CommittedAlh()
	fmt.Printf("committed=%d alh=%x precommitted=%d\n", id, alh[:4], st.LastPrecommittedTxID())
	tx, _ := st.NewTxHolderPool(1, false)
	h, _ := tx.Alloc()
	var alhs [][32]byte
	for i := uint64(1); i <= id; i++ {
		err := st.ReadTx(i, false, h)
		if err != nil {
			fmt.Println("  read", i, err)
			continue
		}
		hd := h.Header()
		a := hd.Alh()
		fmt.Printf("  tx %d key=%s prev=%x alh=%x bl=%d blroot=%x\n", i, h.Entries()[0].Key(), hd.PrevAlh[:4], a[:4], hd.BlTxID, hd.BlRoot[:4])
		// recompute blroot
		if hd.BlTxID > 0 {
			d, _ := os.MkdirTemp("", "aht")
			t, _ := ahtree.Open(d, ahtree.DefaultOptions())
			for j := uint64(0); j < hd.BlTxID; j++ {
				t.Append(alhs[j][:])
			}
			_, r, _ := t.Root()
			t.Close()
			os.RemoveAll(d)
			if r != hd.BlRoot {
				fmt.Printf("  !!! BlRoot of tx %d is NOT the root over Alh(1..%d): want %x\n", i, hd.BlTxID, r[:4])
			}
		}
		alhs = append(alhs, a)
	}
}

func main() {
	dir, _ := os.MkdirTemp("", "c02probe")
	defer os.RemoveAll(dir)
	o := opts().WithEmbeddedValues(true)
	st, err := store.Open(dir, o)
	if err != nil {
		panic(err)
	}
	pre(st, "k1", "v1")
	pre(st, "k2", "v2")
	pre(st, "k3", "v3")
	st.Close()
	st, err = store.Open(dir, opts().WithEmbeddedValues(true))
	if err != nil {
		panic(err)
	}
	fmt.Println("after reopen precommitted", st.LastPrecommittedTxID())
	pre(st, "k4", "v4")
	h, err := st.ReadTxHeader(1, true, false)
	fmt.Printf("%+v %v\n", h, err)
	st.Close()
}
