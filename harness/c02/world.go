package c02

import (
	"bytes"
	"context"
	"crypto/sha256"
	"encoding/binary"
	"errors"
	"fmt"
	"io"
	"os"
	"strconv"
	"sync"
	"sync/atomic"
	"time"

	"github.com/codenotary/immudb/embedded/logger"
	"github.com/codenotary/immudb/embedded/store"
	"verif/harness/vk"
)

// ---- a replayable step ------------------------------------------------------------------------

type Step struct {
	Kind   string `json:"kind"` // pre | sync | allow | discard | setext | reopen | maint
	C      int    `json:"c,omitempty"`
	Ents   []Ent  `json:"ents,omitempty"`
	Md     *TxMd  `json:"md,omitempty"`
	Ts     int64  `json:"ts,omitempty"`
	PcKind string `json:"pckind,omitempty"` // mustexist | mustnotexist
	PcKey  []byte `json:"pckey,omitempty"`
	PcExp  *bool  `json:"pcexp,omitempty"`
	Cancel string `json:"cancel,omitempty"` // "" | ctx | cancel
	Exp    *Hdr   `json:"exp,omitempty"`    // header of the exported tx handed to ReplicateTx
	ExpN   int    `json:"expn,omitempty"`   // number of entries actually serialised (may differ from Exp.NEntries)
	SkipIC bool   `json:"skipic,omitempty"`
	N      uint64 `json:"n,omitempty"`
	B      bool   `json:"b,omitempty"`
	Maint  string `json:"maint,omitempty"` // flush | compact | waitidx
	Note   string `json:"note,omitempty"`
}

// ---- the world: a real store + the temporal monitor ---------------------------------------------

type callResult struct {
	hdr *store.TxHeader
	err error
}

type pendingCall struct {
	id        uint64
	alh       [32]byte
	done      chan callResult
	cancel    context.CancelFunc
	discarded bool
	repl      bool
	noAck     bool // ReplicateTx under external commit allowance returns before the commit
}

type world struct {
	r             *vk.Run
	tag           string // seed/script identification used in finding texts
	cfg           Cfg
	dir           string
	st            *store.ImmuStore
	clock         atomic.Int64
	holder        *store.Tx
	seen          []*txRecord // first report of every committed id (index id-1)
	pending       []*pendingCall
	stepIdx       int
	discards      int  // number of discards that removed something so far
	reopenAD      bool // a reopen was executed after such a discard
	reopenPct     int  // prealloc-reopen family: chance (%) of a clean Close/Open right after a step that committed something
	justCommitted bool
	violated      bool
	concurrent    bool
	extSeen       bool // external commit allowance is or has been enabled in this script
	ahtDirty      bool // set after Discard + precommit attempt under allowance; no longer restricts generation: since
	// 2077e08 / 8728288 OpenWith rebuilds the tree beyond the committed transactions and no commit-log tail exists
	collect   bool // falsifier-only scenario: findings are collected instead of reported
	collected []string
	transient int             // read errors that disappeared on retry
	blzero    int             // committed txs with BlTxID = 0 and a non-zero BlRoot (stale pooled tx holder)
	keysLive  map[string]bool // committed keys whose last write is not a tombstone / never tombstoned
	keysUsed  map[string]bool // keys ever submitted in any commit attempt
	mu        sync.Mutex      // serialises r.Finding in the concurrent phase
	findings  map[string]bool
}

func (w *world) finding(format string, args ...any) {
	w.mu.Lock()
	defer w.mu.Unlock()
	w.violated = true
	s := fmt.Sprintf(format, args...)
	if w.collect {
		w.collected = append(w.collected, s)
		return
	}
	// one finding per tag and script is enough (a broken history repeats at every later step)
	tag, rest := s, ""
	if i := bytes.IndexByte([]byte(s), ':'); i > 0 {
		tag, rest = s[:i], s[i:]
	}
	if w.findings[tag] {
		return
	}
	w.findings[tag] = true
	if !bytes.Contains([]byte(tag), []byte("[")) {
		// context qualifier: was the store reopened after a Discard that removed something?
		if w.reopenAD {
			tag += "[reopen-after-discard]"
		} else {
			tag += "[plain]"
		}
	}
	w.r.Finding(fmt.Sprintf("%s%s [%s step %d cfg=%s]", tag, rest, w.tag, w.stepIdx, w.cfg.bucket()))
}

func (w *world) options() *store.Options {
	c := &w.cfg
	o := store.DefaultOptions().
		WithSynced(c.Synced).WithEmbeddedValues(c.Embedded).WithWriteTxHeaderVersion(c.Version).
		WithMaxActiveTransactions(c.MaxActive).WithMaxTxEntries(c.MaxEntries).WithMaxKeyLen(c.MaxKey).
		WithMaxValueLen(c.MaxVal).WithExternalCommitAllowance(c.Ext0).
		WithSyncFrequency(time.Hour).
		WithLogger(logger.NewSimpleLoggerWithLevel("vh", io.Discard, logger.LogError)).
		WithTimeFunc(func() time.Time { return time.Unix(w.clock.Load(), 0) }).
		WithPreallocFiles(c.Prealloc).WithMaxIOConcurrency(c.IOConc).WithMaxConcurrency(8)
	if c.FileSize > 0 {
		o = o.WithFileSize(c.FileSize)
	}
	if c.TxCache > 0 {
		o = o.WithTxLogCacheSize(c.TxCache)
	}
	if c.VCache > 0 {
		o = o.WithVLogCacheSize(c.VCache)
	}
	// write buffers: large enough that nothing is flushed by overflow inside a script (the model
	// knows the explicit flushes only: sync(), Close), small enough to make store.Open cheap
	wb := 1 << 17
	if c.WriteBuf > 0 {
		wb = c.WriteBuf
	}
	o = o.WithWriteBufferSize(wb)
	o = o.WithAHTOptions(store.DefaultAHTOptions().WithWriteBufferSize(1 << 16))
	return o
}

func newWorld(r *vk.Run, tag string, cfg Cfg) (*world, error) {
	base := ""
	if st, err := os.Stat("/dev/shm"); err == nil && st.IsDir() {
		base = "/dev/shm" // fsync-heavy scripts: a memory-backed temp dir when there is one
	}
	dir, err := os.MkdirTemp(base, "vh-c02-")
	if err != nil && base != "" {
		dir, err = os.MkdirTemp("", "vh-c02-")
	}
	if err != nil {
		return nil, err
	}
	w := &world{r: r, tag: tag, cfg: cfg, dir: dir, extSeen: cfg.Ext0, keysLive: map[string]bool{}, keysUsed: map[string]bool{}, findings: map[string]bool{}}
	w.clock.Store(1000)
	if err := w.open(); err != nil {
		os.RemoveAll(dir)
		return nil, err
	}
	return w, nil
}

func (w *world) open() error {
	st, err := store.Open(w.dir, w.options())
	if err != nil {
		return err
	}
	w.st = st
	w.holder = store.NewTx(st.MaxTxEntries()+1, st.MaxKeyLen())
	return nil
}

func (w *world) close() {
	w.drainPending(true)
	if w.st != nil {
		w.st.Close()
		w.st = nil
	}
	os.RemoveAll(w.dir)
}

// ---- reading the history ------------------------------------------------------------------------

// readTx re-reads a committed transaction. A read error is retried a few times before it counts:
// multiapp.appendableFor can return cache.ErrKeyNotFound ("key not found") when the chunk it has just
// opened is evicted from the LRU of opened chunk files by a concurrent reader (the indexer) before the
// final lookup -- a transient read failure (small FileSize, many chunks), not a change of the history.
func (w *world) readTx(id uint64) (rec *txRecord, err error) {
	for attempt := 0; attempt < 5; attempt++ {
		rec, err = w.readTxOnce(id)
		if err == nil {
			return rec, nil
		}
		w.transient++
		time.Sleep(200 * time.Microsecond)
	}
	w.transient -= 5
	return rec, err
}

func (w *world) readTxOnce(id uint64) (rec *txRecord, err error) {
	defer func() {
		if r := recover(); r != nil {
			rec, err = nil, fmt.Errorf("PANIC inside the store while reading tx %d: %v", id, r)
		}
	}()
	if err := w.st.ReadTx(id, false, w.holder); err != nil {
		return nil, err
	}
	h := w.holder.Header()
	t := &txRecord{hdr: hdrOf(h), alh: h.Alh()}
	for _, e := range w.holder.Entries() {
		re := recEntry{key: append([]byte{}, e.Key()...), vlen: e.VLen(), voff: uint64(e.VOff()), hval: e.HVal()}
		if e.Metadata() != nil {
			re.md = append([]byte{}, e.Metadata().Bytes()...)
		}
		v, err := w.st.ReadValue(e)
		if err != nil {
			return nil, fmt.Errorf("ReadValue(tx %d, key %x): %w", id, e.Key(), err)
		}
		re.val = append([]byte{}, v...)
		t.entries = append(t.entries, re)
	}
	t.term = recTerm(t)
	t.full = fmt.Sprintf("%x|%x", hdrBytes(h), t.alh)
	for _, e := range t.entries {
		t.full += fmt.Sprintf("|%x,%x,%d,%d,%x,%x", e.md, e.key, e.vlen, e.voff, e.hval, e.val)
	}
	return t, nil
}

// observe re-reads the whole committed history, applies the temporal monitor and returns the
// observation of this step (ok/id/alh are filled in by the caller).
func (w *world) observe() *obs {
	o := &obs{stable: true}
	cid, calh := w.st.CommittedAlh()
	o.committed, o.calh = cid, calh
	o.inmem = w.st.LastPrecommittedTxID()
	prev := uint64(len(w.seen))
	if cid < prev {
		w.finding("committed-went-back: committed id %d after having been %d", cid, prev)
		o.stable = false
	}
	var alhs [][32]byte
	for id := uint64(1); id <= cid; id++ {
		t, err := w.readTx(id)
		if err != nil {
			w.finding("ids-not-dense: ReadTx(%d) fails with committed id %d: %v", id, cid, err)
			o.stable = false
			if id > prev {
				break
			}
			alhs = append(alhs, w.seen[id-1].alh)
			continue
		}
		if t.hdr.ID != id {
			w.finding("ids-not-dense: ReadTx(%d) returns a header with ID %d", id, t.hdr.ID)
		}
		if id <= prev {
			if t.full != w.seen[id-1].full {
				w.finding("tx-changed: committed tx %d reads back differently from when it was first reported committed: was %s now %s", id, short(w.seen[id-1].term), short(t.term))
				o.stable = false
			}
		} else {
			w.seen = append(w.seen, t)
			o.newTxs = append(o.newTxs, t)
			for _, e := range t.entries {
				k := string(e.key)
				w.keysLive[k] = len(e.md) == 0 && !w.everTomb(k)
			}
		}
		// chain
		var wantPrev [32]byte = sha256.Sum256(nil)
		if id > 1 {
			wantPrev = alhs[id-2]
		}
		if !bytes.Equal(t.hdr.PrevAlh, wantPrev[:]) {
			w.finding("prevalh-broken: tx %d PrevAlh %x is not the Alh of tx %d (%x)", id, t.hdr.PrevAlh[:4], id-1, wantPrev[:4])
		}
		if t.hdr.BlTxID >= id {
			w.finding("bltxid-not-smaller: tx %d has BlTxID %d", id, t.hdr.BlTxID)
		} else if t.hdr.BlTxID == 0 {
			// no earlier transaction is linked: the property does not constrain BlRoot (the store
			// leaves whatever the pooled tx holder contained; counted, not a finding)
			if id > prev && !bytes.Equal(t.hdr.BlRoot, make([]byte, 32)) {
				w.blzero++
			}
		} else {
			want := merkleRoot(alhs[:t.hdr.BlTxID])
			if !bytes.Equal(t.hdr.BlRoot, want[:]) {
				w.finding("blroot-mismatch: BlRoot %x of tx %d is not the root %x over Alh(1..%d)", t.hdr.BlRoot[:4], id, want[:4], t.hdr.BlTxID)
			}
		}
		alhs = append(alhs, t.alh)
	}
	if cid > 0 && uint64(len(alhs)) == cid {
		if alhs[cid-1] != calh {
			w.finding("state-not-last: CommittedAlh %x is not the Alh %x of tx %d", calh[:4], alhs[cid-1][:4], cid)
			o.stable = false
		}
	} else if cid == 0 && calh != sha256.Sum256(nil) {
		w.finding("state-not-last: CommittedAlh of the empty store is %x", calh[:4])
		o.stable = false
	}
	if err := w.safeRead(cid + 1); err == nil && !w.concurrent {
		w.finding("ids-not-dense: ReadTx(%d) succeeds beyond the committed id %d", cid+1, cid)
	}
	w.checkAcks()
	if os.Getenv("VH_DEBUG") != "" {
		for id := cid + 1; id <= o.inmem; id++ {
			if h, err := w.readHdr(id, true, false); err == nil {
				a := h.Alh()
				fmt.Fprintf(os.Stderr, "  step %d precommitted tx %d ts=%d bl=%d blroot=%x prev=%x eh=%x ne=%d alh=%x\n", w.stepIdx, id, h.Ts, h.BlTxID, h.BlRoot[:3], h.PrevAlh[:3], h.Eh[:3], h.NEntries, a[:3])
			} else {
				fmt.Fprintf(os.Stderr, "  step %d precommitted tx %d unreadable: %v\n", w.stepIdx, id, err)
			}
		}
	}
	return o
}

func (w *world) everTomb(k string) bool {
	for _, t := range w.seen {
		for _, e := range t.entries {
			if string(e.key) == k && len(e.md) > 0 {
				return true
			}
		}
	}
	return false
}

// readHdr: ReadTxHeader with a Go panic inside the store turned into an error
func (w *world) readHdr(id uint64, allowPrecommitted, skipIntegrityCheck bool) (h *store.TxHeader, err error) {
	defer func() {
		if r := recover(); r != nil {
			h, err = nil, fmt.Errorf("PANIC inside the store while reading the header of tx %d: %v", id, r)
		}
	}()
	return w.st.ReadTxHeader(id, allowPrecommitted, skipIntegrityCheck)
}

func (w *world) safeRead(id uint64) (err error) {
	defer func() {
		if r := recover(); r != nil {
			err = fmt.Errorf("PANIC: %v", r)
		}
	}()
	return w.st.ReadTx(id, false, w.holder)
}

func hdrBytes(h *store.TxHeader) []byte {
	b, err := h.Bytes()
	if err != nil {
		return []byte(err.Error())
	}
	return b
}

func short(s string) string {
	if len(s) > 160 {
		return s[:160] + "..."
	}
	return s
}

// checkAcks: commit calls that have returned success meanwhile: the header they returned must be
// the committed transaction with that id.
func (w *world) checkAcks() {
	var rest []*pendingCall
	for _, p := range w.pending {
		select {
		case res := <-p.done:
			if res.err == nil && res.hdr != nil && !p.noAck {
				w.ackCheck(res.hdr, p.discarded)
			}
		default:
			rest = append(rest, p)
		}
	}
	w.pending = rest
}

func (w *world) ackCheck(hdr *store.TxHeader, discarded bool) {
	a := hdr.Alh()
	how := "no-discard"
	if discarded {
		how = "after-discard"
	}
	if hdr.ID > uint64(len(w.seen)) {
		// acknowledged but not (yet) visible as committed: re-read the frontier
		cid, _ := w.st.CommittedAlh()
		if hdr.ID > cid {
			w.finding("ack-mismatch["+how+"]: commit call returned success for tx %d but the committed id is %d", hdr.ID, cid)
		}
		return
	}
	if w.seen[hdr.ID-1].alh != a {
		w.finding("ack-mismatch["+how+"]: commit call returned header id=%d alh=%x but the committed tx with that id has alh=%x", hdr.ID, a[:4], w.seen[hdr.ID-1].alh[:4])
	}
}

func (w *world) drainPending(cancel bool) {
	for _, p := range w.pending {
		if cancel {
			p.cancel()
		}
	}
	if cancel {
		for _, p := range w.pending {
			select {
			case res := <-p.done:
				if res.err == nil && res.hdr != nil && !p.noAck {
					w.ackCheck(res.hdr, p.discarded)
				}
			case <-time.After(5 * time.Second):
				w.finding("commit-call-stuck: a commit call did not return 5 s after its context was cancelled")
			}
		}
		w.pending = nil
	}
}

// ---- executing steps --------------------------------------------------------------------------

func kvmdFromBytes(b []byte) *store.KVMetadata {
	if len(b) == 0 {
		return nil
	}
	md := store.NewKVMetadata()
	i := 0
	for i < len(b) {
		switch b[i] {
		case 0:
			md.AsDeleted(true)
			i++
		case 1:
			ts := int64(binary.BigEndian.Uint64(b[i+1:]))
			md.ExpiresAt(time.Unix(ts, 0))
			i += 9
		case 2:
			md.AsNonIndexable(true)
			i++
		default:
			return md
		}
	}
	return md
}

func exportBytes(h *store.TxHeader, ents []Ent, n int) ([]byte, error) {
	hb, err := h.Bytes()
	if err != nil {
		return nil, err
	}
	var buf bytes.Buffer
	var b4 [4]byte
	var b2 [2]byte
	binary.BigEndian.PutUint32(b4[:], uint32(len(hb)))
	buf.Write(b4[:])
	buf.Write(hb)
	for i := 0; i < n && i < len(ents); i++ {
		e := ents[i]
		binary.BigEndian.PutUint16(b2[:], uint16(len(e.Key)))
		buf.Write(b2[:])
		buf.Write(e.Key)
		binary.BigEndian.PutUint16(b2[:], uint16(len(e.Md)))
		buf.Write(b2[:])
		buf.Write(e.Md)
		binary.BigEndian.PutUint32(b4[:], uint32(len(e.Val)))
		buf.Write(b4[:])
		buf.Write(e.Val)
	}
	binary.BigEndian.PutUint16(b2[:], 1)
	buf.Write(b2[:])
	buf.WriteByte(0)
	return buf.Bytes(), nil
}

// computeEh: entries hash of a transaction as the store computes it
func computeEh(version int, ents []Ent) ([32]byte, error) {
	hdr := &store.TxHeader{Version: version, NEntries: len(ents)}
	var tes []*store.TxEntry
	for _, e := range ents {
		tes = append(tes, store.NewTxEntry(e.Key, kvmdFromBytes(e.Md), len(e.Val), sha256.Sum256(e.Val), 0))
	}
	tx := store.NewTxWithEntries(hdr, tes)
	if err := tx.BuildHashTree(); err != nil {
		return [32]byte{}, err
	}
	return tx.Header().Eh, nil
}

// precommittedAlhs: Alh of txs 1..LastPrecommittedTxID as the store has them now
func (w *world) precommittedAlhs() [][32]byte {
	n := w.st.LastPrecommittedTxID()
	var l [][32]byte
	for id := uint64(1); id <= n; id++ {
		h, err := w.readHdr(id, true, false)
		if err != nil {
			break
		}
		l = append(l, h.Alh())
	}
	return l
}

// blockLimit: how long a call that may legitimately block BEFORE its precommit (a replicated
// transaction whose id is beyond the next one waits in inmemPrecommitWHub until its context ends) is
// given before its context is cancelled. slowLimit: the bound for every other call; those cannot block
// before the precommit, so a slow machine must never turn them into "cancelled" calls: the store
// checks ctx.Err() in newOngoingTx and OngoingTx.commit, and a context cancelled by this harness
// before the call got there makes a valid commit fail with nothing precommitted (seen once under
// load: thorough seed 2 script 202, a 400 ms limit applied to every call).
const blockLimit = 400 * time.Millisecond
const slowLimit = 90 * time.Second
const blockPolls = 2000

var stallMs, _ = strconv.Atoi(os.Getenv("VH_C02_STALL_MS"))

// runCommit starts the commit call in a goroutine and waits until it returned or the precommit
// became visible. expID: the id in the exported header of a replicated transaction, 0 otherwise.
func (w *world) runCommit(repl bool, expID uint64, call func(ctx context.Context) (*store.TxHeader, error)) (ok bool, id uint64, alh []byte, stale []byte) {
	before := w.st.LastPrecommittedTxID()
	mayBlock := repl && expID > before+1
	ctx, cancel := context.WithCancel(context.Background())
	p := &pendingCall{done: make(chan callResult, 1), cancel: cancel, repl: repl, noAck: repl && w.extSeen}
	var started atomic.Bool
	go func() {
		if stallMs > 0 && w.stepIdx%5 == 0 {
			// test knob (VH_C02_STALL_MS): the call's goroutine is scheduled late
			time.Sleep(time.Duration(stallMs) * time.Millisecond)
		}
		started.Store(true)
		hdr, err := call(ctx)
		p.done <- callResult{hdr, err}
	}()
	limit := slowLimit
	if mayBlock {
		limit = blockLimit
	}
	// the clock of the limit starts when the call's goroutine runs, and the limit also needs a number
	// of polls (each one yields the processor), so that a stalled process does not use it up
	var deadline time.Time
	polls := 0
	finished := false
	var res callResult
	for {
		select {
		case res = <-p.done:
			finished = true
		default:
		}
		if finished {
			break
		}
		if w.st.LastPrecommittedTxID() == before+1 {
			break
		}
		if deadline.IsZero() {
			if started.Load() {
				deadline = time.Now().Add(limit)
			}
		} else if polls++; time.Now().After(deadline) && polls >= blockPolls {
			if !mayBlock {
				w.finding("commit-call-stuck: a commit call that cannot wait for another transaction neither returned nor precommitted within %v", slowLimit)
			}
			cancel()
			res = <-p.done
			finished = true
			break
		}
		time.Sleep(20 * time.Microsecond)
	}
	now := w.st.LastPrecommittedTxID()
	if finished {
		cancel()
		if res.err == nil && res.hdr != nil {
			a := res.hdr.Alh()
			if os.Getenv("VH_DEBUG") != "" {
				fmt.Fprintf(os.Stderr, "step %d committed-in-call %+v alh=%x\n", w.stepIdx, res.hdr, a[:4])
			}
			// committed and acknowledged within the call: checked against the history after observe()
			p.done <- res
			p.id, p.alh = res.hdr.ID, a
			w.pending = append(w.pending, p)
			return true, res.hdr.ID, a[:], staleOf(res.hdr)
		}
		if now == before+1 {
			h, err := w.readHdr(now, true, false)
			if err == nil {
				a := h.Alh()
				if errors.Is(res.err, context.Canceled) {
					// the precommit happened; the call was waiting for the commit when our own wait limit
					// (slow machine) cancelled its context
					return true, now, a[:], staleOf(h)
				}
				// an error was returned although the transaction is precommitted
				return false, now, a[:], staleOf(h)
			}
		}
		return false, 0, nil, nil
	}
	// precommitted; the call is waiting for the commit
	h, err := w.readHdr(now, true, false)
	if err != nil {
		w.finding("precommitted-unreadable: ReadTxHeader(%d, allowPrecommitted) fails right after the precommit: %v", now, err)
		w.pending = append(w.pending, p)
		return true, now, nil, nil
	}
	a := h.Alh()
	if os.Getenv("VH_DEBUG") != "" {
		fmt.Fprintf(os.Stderr, "step %d precommitted %+v alh=%x\n", w.stepIdx, h, a[:4])
	}
	p.id, p.alh = now, a
	w.pending = append(w.pending, p)
	return true, now, a[:], staleOf(h)
}

// staleOf: the BlRoot of a header with BlTxID = 0 (what the pooled tx holder contained)
func staleOf(h *store.TxHeader) []byte {
	if h.BlTxID == 0 {
		return append([]byte{}, h.BlRoot[:]...)
	}
	return nil
}

// exec runs one step on the real store and returns its Coq term (empty for maintenance steps).
func (w *world) exec(s *Step) (term string, fatal bool) {
	switch s.Kind {
	case "maint":
		switch s.Maint {
		case "flush":
			w.st.FlushIndexes(0.5, false)
		case "compact":
			w.st.CompactIndexes()
		case "waitidx":
			ctx, cancel := context.WithTimeout(context.Background(), 300*time.Millisecond)
			cid, _ := w.st.CommittedAlh()
			w.st.WaitForIndexingUpto(ctx, cid)
			cancel()
		}
		w.observeQuiet()
		return "", false
	case "pre":
		if w.discards > 0 && !w.cfg.Embedded && s.Cancel == "" && w.extSeen {
			w.ahtDirty = true
		}
		w.clock.Store(s.Ts)
		for _, e := range s.Ents {
			w.keysUsed[string(e.Key)] = true
		}
		var ok bool
		var id uint64
		var alh, stale []byte
		if s.Exp != nil {
			bs, err := exportBytes(s.Exp.toStore(), s.Ents, s.ExpN)
			if err != nil {
				// header not serialisable (e.g. version 0 with metadata): not sent
				ok = false
			} else {
				ok, id, alh, stale = w.runCommit(true, s.Exp.ID, func(ctx context.Context) (*store.TxHeader, error) {
					return w.st.ReplicateTx(ctx, bs, s.SkipIC, false)
				})
			}
		} else {
			ok, id, alh, stale = w.runCommit(false, 0, func(ctx context.Context) (*store.TxHeader, error) {
				tx, err := w.st.NewWriteOnlyTx(ctx)
				if err != nil {
					return nil, err
				}
				for _, e := range s.Ents {
					if err := tx.Set(e.Key, kvmdFromBytes(e.Md), e.Val); err != nil {
						return nil, fmt.Errorf("harness: Set failed: %w", err)
					}
				}
				if s.Md != nil {
					tx.WithMetadata(s.Md.toStore())
				}
				switch s.PcKind {
				case "mustexist":
					tx.AddPrecondition(&store.PreconditionKeyMustExist{Key: s.PcKey})
				case "mustnotexist":
					tx.AddPrecondition(&store.PreconditionKeyMustNotExist{Key: s.PcKey})
				}
				cctx := ctx
				switch s.Cancel {
				case "ctx":
					c2, cancel := context.WithCancel(ctx)
					cancel()
					cctx = c2
				case "cancel":
					tx.Cancel()
				}
				return tx.AsyncCommit(cctx)
			})
		}
		o := w.observe()
		o.ok, o.id, o.alh = ok, id, alh
		if !ok {
			o.id, o.alh = 0, nil
		}
		exp := "None"
		if s.Exp != nil {
			exp = "(Some " + hdrTerm(s.Exp) + ")"
		}
		ents := s.Ents
		if s.Exp != nil && s.ExpN < len(ents) {
			ents = ents[:s.ExpN]
		}
		_ = stale
		return fmt.Sprintf("TPre %d %s %s %s %s", s.C, specTerm(ents, s.Md, s.Ts, s.PcExp, s.Cancel != ""), exp, vk.Bool(s.SkipIC), obsTerm(o)), false
	case "sync":
		err := w.st.Sync()
		o := w.observe()
		o.ok = err == nil
		return "TOp OSync (Some " + obsTerm(o) + ")", false
	case "allow":
		err := w.st.AllowCommitUpto(s.N)
		o := w.observe()
		o.ok = err == nil
		return fmt.Sprintf("TOp (OAllow %d) (Some %s)", s.N, obsTerm(o)), false
	case "discard":
		n, err := w.st.DiscardPrecommittedTxsSince(s.N)
		if n > 0 {
			w.discards++
			for _, p := range w.pending {
				if p.id >= s.N {
					p.discarded = true
				}
			}
		}
		o := w.observe()
		o.ok = err == nil
		return fmt.Sprintf("TOp (ODiscard %d) (Some %s)", s.N, obsTerm(o)), false
	case "setext":
		w.st.SetExternalCommitAllowance(s.B)
		if s.B {
			w.extSeen = true
			for _, p := range w.pending {
				p.noAck = p.repl
			}
		}
		o := w.observe()
		o.ok = true
		return fmt.Sprintf("TOp (OSetExt %s) (Some %s)", vk.Bool(s.B), obsTerm(o)), false
	case "reopen":
		w.drainPending(true)
		w.st.Close()
		w.st = nil
		if w.discards > 0 {
			w.reopenAD = true
		}
		if err := w.open(); err != nil {
			w.finding("reopen-failed: store.Open fails after a clean Close: %v", err)
			o := &obs{ok: false, stable: true, committed: uint64(len(w.seen))}
			if len(w.seen) > 0 {
				o.calh = w.seen[len(w.seen)-1].alh
			} else {
				o.calh = sha256.Sum256(nil)
			}
			return "", true
		}
		before := uint64(len(w.seen))
		o := w.observe()
		o.ok = true
		if o.committed > before {
			w.finding("reopen-committed-more: committed id %d before Close, %d after Open: transactions that were never reported committed are committed by the restart", before, o.committed)
		}
		return "TOp OReopen (Some " + obsTerm(o) + ")", false
	}
	return "", false
}

// observeQuiet: the monitor without a recorded observation (after maintenance calls). New commits
// cannot appear here (nothing commits by itself), so the next recorded step reports them.
func (w *world) observeQuiet() {
	cid, _ := w.st.CommittedAlh()
	for id := uint64(1); id <= cid && id <= uint64(len(w.seen)); id++ {
		t, err := w.readTx(id)
		if err != nil {
			w.finding("ids-not-dense: ReadTx(%d) fails after index maintenance: %v", id, err)
			continue
		}
		if t.full != w.seen[id-1].full {
			w.finding("tx-changed: committed tx %d reads back differently after index maintenance", id)
		}
	}
}
