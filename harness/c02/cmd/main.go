package main

import (
	"verif/harness/c02"
	"verif/harness/vk"
)

func main() { vk.Main("Tie.C02", c02.Gen, c02.Replay) }
