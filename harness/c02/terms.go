package c02

import (
	"crypto/sha256"
	"fmt"
	"strings"

	"github.com/codenotary/immudb/embedded/store"
	"verif/harness/vk"
)

// ---- data mirrored from the store ------------------------------------------------------------

type Ent struct {
	Key []byte `json:"key"`
	Md  []byte `json:"md"` // KVMetadata.Bytes()
	Val []byte `json:"val"`
}

type TxMd struct {
	Trunc *uint64 `json:"trunc,omitempty"`
	Extra []byte  `json:"extra,omitempty"`
}

type Hdr struct {
	ID       uint64 `json:"id"`
	PrevAlh  []byte `json:"prevalh"`
	Ts       int64  `json:"ts"`
	Version  int    `json:"version"`
	Md       *TxMd  `json:"md,omitempty"`
	NEntries int    `json:"nentries"`
	Eh       []byte `json:"eh"`
	BlTxID   uint64 `json:"bltxid"`
	BlRoot   []byte `json:"blroot"`
}

type recEntry struct {
	md, key []byte
	vlen    int
	voff    uint64
	hval    [32]byte
	val     []byte
}

type txRecord struct {
	hdr     Hdr
	entries []recEntry
	alh     [32]byte
	term    string // the TXOBS Coq term
	full    string // canonical rendering of EVERYTHING read (all header fields, entries, digests, values): immutability comparison
}

func mdOf(m *store.TxMetadata) *TxMd {
	if m == nil || len(m.Bytes()) == 0 {
		return nil
	}
	r := &TxMd{}
	if m.HasTruncatedTxID() {
		v, _ := m.GetTruncatedTxID()
		r.Trunc = &v
	}
	if e := m.Extra(); e != nil {
		r.Extra = append([]byte{}, e...)
	}
	return r
}

func (m *TxMd) toStore() *store.TxMetadata {
	if m == nil {
		return nil
	}
	md := store.NewTxMetadata()
	if m.Trunc != nil {
		md.WithTruncatedTxID(*m.Trunc)
	}
	if m.Extra != nil {
		md.WithExtra(m.Extra)
	}
	return md
}

func hdrOf(h *store.TxHeader) Hdr {
	return Hdr{ID: h.ID, PrevAlh: append([]byte{}, h.PrevAlh[:]...), Ts: h.Ts, Version: h.Version, Md: mdOf(h.Metadata),
		NEntries: h.NEntries, Eh: append([]byte{}, h.Eh[:]...), BlTxID: h.BlTxID, BlRoot: append([]byte{}, h.BlRoot[:]...)}
}

func (h *Hdr) toStore() *store.TxHeader {
	r := &store.TxHeader{ID: h.ID, Ts: h.Ts, Version: h.Version, Metadata: h.Md.toStore(), NEntries: h.NEntries, BlTxID: h.BlTxID}
	copy(r.PrevAlh[:], h.PrevAlh)
	copy(r.Eh[:], h.Eh)
	copy(r.BlRoot[:], h.BlRoot)
	return r
}

// ---- Coq terms -----------------------------------------------------------------------------

// hx: compact byte-string literal (Tie.C02.hx over the bstr notation)
func hx(b []byte) string { return fmt.Sprintf("(hx \"%x\"%%bs)", b) }
func optHx(b []byte) string {
	if b == nil {
		return "None"
	}
	return "(Some " + hx(b) + ")"
}
func voffTerm(v uint64) string {
	if v >= 1<<56 && v < 1<<57 {
		return fmt.Sprintf("(vo %d)", v-(1<<56))
	}
	return fmt.Sprintf("%d", v)
}

func mdTerm(m *TxMd) string {
	if m == nil {
		return "None"
	}
	tr := "None"
	if m.Trunc != nil {
		tr = fmt.Sprintf("(Some %d)", *m.Trunc)
	}
	return fmt.Sprintf("(Some (mkM %s %s))", tr, optHx(m.Extra))
}

func hdrTerm(h *Hdr) string {
	return fmt.Sprintf("(mkH %d %s %d %d %s %d %s %d %s)",
		h.ID, hx(h.PrevAlh), uint64(h.Ts), h.Version, mdTerm(h.Md), h.NEntries, hx(h.Eh), h.BlTxID, hx(h.BlRoot))
}

func specTerm(es []Ent, md *TxMd, ts int64, precond *bool, cancel bool) string {
	var l []string
	for _, e := range es {
		l = append(l, fmt.Sprintf("(mkK %s %s %s)", hx(e.Key), hx(e.Md), hx(e.Val)))
	}
	pc := "None"
	if precond != nil {
		pc = "(Some " + vk.Bool(*precond) + ")"
	}
	return fmt.Sprintf("(mkP %s %s %d %s %s)",
		vk.List(l), mdTerm(md), uint64(ts), pc, vk.Bool(cancel))
}

func mdBytes(m *TxMd) []byte {
	if m == nil {
		return nil
	}
	return m.toStore().Bytes()
}

func recTerm(t *txRecord) string {
	var es []string
	for _, e := range t.entries {
		es = append(es, fmt.Sprintf("(mkE %s %s %d %s %s)", hx(e.md), hx(e.key), e.vlen, voffTerm(e.voff), hx(e.val)))
	}
	h := &t.hdr
	return fmt.Sprintf("(mkT %d %d %d %s %d %d %s %s)", h.ID, uint64(h.Ts), h.Version, hx(mdBytes(h.Md)), h.NEntries, h.BlTxID,
		hx(t.alh[:]), vk.List(es))
}

type obs struct {
	ok        bool
	id        uint64
	alh       []byte
	committed uint64
	calh      [32]byte
	inmem     uint64
	newTxs    []*txRecord
	stable    bool
}

func obsTerm(o *obs) string {
	var l []string
	for _, t := range o.newTxs {
		l = append(l, t.term)
	}
	return fmt.Sprintf("(mkO %s %d %s %d %d %s %s)",
		vk.Bool(o.ok), o.id, hx(o.alh), o.committed, o.inmem, vk.List(l), vk.Bool(o.stable))
}

type Cfg struct {
	Synced     bool `json:"synced"`
	Embedded   bool `json:"embedded"`
	Version    int  `json:"version"`
	MaxActive  int  `json:"maxactive"`
	MaxEntries int  `json:"maxentries"`
	MaxKey     int  `json:"maxkey"`
	MaxVal     int  `json:"maxval"`
	Ext0       bool `json:"ext0"`
	// not part of the model
	FileSize   int  `json:"filesize"`
	Prealloc   bool `json:"prealloc"`
	IOConc     int  `json:"ioconc"`
	TxCache    int  `json:"txcache"`
	VCache     int  `json:"vcache"`
	WriteBuf   int  `json:"writebuf"`
	Concurrent bool `json:"concurrent,omitempty"`
}

func cfgTerm(c *Cfg) string {
	return fmt.Sprintf("(mkC %s %s %d %d %d %d %d %s 8 %s)",
		vk.Bool(c.Synced), vk.Bool(c.Embedded), c.Version, c.MaxActive, c.MaxEntries, c.MaxKey, c.MaxVal, vk.Bool(c.Ext0), vk.Bool(c.Prealloc))
}

func b2i(b bool) int {
	if b {
		return 1
	}
	return 0
}

func (c *Cfg) bucket() string {
	return fmt.Sprintf("s%de%dx%dv%d", b2i(c.Synced), b2i(c.Embedded), b2i(c.Ext0), c.Version)
}

// ---- the harness' own Merkle tree (RFC 6962 shape) --------------------------------------------

func merkleRoot(leaves [][32]byte) [32]byte {
	n := len(leaves)
	if n == 0 {
		return [32]byte{}
	}
	if n == 1 {
		b := append([]byte{0}, leaves[0][:]...)
		return sha256.Sum256(b)
	}
	k := 1
	for k*2 < n {
		k *= 2
	}
	l := merkleRoot(leaves[:k])
	r := merkleRoot(leaves[k:])
	b := append([]byte{1}, l[:]...)
	b = append(b, r[:]...)
	return sha256.Sum256(b)
}

func joinSteps(l []string) string { return "[" + strings.Join(l, ";\n  ") + "]" }
