package c02

import (
	"context"
	"fmt"
	"sort"
	"sync"
	"time"

	"github.com/codenotary/immudb/embedded/store"
	"verif/harness/vk"
)

type concTx struct {
	g    int
	ents []Ent
	hdr  *store.TxHeader
}

// concurrentCase: G goroutines commit concurrently while a monitor goroutine keeps re-reading the
// committed history (temporal monitor). Ids are handed out under the store's lock, so the order of
// the precommits is the order of the returned ids; that order (and, for the value log, the order
// of the value writes = order of the value offsets) is fed to the model as the interleaving.
func concurrentCase(r *vk.Run, idx int) error {
	rng := r.Rng
	cfg := base(idx%2 == 1, rng.Intn(3) == 0, false)
	cfg.MaxActive = 1000
	cfg.Concurrent = true
	if rng.Intn(2) == 0 {
		cfg.FileSize = 512
	}
	if rng.Intn(2) == 0 {
		cfg.TxCache = 2
	}
	w, err := newWorld(r, fmt.Sprintf("seed %d concurrent %d", r.Seed, idx), cfg)
	if err != nil {
		return err
	}
	defer w.close()
	w.concurrent = true
	G := 3 + rng.Intn(5)
	K := 2 + rng.Intn(4)
	specs := make([][][]Ent, G)
	for g := 0; g < G; g++ {
		for k := 0; k < K; k++ {
			n := 1 + rng.Intn(2)
			var es []Ent
			for i := 0; i < n; i++ {
				var v []byte
				if rng.Intn(6) != 0 {
					v = vk.RandBytes(rng, 1+rng.Intn(60))
				}
				es = append(es, Ent{Key: []byte(fmt.Sprintf("g%d-%d-%d", g, k, i)), Val: v})
			}
			specs[g] = append(specs[g], es)
		}
	}
	var mu sync.Mutex
	var txs []*concTx
	var wg sync.WaitGroup
	stop := make(chan struct{})
	var aux sync.WaitGroup
	// monitor goroutine (owns w.seen / w.holder during the phase)
	aux.Add(1)
	go func() {
		defer aux.Done()
		for {
			select {
			case <-stop:
				return
			default:
			}
			w.observe()
		}
	}()
	if cfg.Synced {
		aux.Add(1)
		go func() {
			defer aux.Done()
			for {
				select {
				case <-stop:
					return
				default:
				}
				w.st.Sync()
				time.Sleep(50 * time.Microsecond)
			}
		}()
	}
	var cerr error
	for g := 0; g < G; g++ {
		wg.Add(1)
		go func(g int) {
			defer wg.Done()
			for k := 0; k < K; k++ {
				ctx, cancel := context.WithTimeout(context.Background(), 120*time.Second)
				tx, err := w.st.NewWriteOnlyTx(ctx)
				if err == nil {
					for _, e := range specs[g][k] {
						tx.Set(e.Key, nil, e.Val)
					}
					w.clock.Add(1)
					var hdr *store.TxHeader
					hdr, err = tx.AsyncCommit(ctx)
					if err == nil {
						mu.Lock()
						txs = append(txs, &concTx{g: g, ents: specs[g][k], hdr: hdr})
						mu.Unlock()
					}
				}
				cancel()
				if err != nil {
					mu.Lock()
					cerr = err
					mu.Unlock()
				}
			}
		}(g)
	}
	wg.Wait()
	close(stop)
	aux.Wait()
	if cerr != nil {
		w.finding("concurrent-commit-failed: a valid commit call failed under concurrency: %v", cerr)
	}
	w.concurrent = false
	w.st.Sync()
	o := w.observe()
	o.ok = true
	// every acknowledged header must be the committed transaction with its id
	for _, t := range txs {
		w.ackCheck(t.hdr, false)
	}
	// the whole history is reported by the final observation
	o.newTxs = w.seen
	sort.Slice(txs, func(i, j int) bool { return txs[i].hdr.ID < txs[j].hdr.ID })
	// order of the value writes
	type bg struct {
		t    *concTx
		voff uint64
		has  bool
	}
	var begins []*bg
	byID := map[uint64]*bg{}
	for _, t := range txs {
		b := &bg{t: t}
		if !cfg.Embedded && t.hdr.ID <= uint64(len(w.seen)) {
			for _, e := range w.seen[t.hdr.ID-1].entries {
				if e.vlen > 0 {
					b.voff, b.has = e.voff&((1<<55)-1), true
					break
				}
			}
		}
		begins = append(begins, b)
		byID[t.hdr.ID] = b
	}
	var ordered []*bg
	for _, b := range begins {
		if b.has {
			ordered = append(ordered, b)
		}
	}
	sort.Slice(ordered, func(i, j int) bool { return ordered[i].voff < ordered[j].voff })
	emitted := map[*bg]bool{}
	var terms []string
	emitBegin := func(b *bg) {
		emitted[b] = true
		terms = append(terms, fmt.Sprintf("TOp (OBegin %d %s None false) None", b.t.hdr.ID, specTerm(b.t.ents, nil, b.t.hdr.Ts, nil, false)))
	}
	next := 0
	for _, t := range txs {
		b := byID[t.hdr.ID]
		if b.has {
			for !emitted[b] && next < len(ordered) {
				emitBegin(ordered[next])
				next++
			}
		} else {
			emitBegin(b)
		}
		terms = append(terms, fmt.Sprintf("TOp (OLocked %d) None", t.hdr.ID))
	}
	terms = append(terms, "TOp OSync (Some "+obsTerm(o)+")")
	coq := fmt.Sprintf("CScript %s true %s", cfgTerm(&cfg), joinSteps(terms))
	js := map[string]any{"tag": w.tag, "cfg": cfg, "goroutines": G, "txs": len(txs), "violation": w.violated}
	r.Case(coq, js, "conc/"+cfg.bucket()+fmt.Sprintf("/g%d", G), len(txs) >= 3)
	return nil
}
