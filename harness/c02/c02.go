// Package c02: correspondence harness and falsifier for property C02 (committed history is
// append-only and immutable). A real store is driven by random sequential step scripts that mirror
// the steps of coq/Hist/Machine.v; after every step the whole committed history is re-read and (a)
// recorded so that Tie.C02.case_ok can run the model on the same script and compare, (b) checked
// directly by a temporal monitor (ids dense, every committed record identical to its first report,
// chain links, BlRoot recomputed with the harness' own Merkle code, state = last).
package c02

import (
	"crypto/sha256"
	"encoding/json"
	"fmt"
	"math/rand"
	"os"
	"strings"

	"verif/harness/vk"
)

func randCfg(rng *rand.Rand, k int) Cfg {
	c := Cfg{
		Synced: k&1 == 1, Embedded: k&2 == 2, Ext0: k&4 == 4,
		Version: 1, MaxActive: 1000, MaxEntries: 64, MaxKey: 128, MaxVal: 4096, IOConc: 1,
	}
	if rng.Intn(4) == 0 {
		c.Version = 0
	}
	switch rng.Intn(3) {
	case 0:
		c.MaxActive = 2 + rng.Intn(4)
	case 1:
		c.MaxActive = 8
	}
	if rng.Intn(4) == 0 {
		c.MaxEntries = 2 + rng.Intn(3)
	}
	if rng.Intn(6) == 0 {
		c.MaxKey = 8
	}
	if rng.Intn(6) == 0 {
		c.MaxVal = 64
	}
	switch rng.Intn(5) {
	case 0:
		c.FileSize = 256
	case 1:
		c.FileSize = 600
	case 2:
		c.FileSize = 4096
	}
	// preallocation writes FileSize zero bytes per log: only with the small chunk sizes, except rarely.
	// A preallocated file is never truncated by a rewind: what a rewind leaves in it depends on which
	// buffered bytes chunk rotation had already flushed, which the model does not represent; rewinds over
	// buffered bytes (attempts that fail after their tx-log append when cLogBuf is full, commit loops
	// that stop midway) only occur under external commit allowance: no preallocation there.
	c.Prealloc = !c.Ext0 && ((c.FileSize != 0 && rng.Intn(3) == 0) || rng.Intn(40) == 0)
	if !c.Embedded && rng.Intn(6) == 0 {
		c.IOConc = 2 + rng.Intn(2)
	}
	switch rng.Intn(4) {
	case 0:
		c.TxCache = 1
	case 1:
		c.TxCache = 3
	}
	if rng.Intn(3) == 0 {
		c.VCache = 4
	}
	if rng.Intn(4) == 0 {
		c.WriteBuf = 1 << 20
	}
	return c
}

var keyPool = []string{"a", "b", "k1", "k2", "key-3", "key-4", "user:1", "user:2", "zz"}

func (w *world) randEnts(rng *rand.Rand, n int) []Ent {
	var es []Ent
	used := map[string]bool{}
	for len(es) < n {
		var k string
		if rng.Intn(5) == 0 {
			k = fmt.Sprintf("f%d-%d", w.stepIdx, len(es))
		} else {
			k = keyPool[rng.Intn(len(keyPool))]
		}
		if used[k] || len(k) > w.cfg.MaxKey {
			k = fmt.Sprintf("u%d%d", w.stepIdx, len(es))
			if used[k] {
				continue
			}
		}
		used[k] = true
		var v []byte
		switch rng.Intn(8) {
		case 0:
		case 1:
			v = vk.RandBytes(rng, 200+rng.Intn(200))
		default:
			v = vk.RandBytes(rng, 1+rng.Intn(40))
		}
		if len(v) > w.cfg.MaxVal {
			v = v[:w.cfg.MaxVal]
		}
		var md []byte
		if w.cfg.Version == 1 {
			switch rng.Intn(12) {
			case 0:
				md = []byte{0} // deleted
			case 1:
				md = []byte{2} // non-indexable
			case 2:
				md = []byte{1, 0, 0, 0, 1, 0xb2, 0x07, 0xe8, 0x00} // expires in year 2122
			}
		}
		es = append(es, Ent{Key: []byte(k), Md: md, Val: v})
	}
	return es
}

func (w *world) randMd(rng *rand.Rand) *TxMd {
	switch rng.Intn(10) {
	case 0:
		return &TxMd{Extra: vk.RandBytes(rng, 1+rng.Intn(12))}
	case 1:
		v := uint64(rng.Intn(5))
		return &TxMd{Trunc: &v}
	}
	return nil
}

// nextStep chooses the next step from the current state of the store.
func (w *world) nextStep(rng *rand.Rand) *Step {
	cid, _ := w.st.CommittedAlh()
	pid := w.st.LastPrecommittedTxID()
	if w.reopenPct > 0 {
		// prealloc-reopen family: Close/Open right after commits, so that a restart happens at every fill
		// level of the preallocated commit-log chunks, in particular when the last slot of a chunk is used
		if w.justCommitted && w.discards == 0 && rng.Intn(100) < w.reopenPct {
			return &Step{Kind: "reopen"}
		}
		if rng.Intn(100) < 55 {
			s := &Step{Kind: "pre", C: rng.Intn(4), Ents: w.randEnts(rng, 1+rng.Intn(2)), Ts: w.clock.Load() + int64(rng.Intn(3))}
			if len(s.Ents[0].Val) > 64 {
				s.Ents[0].Val = s.Ents[0].Val[:64]
			}
			return s
		}
		if w.cfg.Synced && rng.Intn(2) == 0 {
			return &Step{Kind: "sync"}
		}
	}
	ts := w.clock.Load() + int64(rng.Intn(3))
	x := rng.Intn(100)
	switch {
	case x < 46: // plain commit
		s := &Step{Kind: "pre", C: rng.Intn(4), Ents: w.randEnts(rng, 1+rng.Intn(3)), Ts: ts}
		if w.cfg.Version == 1 || rng.Intn(10) == 0 {
			s.Md = w.randMd(rng)
		}
		if pid == cid && rng.Intn(6) == 0 {
			w.addPrecond(rng, s)
		}
		return s
	case x < 54: // failing / cancelled / oversized / empty
		s := &Step{Kind: "pre", C: rng.Intn(4), Ts: ts}
		switch rng.Intn(6) {
		case 0:
			s.Ents = w.randEnts(rng, 1+rng.Intn(2))
			s.Cancel = "ctx"
		case 1:
			s.Ents = w.randEnts(rng, 1)
			s.Cancel = "cancel"
		case 2: // one entry more than MaxTxEntries
			if w.cfg.MaxEntries <= 4 {
				s.Ents = w.randEnts(rng, w.cfg.MaxEntries+1)
			} else {
				s.Ents = nil
			}
		case 3: // no entries, possibly extra-only metadata
			if rng.Intn(2) == 0 && w.cfg.Version == 1 {
				s.Md = &TxMd{Extra: []byte{1, 2, 3}}
			}
		case 4: // KV metadata where the header version does not support it
			s.Ents = w.randEnts(rng, 1+rng.Intn(2))
			s.Ents[0].Md = []byte{0}
		case 5: // failing precondition
			s.Ents = w.randEnts(rng, 1)
			if pid == cid {
				w.addFailingPrecond(rng, s)
			}
		}
		return s
	case x < 62: // metadata-only transaction (truncation marker) / valid replicated tx
		return w.replStep(rng, ts, "")
	case x < 68:
		muts := []string{"prevalh", "blroot", "idlow", "idhigh", "idplus2", "eh", "nentries", "blge", "emptykey"}
		return w.replStep(rng, ts, muts[rng.Intn(len(muts))])
	case x < 76:
		return &Step{Kind: "sync"}
	case x < 84:
		n := []uint64{0, cid, cid + 1, pid, pid, pid + 1, pid + 3}
		return &Step{Kind: "allow", N: n[rng.Intn(len(n))]}
	case x < 90:
		n := []uint64{0, cid, cid + 1, cid + 1, cid + 2, pid, pid, pid + 1}
		if w.reopenPct > 0 {
			// the family keeps the documented exclusion (no reopen of a preallocated store after a Discard
			// that removed something) by never removing anything
			n = []uint64{0, cid, pid + 1}
		}
		return &Step{Kind: "discard", N: n[rng.Intn(len(n))]}
	case x < 92:
		if w.cfg.Prealloc {
			return &Step{Kind: "sync"}
		}
		return &Step{Kind: "setext", B: rng.Intn(2) == 0}
	case x < 97:
		if w.cfg.Prealloc && w.discards > 0 {
			// preallocated chunk files: a Discard that removed something cuts the tx log, multiapp removes
			// the chunk files behind the cut even when preallocated but keeps the bytes inside the current
			// chunk: what a reopen finds there depends on chunk boundaries, which the model does not contain
			return &Step{Kind: "sync"}
		}
		return &Step{Kind: "reopen"}
	default:
		return &Step{Kind: "maint", Maint: []string{"flush", "compact", "waitidx"}[rng.Intn(3)]}
	}
}

func (w *world) addPrecond(rng *rand.Rand, s *Step) {
	t := true
	var live []string
	for k, v := range w.keysLive {
		if v {
			live = append(live, k)
		}
	}
	if len(live) > 0 && rng.Intn(2) == 0 {
		// deterministic choice independent of map order
		best := live[0]
		for _, k := range live {
			if k < best {
				best = k
			}
		}
		s.PcKind, s.PcKey, s.PcExp = "mustexist", []byte(best), &t
		return
	}
	s.PcKind, s.PcKey, s.PcExp = "mustnotexist", []byte(fmt.Sprintf("never-%d", w.stepIdx)), &t
}

func (w *world) addFailingPrecond(rng *rand.Rand, s *Step) {
	f := false
	var live []string
	for k, v := range w.keysLive {
		if v {
			live = append(live, k)
		}
	}
	if len(live) > 0 && rng.Intn(2) == 0 {
		best := live[0]
		for _, k := range live {
			if k < best {
				best = k
			}
		}
		s.PcKind, s.PcKey, s.PcExp = "mustnotexist", []byte(best), &f
		return
	}
	s.PcKind, s.PcKey, s.PcExp = "mustexist", []byte(fmt.Sprintf("never-%d", w.stepIdx)), &f
}

// replStep fabricates an exported transaction for ReplicateTx, chained on the store's current
// precommitted state, optionally with one defect.
func (w *world) replStep(rng *rand.Rand, ts int64, mut string) *Step {
	alhs := w.precommittedAlhs()
	pid := uint64(len(alhs))
	ents := w.randEnts(rng, 1+rng.Intn(3))
	version := w.cfg.Version
	if rng.Intn(5) == 0 {
		version = 1 - version
	}
	if version == 0 {
		for i := range ents {
			ents[i].Md = nil
		}
	}
	var md *TxMd
	if version == 1 {
		md = w.randMd(rng)
	}
	h := Hdr{ID: pid + 1, Ts: ts, Version: version, Md: md, NEntries: len(ents)}
	prev := sha256.Sum256(nil)
	if pid > 0 {
		prev = alhs[pid-1]
	}
	h.PrevAlh = prev[:]
	bl := uint64(0)
	if pid > 0 {
		switch rng.Intn(4) {
		case 0:
			bl = 0
		case 1:
			bl = uint64(rng.Intn(int(pid))) + 1
		default:
			bl = pid
		}
	}
	if cid, _ := w.st.CommittedAlh(); bl == 0 && pid > 0 && pid-cid >= uint64(w.cfg.MaxActive) {
		// cLogBuf is full: this attempt will fail AFTER its tx-log append; with BlTxID = 0 its BlRoot would be
		// whatever the pooled tx holder contains (an input the harness can observe on successful precommits
		// only), and a later reopen may reload the record
		bl = pid
	}
	h.BlTxID = bl
	root := merkleRoot(alhs[:bl])
	h.BlRoot = root[:]
	eh, err := computeEh(version, ents)
	if err != nil {
		eh = [32]byte{}
	}
	h.Eh = eh[:]
	s := &Step{Kind: "pre", C: 4 + rng.Intn(2), Ents: ents, Ts: ts, Exp: &h, ExpN: len(ents), SkipIC: rng.Intn(4) == 0, Note: mut}
	switch mut {
	case "prevalh":
		p := append([]byte{}, h.PrevAlh...)
		p[rng.Intn(32)] ^= 1 << uint(rng.Intn(8))
		h.PrevAlh = p
	case "blroot":
		p := append([]byte{}, h.BlRoot...)
		p[rng.Intn(32)] ^= 1 << uint(rng.Intn(8))
		h.BlRoot = p
	case "idlow":
		if pid > 0 {
			h.ID = uint64(rng.Intn(int(pid))) + 1
			if h.BlTxID >= h.ID {
				h.BlTxID = h.ID - 1
				r := merkleRoot(alhs[:h.BlTxID])
				h.BlRoot = r[:]
			}
		}
	case "idhigh":
		h.ID = pid + uint64(w.cfg.MaxActive) + 1 + uint64(rng.Intn(2))
	case "idplus2":
		h.ID = pid + 2
	case "eh":
		p := append([]byte{}, h.Eh...)
		p[rng.Intn(32)] ^= 1 << uint(rng.Intn(8))
		h.Eh = p
	case "nentries":
		if rng.Intn(2) == 0 {
			h.NEntries++
		} else {
			s.ExpN = len(ents) - 1
		}
	case "blge":
		h.BlTxID = h.ID + uint64(rng.Intn(2))
	case "emptykey":
		s.Ents[0].Key = nil
	}
	return s
}

// runScript executes a script (generated on the fly when steps == nil) and records the case.
func runScript(r *vk.Run, rng *rand.Rand, tag string, cfg Cfg, steps []*Step, nsteps int, bucketPfx string, opts ...func(*world)) error {
	w, err := newWorld(r, tag, cfg)
	if err != nil {
		return err
	}
	defer w.close()
	for _, o := range opts {
		o(w)
	}
	var terms []string
	var done []*Step
	committedTxs, interesting := 0, false
	for i := 0; ; i++ {
		w.stepIdx = i
		var s *Step
		if steps != nil {
			if i >= len(steps) {
				break
			}
			s = steps[i]
			if s.Kind == "mkrepl" {
				// a valid exported transaction chained on the store's current state (directed scripts)
				s = w.replStep(rand.New(rand.NewSource(int64(7+i))), s.Ts, s.Note)
			}
		} else {
			if i >= nsteps {
				break
			}
			s = w.safeNext(rng)
		}
		before := w.discards
		seenBefore := len(w.seen)
		term, fatal := w.execSafe(s)
		w.justCommitted = len(w.seen) > seenBefore && s.Kind != "reopen"
		done = append(done, s)
		if term != "" {
			terms = append(terms, term)
		}
		if s.Kind == "reopen" || w.discards > before || (s.Kind == "pre" && (s.Cancel != "" || s.Note != "")) {
			interesting = true
		}
		if fatal {
			break
		}
	}
	committedTxs = len(w.seen)
	w.drainPending(true)
	coq := fmt.Sprintf("CScript %s %s %s", cfgTerm(&cfg), vk.Bool(cfg.IOConc == 1), joinSteps(terms))
	js := map[string]any{"tag": tag, "cfg": cfg, "steps": done, "violation": w.violated, "committed": committedTxs}
	r.Case(coq, js, bucketPfx+cfg.bucket()+fmt.Sprintf("/tx%02d", committedTxs/5*5), committedTxs >= 3 && interesting)
	return nil
}

func (w *world) safeNext(rng *rand.Rand) (s *Step) {
	defer func() {
		if r := recover(); r != nil {
			w.finding("store-panic: choosing the next step panicked: %v", r)
			s = &Step{Kind: "sync"}
		}
	}()
	return w.nextStep(rng)
}

// execSafe: a Go panic inside the store (main goroutine) ends the script with a finding
func (w *world) execSafe(s *Step) (term string, fatal bool) {
	defer func() {
		if r := recover(); r != nil {
			w.finding("store-panic: step %s panicked: %v", s.Kind, r)
			term, fatal = "", true
		}
	}()
	return w.exec(s)
}

// Gen: n sequential scripts + the concurrent phase.
func Gen(r *vk.Run, n int) error {
	thorough := os.Getenv("VERIF_TIER") == "thorough"
	for i := 0; i < n; i++ {
		cfg := randCfg(r.Rng, i)
		nsteps := 10 + r.Rng.Intn(26)
		if err := runScript(r, r.Rng, fmt.Sprintf("seed %d script %d", r.Seed, i), cfg, nil, nsteps, "seq/"); err != nil {
			return err
		}
	}
	// prealloc-reopen family: preallocated small chunk files, a clean Close/Open after (almost) every commit
	np := n/12 + 2
	if thorough {
		np = n/6 + 3
	}
	for i := 0; i < np; i++ {
		cfg := randCfg(r.Rng, i)
		cfg.Ext0, cfg.Prealloc = false, true
		cfg.FileSize = []int{256, 512, 600}[r.Rng.Intn(3)]
		pct := []int{100, 100, 60, 30}[r.Rng.Intn(4)]
		nsteps := 40 + r.Rng.Intn(30)
		if err := runScript(r, r.Rng, fmt.Sprintf("seed %d prealloc-reopen %d (FileSize %d)", r.Seed, i, cfg.FileSize), cfg, nil, nsteps, "pre/",
			func(w *world) { w.reopenPct = pct }); err != nil {
			return err
		}
	}
	// the directed scripts (known defect and its neighbours), always run
	for i, d := range directed() {
		if err := runScript(r, r.Rng, fmt.Sprintf("seed %d directed %d", r.Seed, i), d.cfg, d.steps, 0, "dir/"); err != nil {
			return err
		}
	}
	for _, prealloc := range []bool{false, true} {
		if err := staleClogTail(r, prealloc); err != nil {
			return err
		}
	}
	nc := n/12 + 2
	if thorough {
		nc = n/4 + 4
	}
	for i := 0; i < nc; i++ {
		if err := concurrentCase(r, i); err != nil {
			return err
		}
	}
	return nil
}

// staleClogTail: falsifier-only directed scenario (no case for the model: the model does not contain
// the appendable layer). Small chunk files (FileSize 256), synced store with external commit allowance:
// precommit 1..8; AllowCommitUpto(8); Discard(8); Sync() stops midway after appending the commit-log
// entries of 1..7 (chunk rotation flushes most of them to the first chunk file);
// SetExternalCommitAllowance(true); Discard(3); precommit new 3, 4; AllowCommitUpto(4); Sync() commits
// 1..4 (the commit log is rewound with SetOffset). Before 09014a8 SetOffset never truncated the file: the stale
// entries of the OLD 5, 6, 7 stayed behind, Open counted them: committed id 7, tx 5 chained to the DISCARDED
// tx 4. Since 09014a8 the rewind truncates (fixed), except for preallocated files (second variant: still fails).
func staleClogTail(r *vk.Run, prealloc bool) error {
	cfg := base(true, false, true)
	cfg.MaxActive = 20
	cfg.FileSize = 256
	cfg.Prealloc = prealloc
	name := "stale-clog-tail"
	if prealloc {
		// a preallocated commit log is never truncated (09014a8 keeps its size by design): the stale
		// entries stay in the file and OpenWith's search for the last non-zero entry counts them
		name = "stale-clog-tail-prealloc"
	}
	w, err := newWorld(r, fmt.Sprintf("seed %d %s", r.Seed, name), cfg)
	if err != nil {
		return err
	}
	defer w.close()
	w.collect = true
	var steps []*Step
	for i := 1; i <= 8; i++ {
		steps = append(steps, put(i%3, fmt.Sprintf("k%d", i), fmt.Sprintf("v%d", i), int64(1000+i)))
	}
	steps = append(steps, &Step{Kind: "allow", N: 8}, &Step{Kind: "discard", N: 8}, &Step{Kind: "sync"},
		&Step{Kind: "setext", B: true}, &Step{Kind: "discard", N: 3},
		put(0, "n3", "w3", 1010), put(1, "n4", "w4", 1011), &Step{Kind: "allow", N: 4}, &Step{Kind: "sync"})
	for i, s := range steps {
		w.stepIdx = i
		if _, fatal := w.execSafe(s); fatal {
			break
		}
	}
	before := uint64(len(w.seen))
	w.stepIdx = len(steps)
	w.execSafe(&Step{Kind: "reopen"})
	w.drainPending(true)
	after := uint64(len(w.seen))
	symptom := ""
	var other []string
	for _, f := range w.collected {
		switch {
		case strings.HasPrefix(f, "prevalh-broken"):
			symptom = fmt.Sprintf("/Open the committed id is %d (was %d) and the chain is broken: %s", after, before, f)
		case strings.HasPrefix(f, "reopen-failed"):
			if symptom == "" {
				symptom = " the store cannot be opened: " + f
			}
		case strings.HasPrefix(f, "reopen-committed-more"), strings.HasPrefix(f, "blroot-mismatch"),
			strings.HasPrefix(f, "ack-mismatch[after-discard]"):
			// consequences of the same stale entries / of the known waiter defect
		default:
			other = append(other, f)
		}
	}
	w.collect = false
	if symptom != "" {
		w.r.Finding(fmt.Sprintf("%s: after a clean Close%s [%s]", name, symptom, w.tag))
	}
	for _, f := range other {
		w.r.Finding(f + " [" + w.tag + "]")
	}
	r.Stats["falsifier/"+name]++
	return nil
}

// Replay re-executes the script stored in a replay file.
func Replay(r *vk.Run, c map[string]any) error {
	b, _ := json.Marshal(c)
	var in struct {
		Tag   string  `json:"tag"`
		Cfg   Cfg     `json:"cfg"`
		Steps []*Step `json:"steps"`
	}
	if err := json.Unmarshal(b, &in); err != nil {
		return err
	}
	if in.Cfg.Concurrent {
		return concurrentCase(r, 0)
	}
	return runScript(r, r.Rng, "replay of "+in.Tag, in.Cfg, in.Steps, 0, "replay/")
}
