package c02

import "fmt"

// preallocReopenTxs: commits (each followed by Close/Open) of the directed prealloc-reopen scripts
const preallocReopenTxs = 26

type dscript struct {
	cfg   Cfg
	steps []*Step
}

func base(synced, embedded, ext bool) Cfg {
	return Cfg{Synced: synced, Embedded: embedded, Ext0: ext, Version: 1, MaxActive: 10, MaxEntries: 64, MaxKey: 128, MaxVal: 4096, IOConc: 1}
}

func put(c int, k, v string, ts int64) *Step {
	return &Step{Kind: "pre", C: c, Ents: []Ent{{Key: []byte(k), Val: []byte(v)}}, Ts: ts}
}

// directed: scripts aimed at the places where Discard, failed precommits, failed commits and
// reopen interact (always executed, in every run).
func directed() []dscript {
	var l []dscript
	// D0/D1: Discard, Precommit, Reopen, Allow, Commit — the discarded tx is reloaded from the tx log
	// while the AHT keeps the leaf of its replacement (unsynced and synced flavours, embedded values too)
	for _, emb := range []bool{false, true} {
		l = append(l, dscript{base(false, emb, true), []*Step{
			put(0, "k1", "v1", 1001), put(1, "k2", "v2", 1002), {Kind: "allow", N: 2},
			put(0, "A", "discarded", 1003), {Kind: "discard", N: 3}, put(1, "B", "second-3", 1004),
			{Kind: "reopen"}, {Kind: "allow", N: 3}, put(0, "k4", "v4", 1005), {Kind: "allow", N: 4},
			put(2, "k5", "v5", 1006), {Kind: "allow", N: 5}, {Kind: "reopen"},
		}})
	}
	l = append(l, dscript{base(true, false, false), []*Step{
		put(0, "k1", "v1", 1001), put(1, "k2", "v2", 1002), {Kind: "sync"},
		put(0, "A", "discarded", 1003), {Kind: "discard", N: 3}, put(1, "B", "second-3", 1004),
		{Kind: "reopen"}, {Kind: "sync"}, put(0, "k4", "v4", 1005), {Kind: "sync"}, {Kind: "reopen"},
	}})
	// D3: cLogBuf full inside performPrecommit (unsynced + external allowance, MaxActiveTransactions 2)
	c := base(false, false, true)
	c.MaxActive = 2
	l = append(l, dscript{c, []*Step{
		put(0, "k1", "v1", 1001), put(1, "k2", "v2", 1002), put(2, "k3", "v3", 1003),
		{Kind: "allow", N: 2}, put(0, "k4", "v4", 1004), {Kind: "discard", N: 3}, put(0, "k5", "v5", 1005),
		{Kind: "reopen"}, put(1, "k6", "v6", 1006), {Kind: "allow", N: 3}, put(1, "k7", "v7", 1007), {Kind: "allow", N: 9},
	}})
	ce := c
	ce.Embedded = true
	l = append(l, dscript{ce, l[len(l)-1].steps})
	// D5: sync() fails midway (allowance beyond the precommitted id after a Discard), then close/reopen
	l = append(l, dscript{base(true, false, true), []*Step{
		put(0, "k1", "v1", 1001), put(1, "k2", "v2", 1002), put(2, "k3", "v3", 1003),
		{Kind: "allow", N: 3}, {Kind: "discard", N: 3}, {Kind: "sync"}, {Kind: "reopen"},
		put(0, "k4", "v4", 1004), {Kind: "allow", N: 9}, {Kind: "sync"},
	}})
	l = append(l, dscript{base(true, false, true), []*Step{
		put(0, "k1", "v1", 1001), put(1, "k2", "v2", 1002), put(2, "k3", "v3", 1003),
		{Kind: "allow", N: 3}, {Kind: "discard", N: 3}, {Kind: "sync"}, {Kind: "setext", B: true},
		{Kind: "discard", N: 1}, {Kind: "reopen"}, {Kind: "allow", N: 9}, {Kind: "sync"},
		put(0, "n2", "w2", 1005), {Kind: "allow", N: 9}, {Kind: "sync"},
	}})
	// D7: a commit call waiting for a transaction that is discarded, id taken by another transaction
	l = append(l, dscript{base(true, false, false), []*Step{
		put(0, "A", "first", 1001), {Kind: "discard", N: 1}, put(1, "B", "second", 1002), {Kind: "sync"},
		put(0, "k3", "v3", 1003), {Kind: "sync"},
	}})
	// D8: MaxActiveTransactions in synced mode, failed commits after the value write, reopen with precommitted txs
	c = base(true, true, false)
	c.MaxActive = 2
	l = append(l, dscript{c, []*Step{
		put(0, "k1", "v1", 1001), put(1, "k2", "v2", 1002), put(2, "k3", "v3", 1003), {Kind: "reopen"},
		put(0, "k4", "v4", 1004), {Kind: "sync"}, put(0, "k5", "v5", 1005), {Kind: "reopen"}, {Kind: "sync"},
	}})
	c.Embedded = false
	l = append(l, dscript{c, l[len(l)-1].steps})
	// D10: cLogBuf full (the AHT keeps the leaf of the failed attempt), then a REPLICATED tx (its BlTxID comes
	// from the header, so it passes the linking check) must first rewind the AHT (ResetSize in performPrecommit)
	c = base(false, false, true)
	c.MaxActive = 2
	l = append(l, dscript{c, []*Step{
		put(0, "k1", "v1", 1001), put(1, "k2", "v2", 1002), put(2, "k3", "v3", 1003),
		{Kind: "allow", N: 2}, {Kind: "mkrepl", Ts: 1004}, {Kind: "allow", N: 3},
		put(0, "k5", "v5", 1005), {Kind: "allow", N: 4}, {Kind: "mkrepl", Ts: 1006}, {Kind: "allow", N: 9},
		put(1, "k7", "v7", 1007), {Kind: "allow", N: 9},
	}})
	// D11: the bytes of an attempt that failed after its tx-log append (cLogBuf full) are flushed by sync();
	// further attempts (linking error: SetOffset only) do not remove them from the file; reopen reloads them
	c = base(false, false, true)
	c.MaxActive = 2
	l = append(l, dscript{c, []*Step{
		put(0, "k1", "v1", 1001), put(1, "k2", "v2", 1002), put(2, "k3", "v3", 1003), {Kind: "sync"},
		put(0, "k4", "v4", 1004), put(1, "k5", "v5", 1005), {Kind: "reopen"}, {Kind: "allow", N: 9},
		put(0, "k6", "v6", 1006), {Kind: "allow", N: 9},
	}})
	l = append(l, dscript{c, []*Step{
		put(0, "k1", "v1", 1001), put(1, "k2", "v2", 1002), put(2, "k3", "v3", 1003),
		put(0, "k4", "v4", 1004), {Kind: "sync"}, put(1, "k5", "v5", 1005), {Kind: "reopen"}, {Kind: "allow", N: 9},
		put(0, "k6", "v6", 1006), {Kind: "allow", N: 9},
	}})
	// D13: shrunk from thorough seed 2 script 202 (embedded values, unsynced, MaxTxEntries 2): a call whose
	// context is cancelled (or whose tx was cancelled) before it starts leaves nothing behind, and the next
	// valid commit takes the next id. That script once disagreed with the model because the harness's own
	// wait limit had cancelled the context of a valid call on a stalled machine (see runCommit).
	c = base(false, true, false)
	c.MaxActive, c.MaxEntries = 4, 2
	l = append(l, dscript{c, []*Step{
		put(1, "user:1", "v1", 1002), put(2, "a", "v2", 1004), {Kind: "discard", N: 3},
		{Kind: "pre", C: 1, Ents: []Ent{{Key: []byte("x"), Val: []byte("1")}, {Key: []byte("y"), Val: []byte("2")}, {Key: []byte("z"), Val: []byte("3")}}, Ts: 1005},
		{Kind: "mkrepl", Ts: 1006}, {Kind: "reopen"}, put(2, "k2", "v4", 1011), {Kind: "allow", N: 7},
		{Kind: "pre", C: 1, Ents: []Ent{{Key: []byte("key-4"), Val: []byte("c")}}, Ts: 1016, Cancel: "cancel"},
		{Kind: "pre", C: 3, Ents: []Ent{{Key: []byte("k1"), Md: []byte{0}, Val: []byte("after-cancel")}}, Ts: 1018},
		{Kind: "pre", C: 1, Ents: []Ent{{Key: []byte("key-4"), Val: []byte("c")}}, Ts: 1019, Cancel: "ctx"},
		put(2, "f22-0", "after-ctx", 1020), {Kind: "reopen"},
	}})
	// D14..: preallocated files with small chunks, a clean Close/Open after EVERY commit for more than two
	// chunks' worth of commit-log entries: the restart must find the last committed transaction at every fill
	// level of the preallocated commit log, including when the last entry slot of a chunk is in use
	// (OpenWith's search for the last non-zero entry)
	for _, v := range []struct {
		fs          int
		synced, emb bool
	}{{512, false, false}, {512, true, true}, {256, false, true}, {256, true, false}} {
		c = base(v.synced, v.emb, false)
		c.Prealloc, c.FileSize, c.MaxEntries = true, v.fs, 8
		var st []*Step
		for i := 0; i < preallocReopenTxs; i++ {
			st = append(st, put(i%3, fmt.Sprintf("p%d", i), fmt.Sprintf("v%d", i), int64(1001+i)))
			if v.synced {
				st = append(st, &Step{Kind: "sync"})
			}
			st = append(st, &Step{Kind: "reopen"})
		}
		l = append(l, dscript{c, st})
	}
	return l
}
