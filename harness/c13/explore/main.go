package main

import (
	"context"
	"fmt"
	"io"
	"os"

	"github.com/codenotary/immudb/embedded/logger"
	"github.com/codenotary/immudb/embedded/sql"
	"github.com/codenotary/immudb/embedded/store"
)

var ctx = context.Background()

type sess struct {
	e  *sql.Engine
	tx *sql.SQLTx
	id int
}

func (s *sess) exec(q string) {
	old := s.tx
	ntx, ctxs, err := s.e.Exec(ctx, s.tx, q, nil)
	s.tx = ntx
	fmt.Printf("  s%d EXEC %-55s err=%v", s.id, q, err)
	if ntx != nil {
		fmt.Printf(" ntx{upd=%d last=%v first=%v same=%v}", ntx.UpdatedRows(), ntx.LastInsertedPKs(), ntx.FirstInsertedPKs(), ntx == old)
	}
	for _, c := range ctxs {
		fmt.Printf(" committed{upd=%d last=%v first=%v hdr=%v}", c.UpdatedRows(), c.LastInsertedPKs(), c.FirstInsertedPKs(), c.TxHeader() != nil)
	}
	if old != nil {
		fmt.Printf(" oldClosed=%v", old.Closed())
	}
	fmt.Println()
}

func (s *sess) begin() {
	tx, err := s.e.NewTx(ctx, sql.DefaultTxOptions().WithExplicitClose(true))
	fmt.Printf("  s%d NEWTX err=%v\n", s.id, err)
	s.tx = tx
}
func (s *sess) beginRO() {
	tx, err := s.e.NewTx(ctx, sql.DefaultTxOptions().WithExplicitClose(true).WithReadOnly(true))
	fmt.Printf("  s%d NEWTX-RO err=%v\n", s.id, err)
	s.tx = tx
}

func (s *sess) query(q string) {
	r, err := s.e.Query(ctx, s.tx, q, nil)
	if err != nil {
		fmt.Printf("  s%d QUERY %-54s err=%v\n", s.id, q, err)
		return
	}
	rows, err := sql.ReadAllRows(ctx, r)
	r.Close()
	out := ""
	for _, row := range rows {
		out += "("
		for _, v := range row.ValuesByPosition {
			out += fmt.Sprintf("%v ", v.RawValue())
		}
		out += ")"
	}
	fmt.Printf("  s%d QUERY %-54s err=%v rows=%s\n", s.id, q, err, out)
}

func setup() (*sql.Engine, func()) {
	dir, _ := os.MkdirTemp("", "c13x")
	st, err := store.Open(dir, store.DefaultOptions().WithMultiIndexing(true).WithSynced(false).
		WithLogger(logger.NewSimpleLoggerWithLevel("vh", io.Discard, logger.LogError)))
	if err != nil {
		panic(err)
	}
	e, err := sql.NewEngine(st, sql.DefaultOptions().WithPrefix([]byte("sql")))
	if err != nil {
		panic(err)
	}
	_, _, err = e.Exec(ctx, nil, "CREATE TABLE t1 (id INTEGER, v INTEGER, PRIMARY KEY id); CREATE TABLE t2 (id INTEGER AUTO_INCREMENT, v INTEGER, PRIMARY KEY id);", nil)
	if err != nil {
		panic(err)
	}
	return e, func() { st.Close(); os.RemoveAll(dir) }
}

func main() {
	{
		fmt.Println("== savepoint witness")
		e, done := setup()
		a := &sess{e: e, id: 1}
		a.begin()
		a.exec("INSERT INTO t1(id,v) VALUES (1,10)")
		a.exec("SAVEPOINT s")
		a.exec("INSERT INTO t1(id,v) VALUES (2,20)")
		a.query("SELECT id, v FROM t1")
		a.exec("ROLLBACK TO SAVEPOINT s")
		a.query("SELECT id, v FROM t1")
		a.exec("ROLLBACK TO SAVEPOINT s")
		b := &sess{e: e, id: 2}
		b.query("SELECT id, v FROM t1")
		done()
	}
	{
		fmt.Println("== savepoint witness 2")
		e, done := setup()
		a := &sess{e: e, id: 1}
		a.begin()
		a.exec("INSERT INTO t1(id,v) VALUES (1,10)")
		a.exec("SAVEPOINT s")
		a.exec("INSERT INTO t1(id,v) VALUES (2,20)")
		a.exec("SAVEPOINT s2")
		a.exec("ROLLBACK TO SAVEPOINT s")
		a.exec("RELEASE SAVEPOINT s2")
		a.exec("COMMIT")
		b := &sess{e: e, id: 2}
		b.query("SELECT id, v FROM t1")
		done()
	}
	{
		fmt.Println("== failure mid tx")
		e, done := setup()
		a := &sess{e: e, id: 1}
		a.begin()
		a.exec("INSERT INTO t1(id,v) VALUES (1,10)")
		a.exec("INSERT INTO t1(id,v) VALUES (1,11)")
		a.exec("INSERT INTO t1(id,v) VALUES (3,11)")
		a.exec("COMMIT")
		a.query("SELECT id, v FROM t1")
		a.exec("INSERT INTO t1(id,v) VALUES (4,1), (3, 1)")
		a.query("SELECT id, v FROM t1")
		a.exec("BEGIN TRANSACTION")
		a.exec("INSERT INTO t2(v) VALUES (4), (3)")
		a.exec("UPDATE t1 SET v = v + 1 WHERE id >= 0")
		a.query("SELECT id, v FROM t1")
		a.query("SELECT id, v FROM t2 WHERE id = 2")
		a.query("SELECT id, v FROM nope")
		a.exec("DELETE FROM t1 WHERE id = 3")
		a.exec("DELETE FROM t1 WHERE id = 3")
		a.exec("UPSERT INTO t1(id,v) VALUES (3,33)")
		a.exec("ROLLBACK TO SAVEPOINT zz")
		a.exec("COMMIT")
		a.query("SELECT id, v FROM t1")
		a.query("SELECT id, v FROM t2")
		done()
	}
	{
		fmt.Println("== lazy snapshots RO")
		e, done := setup()
		a := &sess{e: e, id: 1}
		b := &sess{e: e, id: 2}
		b.exec("INSERT INTO t1(id,v) VALUES (1,10)")
		a.beginRO()
		a.query("SELECT id, v FROM t1")
		b.exec("BEGIN TRANSACTION; INSERT INTO t1(id,v) VALUES (2,20); INSERT INTO t2(v) VALUES (5); COMMIT")
		a.query("SELECT id, v FROM t1")
		a.query("SELECT id, v FROM t2")
		a.exec("ROLLBACK")
		fmt.Println("-- RW")
		a.begin()
		a.query("SELECT id, v FROM t1")
		b.exec("BEGIN TRANSACTION; INSERT INTO t1(id,v) VALUES (3,30); INSERT INTO t2(v) VALUES (6); COMMIT")
		a.query("SELECT id, v FROM t1")
		a.query("SELECT id, v FROM t2")
		a.exec("INSERT INTO t2(v) VALUES (7)")
		a.exec("COMMIT")
		done()
	}
	{
		fmt.Println("== conflicts")
		e, done := setup()
		a := &sess{e: e, id: 1}
		b := &sess{e: e, id: 2}
		b.exec("INSERT INTO t1(id,v) VALUES (1,10)")
		a.begin()
		a.exec("DELETE FROM t1 WHERE id = 1")
		a.exec("INSERT INTO t1(id,v) VALUES (1,11)")
		b.exec("INSERT INTO t1(id,v) VALUES (9,90)")
		a.exec("COMMIT")
		b.query("SELECT id, v FROM t1")
		fmt.Println("-- blind insert no conflict?")
		a.begin()
		a.exec("INSERT INTO t1(id,v) VALUES (5,50)")
		b.exec("INSERT INTO t1(id,v) VALUES (6,60)")
		a.exec("COMMIT")
		fmt.Println("-- same pk insert")
		a.begin()
		a.exec("INSERT INTO t1(id,v) VALUES (7,70)")
		b.exec("INSERT INTO t1(id,v) VALUES (7,71)")
		a.exec("COMMIT")
		fmt.Println("-- autoinc both")
		a.begin()
		b.begin()
		a.exec("INSERT INTO t2(v) VALUES (1)")
		b.exec("INSERT INTO t2(v) VALUES (2)")
		a.exec("COMMIT")
		b.exec("COMMIT")
		b.query("SELECT id, v FROM t2")
		fmt.Println("-- closed handle reuse")
		a.begin()
		h := a.tx
		a.exec("ROLLBACK")
		a.tx = h
		a.exec("INSERT INTO t1(id,v) VALUES (8,80)")
		a.exec("COMMIT")
		b.query("SELECT id, v FROM t1")
		done()
	}
}
