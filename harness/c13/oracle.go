package c13

import (
	"fmt"
	"sort"
)

// The property is checked directly against the obvious specification, written here in Go:
//
//   a transaction is a list of statements applied to a PRIVATE COPY of the committed tables taken at
//   BEGIN; a SELECT reads the private copy; COMMIT installs the transaction's changes atomically (or
//   is rejected as a whole: the engine's verdict is accepted), ROLLBACK / a failed statement / a
//   failed COMMIT / closing the session discard the copy; ROLLBACK TO SAVEPOINT restores the copy
//   taken at the savepoint and drops the later savepoints; the affected-row count is the number
//   of row changes applied and first/last inserted keys are those of the rows inserted.
//
// The same interpreter runs a second time with the two deviations the faithful Coq model has
// (`faithful = true`): per-table snapshots taken at first access, and ROLLBACK TO SAVEPOINT restoring
// only the counters and removing only the named savepoint.  (A third one, the duplicate-key test
// of INSERT not seeing the transaction's own DELETE, was fixed in /repo by 62a15b5: a recurrence
// differs from both references and is reported with cause=unknown.)  A difference between the engine and the obvious spec is a
// finding; it is attributed to a deviation only when the deviating reference agrees with the
// engine on the whole program so far AND the transaction actually exercised that deviation.
// Everything else is reported with cause=unknown.

type ocell struct {
	del bool
	v   int64
}
type otable map[int64]ocell

func (t otable) clone() otable {
	if t == nil {
		return nil
	}
	c := make(otable, len(t))
	for k, v := range t {
		c[k] = v
	}
	return c
}

func (t otable) liveRows(lo, hi *int64) [][2]int64 {
	keys := make([]int64, 0, len(t))
	for k, c := range t {
		if c.del || (lo != nil && k < *lo) || (hi != nil && k > *hi) {
			continue
		}
		keys = append(keys, k)
	}
	sort.Slice(keys, func(i, j int) bool { return keys[i] < keys[j] })
	out := make([][2]int64, len(keys))
	for i, k := range keys {
		out[i] = [2]int64{k, t[k].v}
	}
	return out
}

func sameLive(a, b otable) bool {
	ra, rb := a.liveRows(nil, nil), b.liveRows(nil, nil)
	return rowsEq(ra, rb)
}

func rowsEq(a, b [][2]int64) bool {
	if len(a) != len(b) {
		return false
	}
	for i := range a {
		if a[i] != b[i] {
			return false
		}
	}
	return true
}

type went struct {
	t    int
	pk   int64
	kind byte // 'i' insert, 'u' upsert, 'p' update, 'd' delete
	v    int64
}

type osave struct {
	name     uint64
	work     [3]otable
	nApplied int
	k        Counters
}

// one reference's view of an open transaction
type vtx struct {
	faithful bool
	ro       bool
	work     [3]otable // nil: not copied yet (faithful reference only)
	atBegin  [3]otable // committed tables at BEGIN
	applied  []went
	maxpk    [3]int64
	k        Counters // bookkeeping as SQLTx keeps it (faithful reference); the obvious one derives it
	sps      []osave
	taints   map[string]bool
}

const (
	causeRbTo = "cause=rollback-to-savepoint-keeps-writes"
	causeLazy = "cause=per-table-lazy-snapshot"
)

func maxKey(t otable) (int64, bool) {
	var m int64
	found := false
	for k := range t {
		if !found || k > m {
			m, found = k, true
		}
	}
	return m, found
}

func obegin(db [3]otable, ro, faithful bool) *vtx {
	x := &vtx{faithful: faithful, ro: ro, taints: map[string]bool{}}
	for t := 0; t < 3; t++ {
		x.atBegin[t] = db[t].clone()
	}
	if !faithful {
		for t := 0; t < 3; t++ {
			x.work[t] = db[t].clone()
		}
	}
	if !ro {
		for t := 0; t < 3; t++ {
			if autoinc(t) {
				if faithful {
					x.work[t] = db[t].clone()
				}
				if m, ok := maxKey(db[t]); ok {
					x.maxpk[t] = m
				}
			}
		}
	}
	return x
}

func (x *vtx) touch(db [3]otable, t int) {
	if x.work[t] == nil {
		x.work[t] = db[t].clone()
		if !sameLive(db[t], x.atBegin[t]) {
			x.taints[causeLazy] = true
		}
	}
}

func (x *vtx) counters() *Counters {
	if x.faithful {
		c := x.k
		return &c
	}
	c := Counters{Upd: len(x.applied)}
	for _, w := range x.applied {
		if autoinc(w.t) && (w.kind == 'i' || w.kind == 'u') {
			v := w.pk
			if c.First[w.t] == nil {
				c.First[w.t] = &v
			}
			v2 := w.pk
			c.Last[w.t] = &v2
		}
	}
	return &c
}

func (x *vtx) write(db [3]otable, w went) bool {
	if x.ro {
		return false
	}
	x.touch(db, w.t)
	x.work[w.t][w.pk] = ocell{del: w.kind == 'd', v: w.v}
	x.applied = append(x.applied, w)
	x.k.Upd++
	return true
}

func (x *vtx) notePK(t int, pk int64) {
	if autoinc(t) {
		v := pk
		if x.k.First[t] == nil {
			x.k.First[t] = &v
		}
		v2 := pk
		x.k.Last[t] = &v2
	}
}

// one VALUES row with an explicit id
func (x *vtx) putRow(db [3]otable, isIns bool, t int, pk, v int64) bool {
	must := autoinc(t) && pk <= x.maxpk[t]
	x.notePK(t, pk)
	x.touch(db, t)
	c, present := x.work[t][pk]
	live := present && !c.del
	found := live
	if !found && must {
		return false
	}
	if isIns && found {
		return false
	}
	kind := byte('u')
	if isIns {
		kind = 'i'
	}
	return x.write(db, went{t, pk, kind, v})
}

func (x *vtx) dml(db [3]otable, op Op) bool {
	// a read-only transaction refuses every statement that is not read-only (since 82bd2bd
	// before executing it: also an UPDATE / DELETE that would match no row)
	if x.ro {
		return false
	}
	t := op.T % 3
	switch op.K {
	case KIns:
		return x.putRow(db, true, t, op.Pk, op.V)
	case KIns2:
		return x.putRow(db, true, t, op.Pk, op.V) && x.putRow(db, true, t, op.Pk2, op.V2)
	case KUps:
		return x.putRow(db, false, t, op.Pk, op.V)
	case KInsAuto:
		if !autoinc(t) {
			return false
		}
		x.maxpk[t]++
		pk := x.maxpk[t]
		x.notePK(t, pk)
		x.touch(db, t)
		c, present := x.work[t][pk]
		live := present && !c.del
		if live {
			return false
		}
		return x.write(db, went{t, pk, 'i', op.V})
	case KUpd:
		x.touch(db, t)
		for _, r := range x.work[t].liveRows(op.Lo, op.Hi) {
			if !x.write(db, went{t, r[0], 'p', r[1] + op.D}) {
				return false
			}
		}
		return true
	case KDel:
		x.touch(db, t)
		for _, r := range x.work[t].liveRows(op.Lo, op.Hi) {
			if !x.write(db, went{t, r[0], 'd', r[1]}) {
				return false
			}
		}
		return true
	}
	return false
}

func (x *vtx) findSp(name uint64) int {
	for i := len(x.sps) - 1; i >= 0; i-- {
		if x.sps[i].name == name {
			return i
		}
	}
	return -1
}

func (x *vtx) savepoint(name uint64) {
	if i := x.findSp(name); i >= 0 {
		x.sps = append(x.sps[:i], x.sps[i+1:]...)
	}
	sp := osave{name: name, nApplied: len(x.applied), k: x.k}
	for t := 0; t < 3; t++ {
		sp.work[t] = x.work[t].clone()
	}
	x.sps = append(x.sps, sp)
}

func (x *vtx) rollbackTo(name uint64) bool {
	i := x.findSp(name)
	if i < 0 {
		return false
	}
	sp := x.sps[i]
	if x.faithful {
		// counters only; only the named savepoint goes away
		x.k = sp.k
		x.sps = append(x.sps[:i], x.sps[i+1:]...)
		x.taints[causeRbTo] = true
		return true
	}
	for t := 0; t < 3; t++ {
		x.work[t] = sp.work[t].clone()
	}
	x.applied = x.applied[:sp.nApplied]
	x.sps = x.sps[:i+1]
	return true
}

func (x *vtx) release(name uint64) bool {
	i := x.findSp(name)
	if i < 0 {
		return false
	}
	x.sps = append(x.sps[:i], x.sps[i+1:]...)
	return true
}

func installInto(db [3]otable, applied []went) [3]otable {
	var nd [3]otable
	for t := 0; t < 3; t++ {
		nd[t] = db[t].clone()
	}
	for _, w := range applied {
		nd[w.t][w.pk] = ocell{del: w.kind == 'd', v: w.v}
	}
	return nd
}

// what a reference expects from one step
type expect struct {
	o       Obs
	tx      *vtx       // the session's transaction afterwards (nil: none)
	newdb   *[3]otable // committed tables afterwards when a commit installs something
	taints  map[string]bool
	isEnded bool
}

func liveDB(db [3]otable) [3][][2]int64 {
	var out [3][][2]int64
	for t := 0; t < 3; t++ {
		out[t] = db[t].liveRows(nil, nil)
	}
	return out
}

// evalStep computes what the reference expects when session transaction x (nil: the session holds
// none) executes op over committed tables db.  engErr is the engine's verdict, used only to decide
// whether a COMMIT that could be validated was accepted.
func evalStep(db [3]otable, x *vtx, op Op, faithful bool, engErr bool) expect {
	e := expect{tx: x}
	e.o.Rows = [][2]int64{}
	fail := func(oldClosed bool) expect {
		e.o.Err = true
		e.o.OldClosed = oldClosed
		e.tx = nil
		e.isEnded = true
		return e
	}
	commit := func(y *vtx, explicit bool) expect {
		e.tx = nil
		e.isEnded = true
		e.taints = y.taints
		if y.ro {
			return fail(explicit)
		}
		if len(y.applied) == 0 {
			e.o.Ctx = y.counters()
			e.o.OldClosed = explicit
			return e
		}
		if engErr {
			return fail(explicit)
		}
		nd := installInto(db, y.applied)
		e.newdb = &nd
		e.o.Ctx = y.counters()
		e.o.CtxHdr = true
		e.o.OldClosed = explicit
		return e
	}
	if x == nil {
		switch op.K {
		case KBegin, KBeginRO, KBeginStmt:
			e.tx = obegin(db, op.K == KBeginRO, faithful)
			e.o.Open = true
			e.o.Cnt = e.tx.counters()
			return e
		case KSel:
			e.o.Rows = db[op.T%3].liveRows(op.Lo, op.Hi)
			return e
		case KClose:
			return e
		case KBadQ, KBadX, KBadParse, KCommit, KRollback, KSp, KRbTo, KRel:
			e.o.Err = true
			return e
		}
		y := obegin(db, false, faithful)
		if !y.dml(db, op) {
			e.o.Err = true
			e.taints = y.taints
			return e
		}
		r := commit(y, false)
		r.isEnded = false
		return r
	}
	e.taints = x.taints
	switch op.K {
	case KBegin, KBeginRO:
		e.o.Err = true
		e.o.Open = true
		e.o.Cnt = x.counters()
		return e
	case KBeginStmt:
		return fail(true)
	case KSel:
		x.touch(db, op.T%3)
		e.o.Rows = x.work[op.T%3].liveRows(op.Lo, op.Hi)
		e.o.Open = true
		e.o.Cnt = x.counters()
		return e
	case KBadQ:
		e.o.Err = true
		e.o.Open = true
		e.o.Cnt = x.counters()
		return e
	case KBadX:
		return fail(true)
	case KBadParse:
		return fail(false)
	case KCommit:
		return commit(x, true)
	case KRollback:
		e.o.Ctx = x.counters()
		e.o.OldClosed = true
		e.tx = nil
		e.isEnded = true
		return e
	case KClose:
		e.o.OldClosed = true
		e.tx = nil
		e.isEnded = true
		return e
	case KSp:
		x.savepoint(op.N)
	case KRbTo:
		if !x.rollbackTo(op.N) {
			return fail(true)
		}
	case KRel:
		if !x.release(op.N) {
			return fail(true)
		}
	default:
		if !x.dml(db, op) {
			return fail(true)
		}
	}
	e.o.Open = true
	e.o.Cnt = x.counters()
	return e
}

func cntEq(a, b *Counters) bool {
	if (a == nil) != (b == nil) {
		return false
	}
	if a == nil {
		return true
	}
	if a.Upd != b.Upd {
		return false
	}
	for t := 0; t < 3; t++ {
		for _, p := range [][2]*int64{{a.Last[t], b.Last[t]}, {a.First[t], b.First[t]}} {
			if (p[0] == nil) != (p[1] == nil) || (p[0] != nil && *p[0] != *p[1]) {
				return false
			}
		}
	}
	return true
}

func cntStr(c *Counters) string {
	if c == nil {
		return "-"
	}
	s := fmt.Sprintf("rows=%d", c.Upd)
	for t := 0; t < 3; t++ {
		if c.First[t] != nil {
			s += fmt.Sprintf(" first[%s]=%d", tables[t], *c.First[t])
		}
		if c.Last[t] != nil {
			s += fmt.Sprintf(" last[%s]=%d", tables[t], *c.Last[t])
		}
	}
	return s
}

// diffObs: "" when the engine's observation is what the reference expects, else which observable
// differs (expected vs got)
func diffObs(exp *expect, db [3]otable, got *Obs) string {
	w := exp.o
	if w.Err != got.Err {
		return fmt.Sprintf("statement outcome: expected error=%v, engine error=%v (%s)", w.Err, got.Err, got.ErrMsg)
	}
	if !rowsEq(w.Rows, got.Rows) {
		return fmt.Sprintf("SELECT returned %v, expected %v", got.Rows, w.Rows)
	}
	if w.Open != got.Open {
		return fmt.Sprintf("session holds a transaction afterwards: expected %v, engine %v", w.Open, got.Open)
	}
	if w.OldClosed != got.OldClosed {
		return fmt.Sprintf("transaction handle closed afterwards: expected %v, engine %v", w.OldClosed, got.OldClosed)
	}
	if !cntEq(w.Cnt, got.Cnt) {
		return fmt.Sprintf("counters of the open transaction: expected {%s}, engine {%s}", cntStr(w.Cnt), cntStr(got.Cnt))
	}
	if !cntEq(w.Ctx, got.Ctx) || w.CtxHdr != got.CtxHdr {
		return fmt.Sprintf("reported result: expected {%s} committed=%v, engine {%s} committed=%v", cntStr(w.Ctx), w.CtxHdr, cntStr(got.Ctx), got.CtxHdr)
	}
	after := db
	if exp.newdb != nil {
		after = *exp.newdb
	}
	la := liveDB(after)
	for t := 0; t < 3; t++ {
		if !rowsEq(la[t], got.DB[t]) {
			return fmt.Sprintf("committed content of %s afterwards is %v, expected %v", tables[t], got.DB[t], la[t])
		}
	}
	return ""
}

type oracleResult struct {
	findings []string // texts for r.Finding
	unknown  bool     // a deviation not explained by a known deviation was seen
	known    map[string]bool
}

// checkProgram replays the program on both references against what the engine did.
func checkProgram(steps []Step, obs []Obs) oracleResult {
	res := oracleResult{known: map[string]bool{}}
	var db [3]otable
	for t := 0; t < 3; t++ {
		db[t] = otable{}
	}
	var ftx, otx [3]*vtx
	var diverged [3]bool // the obvious reference lost track of this session's open transaction
	reported := map[string]bool{}
	for i, st := range steps {
		s := st.S % 3
		got := &obs[i]
		upto := progString(steps[:i+1])
		ef := evalStep(db, ftx[s], st.Op, true, got.Err)
		if d := diffObs(&ef, db, got); d != "" {
			res.unknown = true
			res.findings = append(res.findings, fmt.Sprintf("cause=unknown: the engine differs from the faithful reference interpreter at step %d: %s; program: %s", i, d, upto))
			return res
		}
		var eo expect
		checkObvious := !diverged[s]
		if checkObvious {
			eo = evalStep(db, otx[s], st.Op, false, got.Err)
			if d := diffObs(&eo, db, got); d != "" {
				taints := []string{}
				for _, c := range []string{causeRbTo, causeLazy} {
					if ef.taints[c] {
						taints = append(taints, c)
					}
				}
				if len(taints) == 0 {
					res.unknown = true
					res.findings = append(res.findings, fmt.Sprintf("cause=unknown: the engine differs from the obvious transaction semantics at step %d: %s; program: %s", i, d, upto))
				}
				for _, c := range taints {
					res.known[c] = true
					if !reported[c] {
						reported[c] = true
						res.findings = append(res.findings, fmt.Sprintf("%s: the engine differs from the obvious transaction semantics at step %d: %s; program: %s", c, i, d, upto))
					}
				}
				diverged[s] = true
			}
		}
		// advance: the committed state follows the faithful reference (equal to the engine's)
		if ef.newdb != nil {
			db = *ef.newdb
		}
		ftx[s] = ef.tx
		if !diverged[s] {
			otx[s] = eo.tx
		}
		if ftx[s] == nil {
			otx[s] = nil
			diverged[s] = false
		}
	}
	return res
}
