// Package c13: correspondence cases and direct property check for C13 (SQL transactions are atomic
// and isolated, incl. rollback and savepoints).
//
// A case is one interleaved program of 1..3 sessions over the fixed schema ta / tb(AUTO_INCREMENT) /
// tc, executed statement by statement on a real sql.Engine over a real store in a temp dir.
package c13

import (
	"fmt"
	"strings"
)

// Op kinds (the Coq constructor is given in coqOp).
const (
	KBegin     = "begin"     // engine.NewTx(DefaultTxOptions().WithExplicitClose(true))
	KBeginRO   = "beginro"   // ... .WithReadOnly(true)
	KBeginStmt = "beginstmt" // Exec "BEGIN TRANSACTION"
	KIns       = "ins"
	KIns2      = "ins2"
	KInsAuto   = "insauto"
	KUps       = "ups"
	KUpd       = "upd"
	KDel       = "del"
	KSel       = "sel"
	KBadQ      = "badq"
	KBadX      = "badx"
	KBadParse  = "badparse"
	KCommit    = "commit"
	KRollback  = "rollback"
	KSp        = "sp"
	KRbTo      = "rbto"
	KRel       = "rel"
	KClose     = "close"
)

type Op struct {
	K   string `json:"k"`
	T   int    `json:"t"`
	Pk  int64  `json:"pk"`
	V   int64  `json:"v"`
	Pk2 int64  `json:"pk2"`
	V2  int64  `json:"v2"`
	Lo  *int64 `json:"lo"`
	Hi  *int64 `json:"hi"`
	D   int64  `json:"d"`
	N   uint64 `json:"n"`
}

type Step struct {
	S  int `json:"s"`
	Op Op  `json:"op"`
}

var tables = [3]string{"ta", "tb", "tc"}
var coqTables = [3]string{"TA", "TB", "TC"}
var coqSess = [3]string{"I0", "I1", "I2"}

func autoinc(t int) bool { return t == 1 }

func isDML(k string) bool {
	switch k {
	case KIns, KIns2, KInsAuto, KUps, KUpd, KDel:
		return true
	}
	return false
}

func where(lo, hi *int64) string {
	switch {
	case lo == nil && hi == nil:
		return ""
	case lo != nil && hi != nil && *lo == *hi:
		return fmt.Sprintf(" WHERE id = %d", *lo)
	case lo != nil && hi != nil:
		return fmt.Sprintf(" WHERE id >= %d AND id <= %d", *lo, *hi)
	case lo != nil:
		return fmt.Sprintf(" WHERE id >= %d", *lo)
	default:
		return fmt.Sprintf(" WHERE id <= %d", *hi)
	}
}

// SQL text of an operation ("" for the operations that are API calls).
func (o Op) SQL() string {
	t := tables[o.T%3]
	switch o.K {
	case KBeginStmt:
		return "BEGIN TRANSACTION"
	case KIns:
		return fmt.Sprintf("INSERT INTO %s(id, v) VALUES (%d, %d)", t, o.Pk, o.V)
	case KIns2:
		return fmt.Sprintf("INSERT INTO %s(id, v) VALUES (%d, %d), (%d, %d)", t, o.Pk, o.V, o.Pk2, o.V2)
	case KInsAuto:
		return fmt.Sprintf("INSERT INTO %s(v) VALUES (%d)", t, o.V)
	case KUps:
		return fmt.Sprintf("UPSERT INTO %s(id, v) VALUES (%d, %d)", t, o.Pk, o.V)
	case KUpd:
		return fmt.Sprintf("UPDATE %s SET v = v + %d%s", t, o.D, where(o.Lo, o.Hi))
	case KDel:
		return fmt.Sprintf("DELETE FROM %s%s", t, where(o.Lo, o.Hi))
	case KSel:
		return fmt.Sprintf("SELECT id, v FROM %s%s", t, where(o.Lo, o.Hi))
	case KBadQ:
		return "SELECT id FROM nosuch"
	case KBadX:
		return "INSERT INTO nosuch(id) VALUES (1)"
	case KBadParse:
		return "INSERT INTO ta(id, v) VALUES (1,"
	case KCommit:
		return "COMMIT"
	case KRollback:
		return "ROLLBACK"
	case KSp:
		return fmt.Sprintf("SAVEPOINT s%d", o.N)
	case KRbTo:
		return fmt.Sprintf("ROLLBACK TO SAVEPOINT s%d", o.N)
	case KRel:
		return fmt.Sprintf("RELEASE SAVEPOINT s%d", o.N)
	}
	return ""
}

func zt(v int64) string {
	if v < 0 {
		return fmt.Sprintf("(%d)", v)
	}
	return fmt.Sprintf("%d", v)
}

func ozt(v *int64) string {
	if v == nil {
		return "None"
	}
	return "(sz " + zt(*v) + ")"
}

func (o Op) coqOp() string {
	t := coqTables[o.T%3]
	switch o.K {
	case KBegin:
		return "(OBegin false)"
	case KBeginRO:
		return "(OBegin true)"
	case KBeginStmt:
		return "OBeginStmt"
	case KIns:
		return fmt.Sprintf("(OInsert %s %s %s)", t, zt(o.Pk), zt(o.V))
	case KIns2:
		return fmt.Sprintf("(OInsert2 %s %s %s %s %s)", t, zt(o.Pk), zt(o.V), zt(o.Pk2), zt(o.V2))
	case KInsAuto:
		return fmt.Sprintf("(OInsertAuto %s %s)", t, zt(o.V))
	case KUps:
		return fmt.Sprintf("(OUpsert %s %s %s)", t, zt(o.Pk), zt(o.V))
	case KUpd:
		return fmt.Sprintf("(OUpdate %s %s %s %s)", t, ozt(o.Lo), ozt(o.Hi), zt(o.D))
	case KDel:
		return fmt.Sprintf("(ODelete %s %s %s)", t, ozt(o.Lo), ozt(o.Hi))
	case KSel:
		return fmt.Sprintf("(OSelect %s %s %s)", t, ozt(o.Lo), ozt(o.Hi))
	case KBadQ:
		return "OBadQuery"
	case KBadX:
		return "(OBadExec false)"
	case KBadParse:
		return "(OBadExec true)"
	case KCommit:
		return "OCommit"
	case KRollback:
		return "ORollback"
	case KSp:
		return fmt.Sprintf("(OSavepoint %d)", o.N)
	case KRbTo:
		return fmt.Sprintf("(ORollbackTo %d)", o.N)
	case KRel:
		return fmt.Sprintf("(ORelease %d)", o.N)
	case KClose:
		return "OClose"
	}
	panic("unknown op kind " + o.K)
}

// short human-readable form used in finding texts
func (o Op) String() string {
	switch o.K {
	case KBegin:
		return "NewTx"
	case KBeginRO:
		return "NewTx(ReadOnly)"
	case KClose:
		return "close-session"
	}
	return o.SQL()
}

func progString(steps []Step) string {
	var b strings.Builder
	for i, st := range steps {
		if i > 0 {
			b.WriteString("; ")
		}
		fmt.Fprintf(&b, "s%d: %s", st.S, st.Op.String())
	}
	return b.String()
}

// ---- observations ----

type Counters struct {
	Upd   int       `json:"upd"`
	Last  [3]*int64 `json:"last"`
	First [3]*int64 `json:"first"`
}

type Obs struct {
	Err       bool          `json:"err"`
	ErrMsg    string        `json:"errmsg,omitempty"` // never compared
	Rows      [][2]int64    `json:"rows"`
	Open      bool          `json:"open"`
	OldClosed bool          `json:"oldclosed"`
	Cnt       *Counters     `json:"cnt"`
	Ctx       *Counters     `json:"ctx"`
	CtxHdr    bool          `json:"ctxhdr"`
	DB        [3][][2]int64 `json:"db"`
}

func rowsTerm(rows [][2]int64) string {
	xs := make([]string, len(rows))
	for i, r := range rows {
		xs[i] = "R " + zt(r[0]) + " " + zt(r[1])
	}
	return "[" + strings.Join(xs, "; ") + "]"
}

func (c *Counters) term() string {
	return fmt.Sprintf("KL %d %s %s %s %s %s %s", c.Upd, ozt(c.Last[0]), ozt(c.Last[1]), ozt(c.Last[2]),
		ozt(c.First[0]), ozt(c.First[1]), ozt(c.First[2]))
}

func b2s(b bool) string {
	if b {
		return "true"
	}
	return "false"
}

func (o *Obs) term() string {
	cnt, ctx := "None", "None"
	if o.Cnt != nil {
		cnt = "(Some (" + o.Cnt.term() + "))"
	}
	if o.Ctx != nil {
		ctx = "(Some (" + o.Ctx.term() + ", " + b2s(o.CtxHdr) + "))"
	}
	return fmt.Sprintf("(OB %s %s %s %s %s %s %s %s %s)", b2s(o.Err), rowsTerm(o.Rows), b2s(o.Open), b2s(o.OldClosed),
		cnt, ctx, rowsTerm(o.DB[0]), rowsTerm(o.DB[1]), rowsTerm(o.DB[2]))
}

func caseTerm(steps []Step, obs []Obs) string {
	xs := make([]string, len(steps))
	for i, st := range steps {
		xs[i] = fmt.Sprintf("SO %s %s %s", coqSess[st.S%3], st.Op.coqOp(), obs[i].term())
	}
	return "C [" + strings.Join(xs, ";\n   ") + "]"
}
