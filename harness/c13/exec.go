package c13

import (
	"context"
	"fmt"
	"io"
	"os"
	"sort"

	"github.com/codenotary/immudb/embedded/logger"
	"github.com/codenotary/immudb/embedded/sql"
	"github.com/codenotary/immudb/embedded/store"
	"github.com/codenotary/immudb/pkg/api/schema"
	"github.com/codenotary/immudb/pkg/database"
)

// backend: how a session reaches the SQL engine.  engineBackend calls sql.Engine directly;
// dbBackend goes through pkg/database.DB (NewSQLTx / SQLExec / SQLQuery), the layer under both the
// gRPC session transactions (pkg/server/sessions/internal/transactions) and the pgsql wire session.
type backend interface {
	newTx(ctx context.Context, ro bool) (*sql.SQLTx, error)
	exec(ctx context.Context, tx *sql.SQLTx, q string) (*sql.SQLTx, []*sql.SQLTx, error)
	query(ctx context.Context, tx *sql.SQLTx, q string) (sql.RowReader, error)
	close()
}

type engineBackend struct {
	st *store.ImmuStore
	e  *sql.Engine
}

func txOpts(ro bool) *sql.TxOptions {
	opts := sql.DefaultTxOptions().WithExplicitClose(true)
	if ro {
		opts = opts.WithReadOnly(true)
	}
	return opts
}

func (b *engineBackend) newTx(ctx context.Context, ro bool) (*sql.SQLTx, error) {
	return b.e.NewTx(ctx, txOpts(ro))
}
func (b *engineBackend) exec(ctx context.Context, tx *sql.SQLTx, q string) (*sql.SQLTx, []*sql.SQLTx, error) {
	return b.e.Exec(ctx, tx, q, nil)
}
func (b *engineBackend) query(ctx context.Context, tx *sql.SQLTx, q string) (sql.RowReader, error) {
	return b.e.Query(ctx, tx, q, nil)
}
func (b *engineBackend) close() { b.st.Close() }

type dbBackend struct{ db database.DB }

func (b *dbBackend) newTx(ctx context.Context, ro bool) (*sql.SQLTx, error) {
	return b.db.NewSQLTx(ctx, txOpts(ro))
}
func (b *dbBackend) exec(ctx context.Context, tx *sql.SQLTx, q string) (*sql.SQLTx, []*sql.SQLTx, error) {
	return b.db.SQLExec(ctx, tx, &schema.SQLExecRequest{Sql: q})
}
func (b *dbBackend) query(ctx context.Context, tx *sql.SQLTx, q string) (sql.RowReader, error) {
	return b.db.SQLQuery(ctx, tx, &schema.SQLQueryRequest{Sql: q})
}
func (b *dbBackend) close() { b.db.Close() }

// engineRun: one real sql.Engine over one real store, and up to three sessions, each holding at
// most one explicit transaction the way pkg/server/sessions/internal/transactions and the pgsql
// session do (`s.tx, _, err = Exec(ctx, s.tx, stmt)`).
type engineRun struct {
	dir    string
	b      backend
	ctx    context.Context
	tx     [3]*sql.SQLTx
	leaked []*sql.SQLTx
	extra  []string // anomalies outside the observation record (reported as findings)
}

const createTables = "CREATE TABLE ta (id INTEGER, v INTEGER, PRIMARY KEY id);" +
	"CREATE TABLE tb (id INTEGER AUTO_INCREMENT, v INTEGER, PRIMARY KEY id);" +
	"CREATE TABLE tc (id INTEGER, v INTEGER, PRIMARY KEY id);"

// a fresh store and engine in a temp dir
// tempBase: a memory-backed temp directory when the platform has one (a store per program is
// created and removed; on disk this dominates the run time), else the default temp directory
func tempBase() string {
	if fi, err := os.Stat("/dev/shm"); err == nil && fi.IsDir() {
		if d, err := os.MkdirTemp("/dev/shm", "vh-c13-probe-"); err == nil {
			os.RemoveAll(d)
			return "/dev/shm"
		}
	}
	return ""
}

var tmpBase = tempBase()

func newEngineRun(viaDatabase bool) (*engineRun, error) {
	dir, err := os.MkdirTemp(tmpBase, "vh-c13-")
	if err != nil {
		return nil, err
	}
	log := logger.NewSimpleLoggerWithLevel("vh", io.Discard, logger.LogError)
	stOpts := store.DefaultOptions().WithMultiIndexing(true).WithSynced(false).WithLogger(log)
	if viaDatabase {
		db, err := database.NewDB("vhdb", nil, database.DefaultOptions().WithDBRootPath(dir).WithStoreOptions(stOpts), log)
		if err != nil {
			os.RemoveAll(dir)
			return nil, err
		}
		return &engineRun{dir: dir, b: &dbBackend{db}, ctx: context.Background()}, nil
	}
	st, err := store.Open(dir, stOpts)
	if err != nil {
		os.RemoveAll(dir)
		return nil, err
	}
	e, err := sql.NewEngine(st, sql.DefaultOptions().WithPrefix([]byte("sql")))
	if err != nil {
		st.Close()
		os.RemoveAll(dir)
		return nil, err
	}
	return &engineRun{dir: dir, b: &engineBackend{st, e}, ctx: context.Background()}, nil
}

// begin a program: the three (empty) tables are created and the catalog cache is warmed (a
// read-only NewTx populates it), so that every NewTx of the program takes the cached-catalog path
func (er *engineRun) beginProgram() error {
	er.tx = [3]*sql.SQLTx{}
	er.leaked = nil
	er.extra = nil
	if _, _, err := er.b.exec(er.ctx, nil, createTables); err != nil {
		return err
	}
	_, err := er.readDB()
	return err
}

func (er *engineRun) cancelAll() {
	for i := range er.tx {
		if er.tx[i] != nil && !er.tx[i].Closed() {
			er.tx[i].Cancel()
		}
		er.tx[i] = nil
	}
	for _, tx := range er.leaked {
		if !tx.Closed() {
			tx.Cancel()
		}
	}
	er.leaked = nil
}

func (er *engineRun) close() {
	er.cancelAll()
	er.b.close()
	os.RemoveAll(er.dir)
}

func (er *engineRun) query(tx *sql.SQLTx, q string) ([][2]int64, error) {
	r, err := er.b.query(er.ctx, tx, q)
	if err != nil {
		return nil, err
	}
	defer r.Close()
	rows, err := sql.ReadAllRows(er.ctx, r)
	if err != nil {
		return nil, err
	}
	out := make([][2]int64, 0, len(rows))
	for _, row := range rows {
		if len(row.ValuesByPosition) != 2 {
			return nil, fmt.Errorf("unexpected row width %d", len(row.ValuesByPosition))
		}
		a, ok1 := row.ValuesByPosition[0].RawValue().(int64)
		b, ok2 := row.ValuesByPosition[1].RawValue().(int64)
		if !ok1 || !ok2 {
			return nil, fmt.Errorf("unexpected value types in row")
		}
		out = append(out, [2]int64{a, b})
	}
	return out, nil
}

// committed content of the three tables, read in fresh (implicit, read-only) transactions
func (er *engineRun) readDB() ([3][][2]int64, error) {
	var db [3][][2]int64
	for t := 0; t < 3; t++ {
		rows, err := er.query(nil, "SELECT id, v FROM "+tables[t])
		if err != nil {
			return db, err
		}
		db[t] = rows
	}
	return db, nil
}

func (er *engineRun) counters(tx *sql.SQLTx) *Counters {
	c := &Counters{Upd: tx.UpdatedRows()}
	get := func(m map[string]int64, dst *[3]*int64, what string) {
		keys := make([]string, 0, len(m))
		for k := range m {
			keys = append(keys, k)
		}
		sort.Strings(keys)
		for _, k := range keys {
			found := false
			for t := 0; t < 3; t++ {
				if tables[t] == k {
					v := m[k]
					dst[t] = &v
					found = true
				}
			}
			if !found {
				er.extra = append(er.extra, fmt.Sprintf("%s has an entry for unknown table %q", what, k))
			}
		}
	}
	get(tx.LastInsertedPKs(), &c.Last, "LastInsertedPKs")
	get(tx.FirstInsertedPKs(), &c.First, "FirstInsertedPKs")
	return c
}

func (er *engineRun) step(st Step) (Obs, error) {
	s := st.S % 3
	op := st.Op
	old := er.tx[s]
	var o Obs
	o.Rows = [][2]int64{}
	var err error
	switch op.K {
	case KBegin, KBeginRO:
		if old != nil {
			err = fmt.Errorf("harness: session already holds a transaction")
		} else {
			var tx *sql.SQLTx
			tx, err = er.b.newTx(er.ctx, op.K == KBeginRO)
			if err == nil {
				er.tx[s] = tx
			}
		}
	case KSel, KBadQ:
		var rows [][2]int64
		if op.K == KBadQ {
			_, err = er.query(old, op.SQL())
		} else {
			rows, err = er.query(old, op.SQL())
		}
		if err == nil && rows != nil {
			o.Rows = rows
		}
	case KClose:
		if old != nil {
			old.Cancel()
			er.tx[s] = nil
		}
	default:
		ntx, ctxs, xerr := er.b.exec(er.ctx, old, op.SQL())
		err = xerr
		er.tx[s] = ntx
		if len(ctxs) > 1 {
			er.extra = append(er.extra, fmt.Sprintf("%d transactions reported committed by one statement (%s)", len(ctxs), op.SQL()))
		}
		if len(ctxs) >= 1 {
			o.Ctx = er.counters(ctxs[0])
			o.CtxHdr = ctxs[0].TxHeader() != nil
		}
		if ntx != nil && old != nil && ntx != old {
			er.extra = append(er.extra, fmt.Sprintf("Exec returned a different transaction handle (%s)", op.SQL()))
		}
		if old != nil && ntx == nil && !old.Closed() {
			er.leaked = append(er.leaked, old)
		}
	}
	if err != nil {
		o.Err = true
		o.ErrMsg = err.Error()
	}
	o.Open = er.tx[s] != nil
	o.OldClosed = old != nil && old.Closed()
	if er.tx[s] != nil {
		o.Cnt = er.counters(er.tx[s])
	}
	db, derr := er.readDB()
	if derr != nil {
		return o, fmt.Errorf("reading back committed tables: %w", derr)
	}
	o.DB = db
	return o, nil
}

// runProgram executes the program on a fresh store (directly on sql.Engine, or through
// pkg/database.DB) and returns what was observed.
func runProgram(steps []Step, viaDatabase bool) ([]Obs, []string, error) {
	er, err := newEngineRun(viaDatabase)
	if err != nil {
		return nil, nil, err
	}
	defer er.close()
	if err := er.beginProgram(); err != nil {
		return nil, nil, err
	}
	obs := make([]Obs, 0, len(steps))
	for _, st := range steps {
		o, err := er.step(st)
		if err != nil {
			return nil, nil, err
		}
		obs = append(obs, o)
	}
	return obs, er.extra, nil
}
