package c13

import (
	"context"
	"fmt"
	"io"
	"os"
	"sort"

	"github.com/codenotary/immudb/embedded/logger"
	"github.com/codenotary/immudb/embedded/sql"
	"github.com/codenotary/immudb/embedded/store"
)

// engineRun: one real sql.Engine over one real store, and up to three sessions, each holding at
// most one explicit transaction the way pkg/server/sessions/internal/transactions and the pgsql
// session do (`s.tx, _, err = Exec(ctx, s.tx, stmt)`).
type engineRun struct {
	dir    string
	st     *store.ImmuStore
	e      *sql.Engine
	ctx    context.Context
	tx     [3]*sql.SQLTx
	leaked []*sql.SQLTx
	extra  []string // anomalies outside the observation record (reported as findings)
}

func newEngineRun() (*engineRun, error) {
	dir, err := os.MkdirTemp("", "vh-c13-")
	if err != nil {
		return nil, err
	}
	st, err := store.Open(dir, store.DefaultOptions().WithMultiIndexing(true).WithSynced(false).
		WithLogger(logger.NewSimpleLoggerWithLevel("vh", io.Discard, logger.LogError)))
	if err != nil {
		os.RemoveAll(dir)
		return nil, err
	}
	e, err := sql.NewEngine(st, sql.DefaultOptions().WithPrefix([]byte("sql")))
	if err != nil {
		st.Close()
		os.RemoveAll(dir)
		return nil, err
	}
	er := &engineRun{dir: dir, st: st, e: e, ctx: context.Background()}
	_, _, err = e.Exec(er.ctx, nil,
		"CREATE TABLE ta (id INTEGER, v INTEGER, PRIMARY KEY id);"+
			"CREATE TABLE tb (id INTEGER AUTO_INCREMENT, v INTEGER, PRIMARY KEY id);"+
			"CREATE TABLE tc (id INTEGER, v INTEGER, PRIMARY KEY id);", nil)
	if err != nil {
		er.close()
		return nil, err
	}
	// warm the catalog cache (a read-only NewTx populates it), so that every NewTx of the
	// program takes the cached-catalog path
	if _, err := er.readDB(); err != nil {
		er.close()
		return nil, err
	}
	return er, nil
}

func (er *engineRun) close() {
	for i := range er.tx {
		if er.tx[i] != nil && !er.tx[i].Closed() {
			er.tx[i].Cancel()
		}
	}
	for _, tx := range er.leaked {
		if !tx.Closed() {
			tx.Cancel()
		}
	}
	er.st.Close()
	os.RemoveAll(er.dir)
}

func (er *engineRun) query(tx *sql.SQLTx, q string) ([][2]int64, error) {
	r, err := er.e.Query(er.ctx, tx, q, nil)
	if err != nil {
		return nil, err
	}
	defer r.Close()
	rows, err := sql.ReadAllRows(er.ctx, r)
	if err != nil {
		return nil, err
	}
	out := make([][2]int64, 0, len(rows))
	for _, row := range rows {
		if len(row.ValuesByPosition) != 2 {
			return nil, fmt.Errorf("unexpected row width %d", len(row.ValuesByPosition))
		}
		a, ok1 := row.ValuesByPosition[0].RawValue().(int64)
		b, ok2 := row.ValuesByPosition[1].RawValue().(int64)
		if !ok1 || !ok2 {
			return nil, fmt.Errorf("unexpected value types in row")
		}
		out = append(out, [2]int64{a, b})
	}
	return out, nil
}

// committed content of the three tables, read in fresh (implicit, read-only) transactions
func (er *engineRun) readDB() ([3][][2]int64, error) {
	var db [3][][2]int64
	for t := 0; t < 3; t++ {
		rows, err := er.query(nil, "SELECT id, v FROM "+tables[t])
		if err != nil {
			return db, err
		}
		db[t] = rows
	}
	return db, nil
}

func (er *engineRun) counters(tx *sql.SQLTx) *Counters {
	c := &Counters{Upd: tx.UpdatedRows()}
	get := func(m map[string]int64, dst *[3]*int64, what string) {
		keys := make([]string, 0, len(m))
		for k := range m {
			keys = append(keys, k)
		}
		sort.Strings(keys)
		for _, k := range keys {
			found := false
			for t := 0; t < 3; t++ {
				if tables[t] == k {
					v := m[k]
					dst[t] = &v
					found = true
				}
			}
			if !found {
				er.extra = append(er.extra, fmt.Sprintf("%s has an entry for unknown table %q", what, k))
			}
		}
	}
	get(tx.LastInsertedPKs(), &c.Last, "LastInsertedPKs")
	get(tx.FirstInsertedPKs(), &c.First, "FirstInsertedPKs")
	return c
}

func (er *engineRun) step(st Step) (Obs, error) {
	s := st.S % 3
	op := st.Op
	old := er.tx[s]
	var o Obs
	o.Rows = [][2]int64{}
	var err error
	switch op.K {
	case KBegin, KBeginRO:
		if old != nil {
			err = fmt.Errorf("harness: session already holds a transaction")
		} else {
			opts := sql.DefaultTxOptions().WithExplicitClose(true)
			if op.K == KBeginRO {
				opts = opts.WithReadOnly(true)
			}
			var tx *sql.SQLTx
			tx, err = er.e.NewTx(er.ctx, opts)
			if err == nil {
				er.tx[s] = tx
			}
		}
	case KSel, KBadQ:
		var rows [][2]int64
		if op.K == KBadQ {
			_, err = er.query(old, op.SQL())
		} else {
			rows, err = er.query(old, op.SQL())
		}
		if err == nil && rows != nil {
			o.Rows = rows
		}
	case KClose:
		if old != nil {
			old.Cancel()
			er.tx[s] = nil
		}
	default:
		ntx, ctxs, xerr := er.e.Exec(er.ctx, old, op.SQL(), nil)
		err = xerr
		er.tx[s] = ntx
		if len(ctxs) > 1 {
			er.extra = append(er.extra, fmt.Sprintf("%d transactions reported committed by one statement (%s)", len(ctxs), op.SQL()))
		}
		if len(ctxs) >= 1 {
			o.Ctx = er.counters(ctxs[0])
			o.CtxHdr = ctxs[0].TxHeader() != nil
		}
		if ntx != nil && old != nil && ntx != old {
			er.extra = append(er.extra, fmt.Sprintf("Exec returned a different transaction handle (%s)", op.SQL()))
		}
		if old != nil && ntx == nil && !old.Closed() {
			er.leaked = append(er.leaked, old)
		}
	}
	if err != nil {
		o.Err = true
		o.ErrMsg = err.Error()
	}
	o.Open = er.tx[s] != nil
	o.OldClosed = old != nil && old.Closed()
	if er.tx[s] != nil {
		o.Cnt = er.counters(er.tx[s])
	}
	db, derr := er.readDB()
	if derr != nil {
		return o, fmt.Errorf("reading back committed tables: %w", derr)
	}
	o.DB = db
	return o, nil
}

// runProgram executes the program on a fresh engine and returns what was observed.
func runProgram(steps []Step) ([]Obs, []string, error) {
	er, err := newEngineRun()
	if err != nil {
		return nil, nil, err
	}
	defer er.close()
	obs := make([]Obs, 0, len(steps))
	for _, st := range steps {
		o, err := er.step(st)
		if err != nil {
			return nil, nil, err
		}
		obs = append(obs, o)
	}
	return obs, er.extra, nil
}
