package c13

// DDL stream of the C13 check: interleaved programs of 2..3 sessions that change the CATALOG
// (CREATE/DROP/RENAME TABLE, ADD/DROP/RENAME COLUMN, CREATE/DROP INDEX, DROP CONSTRAINT) inside
// multi-statement transactions and as autocommit statements, with cold and warm engine catalog
// cache, ending in COMMIT, ROLLBACK, a failed statement, a rejected COMMIT or a closed session.
// These programs are NOT evaluated by the Coq model (fixed schema); they are checked directly by
// the harness-side oracle below:
//
//   - a transaction sees the catalog committed when it began plus its own successful DDL;
//   - a fresh transaction sees exactly the catalog and rows of the transactions that committed
//     (tables, columns, indexes exist; the CHECK constraint is enforced), nothing of a transaction
//     that rolled back, failed, was rejected at COMMIT or whose session was closed;
//   - serial replay: the successful statements of a committing transaction with a non-empty
//     write-set must be applicable, in order, to the state committed so far (commit order is a
//     serial order) -- two conflicting catalog rewrites never both commit;
//   - a statement that succeeded must have been applicable to the catalog its transaction sees.
//
// Statement verdicts themselves (whether the engine accepts e.g. DROP COLUMN of an indexed column)
// are taken from the engine.  Probes never use read-only transactions (those populate the engine's
// catalog cache): a probe is an explicit read-write transaction that is cancelled; the cache is
// warmed only by explicit `warm` events (an autocommit read-only query) of the program.

import (
	"errors"
	"fmt"
	"math/rand"
	"sort"
	"strings"
	"sync/atomic"

	"github.com/codenotary/immudb/embedded/sql"
)

const (
	DBegin     = "begin"
	DBeginRO   = "beginro"
	DCommit    = "commit"
	DRollback  = "rollback"
	DClose     = "close"
	DCreate    = "create"
	DDrop      = "drop"
	DRenameT   = "renamet"
	DAddCol    = "addcol"
	DDropCol   = "dropcol"
	DRenameCol = "renamecol"
	DMkIndex   = "mkindex"
	DDropIndex = "dropindex"
	DDropCk    = "dropck"
	DInsert    = "insert"
	DBad       = "bad"
	DWarm      = "warm"
	DProbe     = "probe"
)

type DEv struct {
	S    int      `json:"s"`
	K    string   `json:"k"`
	T    string   `json:"t,omitempty"`
	N    string   `json:"n,omitempty"` // new name
	C    string   `json:"c,omitempty"`
	Cols []string `json:"cols,omitempty"`
	Ck   bool     `json:"ck,omitempty"`
	ID   int64    `json:"id,omitempty"`
}

var dTables = []string{"t1", "t2", "t3"}
var dCols = []string{"a", "b", "c"}

func (e DEv) SQL() string {
	switch e.K {
	case DCreate:
		parts := []string{"id INTEGER"}
		for _, c := range e.Cols {
			parts = append(parts, c+" INTEGER")
		}
		if e.Ck {
			parts = append(parts, "CONSTRAINT ck CHECK (id < 1000)")
		}
		parts = append(parts, "PRIMARY KEY id")
		return fmt.Sprintf("CREATE TABLE %s (%s)", e.T, strings.Join(parts, ", "))
	case DDrop:
		return "DROP TABLE " + e.T
	case DRenameT:
		return fmt.Sprintf("ALTER TABLE %s RENAME TO %s", e.T, e.N)
	case DAddCol:
		return fmt.Sprintf("ALTER TABLE %s ADD COLUMN %s INTEGER", e.T, e.C)
	case DDropCol:
		return fmt.Sprintf("ALTER TABLE %s DROP COLUMN %s", e.T, e.C)
	case DRenameCol:
		return fmt.Sprintf("ALTER TABLE %s RENAME COLUMN %s TO %s", e.T, e.C, e.N)
	case DMkIndex:
		return fmt.Sprintf("CREATE INDEX ON %s(%s)", e.T, e.C)
	case DDropIndex:
		return fmt.Sprintf("DROP INDEX ON %s(%s)", e.T, e.C)
	case DDropCk:
		return fmt.Sprintf("ALTER TABLE %s DROP CONSTRAINT ck", e.T)
	case DInsert:
		return fmt.Sprintf("INSERT INTO %s(id) VALUES (%d)", e.T, e.ID)
	case DBad:
		return "INSERT INTO nosuch(id) VALUES (1)"
	case DCommit:
		return "COMMIT"
	case DRollback:
		return "ROLLBACK"
	case DWarm:
		return "SELECT id FROM " + e.T
	}
	return ""
}

func (e DEv) String() string {
	switch e.K {
	case DBegin:
		return "NewTx"
	case DBeginRO:
		return "NewTx(ReadOnly)"
	case DClose:
		return "close-session"
	case DProbe:
		return "(probe)"
	case DWarm:
		return "autocommit read-only query: " + e.SQL()
	}
	return e.SQL()
}

func dProgString(evs []DEv) string {
	var b strings.Builder
	for i, e := range evs {
		if e.K == DProbe {
			continue
		}
		if i > 0 {
			b.WriteString("; ")
		}
		fmt.Fprintf(&b, "s%d: %s", e.S, e.String())
	}
	return b.String()
}

// ---- oracle state ----
type dTable struct {
	uid  int             // identity of the table across renames
	cols map[string]bool // besides id
	idx  map[string]bool
	ck   bool
	rows map[int64]bool
}

func (t *dTable) clone() *dTable {
	n := &dTable{uid: t.uid, cols: map[string]bool{}, idx: map[string]bool{}, ck: t.ck, rows: map[int64]bool{}}
	for k := range t.cols {
		n.cols[k] = true
	}
	for k := range t.idx {
		n.idx[k] = true
	}
	for k := range t.rows {
		n.rows[k] = true
	}
	return n
}

type dCat map[string]*dTable

func (c dCat) clone() dCat {
	n := dCat{}
	for k, t := range c {
		n[k] = t.clone()
	}
	return n
}

func isCatalogStmt(k string) bool {
	switch k {
	case DCreate, DDrop, DRenameT, DAddCol, DDropCol, DRenameCol, DMkIndex, DDropIndex, DDropCk:
		return true
	}
	return false
}

// applicable: the structural precondition of a statement (what any serial execution needs)
func applicable(c dCat, e DEv) bool {
	t := c[e.T]
	switch e.K {
	case DCreate:
		return t == nil
	case DDrop:
		return t != nil
	case DRenameT:
		return t != nil && c[e.N] == nil
	case DAddCol:
		return t != nil && !t.cols[e.C]
	case DDropCol:
		return t != nil && t.cols[e.C]
	case DRenameCol:
		return t != nil && t.cols[e.C] && !t.cols[e.N]
	case DMkIndex:
		return t != nil && t.cols[e.C] && !t.idx[e.C]
	case DDropIndex:
		return t != nil && t.idx[e.C]
	case DDropCk:
		return t != nil && t.ck
	case DInsert:
		return t != nil && !t.rows[e.ID]
	}
	return true
}

var uidSeq int64

func (c dCat) hasUID(uid int) bool {
	for _, t := range c {
		if t.uid == uid {
			return true
		}
	}
	return false
}

func applyEv(c dCat, e DEv) {
	t := c[e.T]
	switch e.K {
	case DCreate:
		nt := &dTable{uid: int(atomic.AddInt64(&uidSeq, 1)), cols: map[string]bool{}, idx: map[string]bool{}, ck: e.Ck, rows: map[int64]bool{}}
		for _, col := range e.Cols {
			nt.cols[col] = true
		}
		c[e.T] = nt
	case DDrop:
		delete(c, e.T)
	case DRenameT:
		c[e.N] = t
		delete(c, e.T)
	case DAddCol:
		t.cols[e.C] = true
	case DDropCol:
		delete(t.cols, e.C)
		delete(t.idx, e.C)
	case DRenameCol:
		delete(t.cols, e.C)
		t.cols[e.N] = true
		if t.idx[e.C] {
			delete(t.idx, e.C)
			t.idx[e.N] = true
		}
	case DMkIndex:
		t.idx[e.C] = true
	case DDropIndex:
		delete(t.idx, e.C)
	case DDropCk:
		t.ck = false
	case DInsert:
		t.rows[e.ID] = true
	}
}

type dTx struct {
	ro    bool
	view  dCat  // catalog (and own rows) as this transaction must see it
	stmts []DEv // successful statements, in order
	// tables created / indexes created by this very transaction (by current name)
	ownTables map[string]bool
	ownIdx    map[string]bool
	// tables renamed by this very transaction (by new name): USE INDEX cannot find their indexes
	// by name until the transaction is over
	ownRenamed map[string]bool
}

const (
	causeOwnDDL  = "cause=own-ddl-object-not-queryable-in-same-tx"
	causeDropped = "cause=committed-drop-table-breaks-reads-of-older-open-tx"
)

// ---- what a probe observes for one table name ----
type tview struct {
	exists bool
	cols   []string // sorted, besides id
	idx    []string // sorted
	ck     bool     // only meaningful for a fresh viewer
	rows   []int64  // only meaningful for a fresh viewer
}

func expectView(t *dTable) tview {
	if t == nil {
		return tview{}
	}
	v := tview{exists: true, ck: t.ck}
	for c := range t.cols {
		v.cols = append(v.cols, c)
	}
	for c := range t.idx {
		v.idx = append(v.idx, c)
	}
	for r := range t.rows {
		v.rows = append(v.rows, r)
	}
	sort.Strings(v.cols)
	sort.Strings(v.idx)
	sort.Slice(v.rows, func(i, j int) bool { return v.rows[i] < v.rows[j] })
	return v
}

func (v tview) str(fresh bool) string {
	if !v.exists {
		return "absent"
	}
	s := fmt.Sprintf("columns=%v indexes=%v", v.cols, v.idx)
	if fresh {
		s += fmt.Sprintf(" check-enforced=%v rows=%v", v.ck, v.rows)
	}
	return s
}

func sameView(a, b tview, fresh bool) bool {
	return a.str(fresh) == b.str(fresh)
}

var probeSeq int64 = 5000

// observe table `name` through transaction tx (Query only; with violate also the CHECK, which
// may cancel tx).  anomaly: an error that is none of the expected classes.
func (er *engineRun) observe(tx *sql.SQLTx, name string, violate bool, probeID int64) (tview, string) {
	var v tview
	r, err := er.b.query(er.ctx, tx, "SELECT * FROM "+name)
	if err != nil {
		if errors.Is(err, sql.ErrTableDoesNotExist) {
			return v, ""
		}
		return v, "SELECT * FROM " + name + ": " + err.Error()
	}
	cols, err := r.Columns(er.ctx)
	if err != nil {
		r.Close()
		return v, "columns of " + name + ": " + err.Error()
	}
	idPos := -1
	for i, c := range cols {
		if c.Column == "id" {
			idPos = i
		} else {
			v.cols = append(v.cols, c.Column)
		}
	}
	rows, err := sql.ReadAllRows(er.ctx, r)
	r.Close()
	if err != nil {
		return v, "rows of " + name + ": " + err.Error()
	}
	v.exists = true
	for _, row := range rows {
		if idPos >= 0 {
			if id, ok := row.ValuesByPosition[idPos].RawValue().(int64); ok {
				v.rows = append(v.rows, id)
			}
		}
	}
	sort.Strings(v.cols)
	sort.Slice(v.rows, func(i, j int) bool { return v.rows[i] < v.rows[j] })
	for _, c := range dCols {
		r, err := er.b.query(er.ctx, tx, fmt.Sprintf("SELECT id FROM %s USE INDEX ON (%s)", name, c))
		if err == nil {
			_, err = sql.ReadAllRows(er.ctx, r)
			r.Close()
			if err == nil {
				v.idx = append(v.idx, c)
			}
		}
	}
	if violate {
		_, _, err := er.b.exec(er.ctx, tx, fmt.Sprintf("INSERT INTO %s(id) VALUES (%d)", name, probeID))
		switch {
		case err == nil:
			v.ck = false
		case errors.Is(err, sql.ErrCheckConstraintViolation):
			v.ck = true
		default:
			return v, "probe INSERT into " + name + ": " + err.Error()
		}
	}
	return v, ""
}

// fresh viewer: an explicit read-write transaction per table, always cancelled
func (er *engineRun) observeFresh(name string, probeID int64) (tview, string) {
	tx, err := er.b.newTx(er.ctx, false)
	if err != nil {
		return tview{}, "NewTx for probe: " + err.Error()
	}
	v, anomaly := er.observe(tx, name, true, probeID)
	if !tx.Closed() {
		tx.Cancel()
	}
	return v, anomaly
}

// ---- generation (offline: names are drawn from a 3x3 universe, validity by chance and bias) ----
func genDDLProgram(rng *rand.Rand) []DEv {
	nsess := 2 + rng.Intn(2)
	var evs []DEv
	tn := func() string { return dTables[rng.Intn(len(dTables))] }
	cn := func() string { return dCols[rng.Intn(len(dCols))] }
	var nextID int64 = 1
	inTx := make([]bool, nsess)
	// a guess of which tables exist, only to bias the choice of names
	exists := map[string]bool{}
	create := func(s int, t string) DEv {
		var cols []string
		for _, c := range dCols {
			if rng.Intn(2) == 0 {
				cols = append(cols, c)
			}
		}
		return DEv{S: s, K: DCreate, T: t, Cols: cols, Ck: rng.Intn(4) != 0}
	}
	// setup: one or two tables created by autocommit statements (the cache stays cold)
	for i := 0; i < 1+rng.Intn(2); i++ {
		evs = append(evs, create(0, dTables[i]))
		exists[dTables[i]] = true
	}
	if rng.Intn(2) == 0 {
		evs = append(evs, DEv{S: rng.Intn(nsess), K: DInsert, T: "t1", ID: nextID})
		nextID++
	}
	warmProgram := rng.Intn(2) == 0 // warm-cache flavour: warm early and now and then
	if warmProgram {
		evs = append(evs, DEv{S: rng.Intn(nsess), K: DWarm, T: "t1"})
	}
	existing := func() string {
		var l []string
		for _, t := range dTables {
			if exists[t] {
				l = append(l, t)
			}
		}
		if len(l) == 0 || rng.Intn(6) == 0 {
			return tn()
		}
		return l[rng.Intn(len(l))]
	}
	n := 10 + rng.Intn(18)
	for len(evs) < n {
		s := rng.Intn(nsess)
		x := rng.Intn(100)
		switch {
		case !inTx[s] && x < 40:
			k := DBegin
			if rng.Intn(10) == 0 {
				k = DBeginRO
			}
			evs = append(evs, DEv{S: s, K: k})
			inTx[s] = true
		case inTx[s] && x < 16:
			evs = append(evs, DEv{S: s, K: DCommit})
			inTx[s] = false
		case inTx[s] && x < 22:
			evs = append(evs, DEv{S: s, K: DRollback})
			inTx[s] = false
		case inTx[s] && x < 25:
			evs = append(evs, DEv{S: s, K: DClose})
			inTx[s] = false
		case inTx[s] && x < 28:
			evs = append(evs, DEv{S: s, K: DBad})
			inTx[s] = false
		case x < 48:
			evs = append(evs, DEv{S: s, K: DInsert, T: existing(), ID: nextID})
			nextID++
		case x < 53:
			if warmProgram || rng.Intn(4) == 0 {
				evs = append(evs, DEv{S: s, K: DWarm, T: existing()})
			}
		case x < 60:
			evs = append(evs, DEv{S: s, K: DProbe})
		default:
			t := existing()
			switch y := rng.Intn(20); {
			case y < 3:
				t = tn()
				evs = append(evs, create(s, t))
				exists[t] = true
			case y < 5:
				evs = append(evs, DEv{S: s, K: DDrop, T: t})
			case y < 9:
				evs = append(evs, DEv{S: s, K: DRenameT, T: t, N: tn()})
			case y < 11:
				evs = append(evs, DEv{S: s, K: DAddCol, T: t, C: cn()})
			case y < 13:
				evs = append(evs, DEv{S: s, K: DDropCol, T: t, C: cn()})
			case y < 15:
				evs = append(evs, DEv{S: s, K: DRenameCol, T: t, C: cn(), N: cn()})
			case y < 16:
				evs = append(evs, DEv{S: s, K: DMkIndex, T: t, C: cn()})
			case y < 17:
				evs = append(evs, DEv{S: s, K: DDropIndex, T: t, C: cn()})
			default:
				evs = append(evs, DEv{S: s, K: DDropCk, T: t})
			}
		}
	}
	for s := 0; s < nsess; s++ {
		if inTx[s] {
			k := []string{DCommit, DCommit, DRollback, DClose}[rng.Intn(4)]
			evs = append(evs, DEv{S: s, K: k})
		}
	}
	evs = append(evs, DEv{S: 0, K: DProbe})
	if rng.Intn(2) == 0 {
		evs = append(evs, DEv{S: 0, K: DWarm, T: "t1"}, DEv{S: 0, K: DProbe})
	}
	return evs
}

// hand-written DDL histories (the three seeded changes of the second round, and relatives)
func seedDDLPrograms() [][]DEv {
	cr := func(s int, t string, ck bool) DEv { return DEv{S: s, K: DCreate, T: t, Cols: []string{"a"}, Ck: ck} }
	k := func(s int, kind string) DEv { return DEv{S: s, K: kind} }
	return [][]DEv{
		// cold cache: A open, B commits DDL, A commits an empty write-set; the new table must stay visible
		{cr(0, "t1", true), k(0, DBegin), cr(1, "t2", true), k(0, DCommit), k(0, DProbe), {S: 1, K: DInsert, T: "t2", ID: 1}, k(0, DProbe)},
		{cr(0, "t1", true), k(0, DBegin), {S: 0, K: DWarm, T: "t1"}, cr(1, "t2", true), {S: 0, K: DInsert, T: "t1", ID: 1}, k(0, DCommit), k(0, DProbe)},
		// warm cache: two sessions rename different tables to the same name
		{cr(0, "t1", true), cr(0, "t2", true), {S: 0, K: DWarm, T: "t1"}, k(0, DBegin), k(1, DBegin),
			{S: 0, K: DRenameT, T: "t1", N: "t3"}, {S: 1, K: DRenameT, T: "t2", N: "t3"}, k(0, DCommit), k(1, DCommit), k(0, DProbe)},
		// the same with a cold cache
		{cr(0, "t1", true), cr(0, "t2", true), k(0, DBegin), k(1, DBegin),
			{S: 0, K: DRenameT, T: "t1", N: "t3"}, {S: 1, K: DRenameT, T: "t2", N: "t3"}, k(0, DCommit), k(1, DCommit), k(0, DProbe)},
		// warm cache: insert into a table another session renames meanwhile
		{cr(0, "t1", true), {S: 0, K: DWarm, T: "t1"}, k(0, DBegin), {S: 0, K: DInsert, T: "t1", ID: 1},
			{S: 1, K: DRenameT, T: "t1", N: "t2"}, k(0, DCommit), k(0, DProbe)},
		// warm cache: DROP CONSTRAINT rolled back / failed / closed: the CHECK must still be enforced
		{cr(0, "t1", true), {S: 0, K: DWarm, T: "t1"}, k(0, DBegin), {S: 0, K: DDropCk, T: "t1"}, k(0, DRollback), k(0, DProbe)},
		{cr(0, "t1", true), {S: 0, K: DWarm, T: "t1"}, k(0, DBegin), {S: 0, K: DDropCk, T: "t1"}, k(1, DProbe), k(0, DBad), k(0, DProbe)},
		{cr(0, "t1", true), {S: 0, K: DWarm, T: "t1"}, k(0, DBegin), {S: 0, K: DDropCk, T: "t1"}, k(0, DClose), k(0, DProbe)},
		// warm cache: rolled-back rename / add column / drop table
		{cr(0, "t1", true), {S: 0, K: DInsert, T: "t1", ID: 1}, {S: 0, K: DWarm, T: "t1"}, k(0, DBegin), {S: 0, K: DRenameT, T: "t1", N: "t2"},
			{S: 0, K: DAddCol, T: "t2", C: "b"}, k(1, DProbe), k(0, DRollback), k(0, DProbe), k(1, DBegin), {S: 1, K: DDrop, T: "t1"}, k(1, DRollback), k(0, DProbe)},
		// DDL attempted in a read-only transaction, which shares the cached catalog (fixed by 82bd2bd:
		// refused before the catalog is touched; a recurrence is a violation)
		{cr(0, "t1", true), {S: 0, K: DWarm, T: "t1"}, k(0, DBeginRO), {S: 0, K: DRenameT, T: "t1", N: "t2"}, k(0, DProbe)},
		{cr(0, "t1", true), {S: 0, K: DWarm, T: "t1"}, k(0, DBeginRO), {S: 0, K: DDropCk, T: "t1"}, k(0, DProbe)},
		// DROP TABLE committed while an older transaction that still has the table is open
		{cr(0, "t1", false), {S: 0, K: DInsert, T: "t1", ID: 1}, k(0, DBegin), {S: 1, K: DDrop, T: "t1"}, k(0, DProbe), k(0, DRollback), k(0, DProbe)},
		// committed DDL + DML in one transaction, seen by an older open transaction only after it ends
		{cr(0, "t1", true), k(1, DBegin), k(0, DBegin), cr(0, "t2", false), {S: 0, K: DInsert, T: "t2", ID: 1}, {S: 0, K: DMkIndex, T: "t1", C: "a"},
			k(0, DProbe), k(0, DCommit), k(0, DProbe), k(1, DRollback), k(0, DProbe)},
	}
}

type ddlResult struct {
	evs      []DEv
	log      []string // per event: what the engine answered
	findings []string
	features map[string]bool
	err      error
}

// runDDLProgram executes the events on a fresh engine (cold catalog cache) under the oracle.
func runDDLProgram(evs []DEv) ddlResult {
	res := ddlResult{evs: evs, features: map[string]bool{}}
	er, err := newEngineRun(false)
	if err != nil {
		res.err = err
		return res
	}
	defer er.close()
	committed := dCat{}
	var otx [3]*dTx
	probeID := int64(5000)
	cause := "cause=unknown"
	report := func(i int, msg string) {
		res.findings = append(res.findings, fmt.Sprintf("%s ddl: %s (event %d); history: %s", cause, msg, i, dProgString(evs[:i+1])))
	}
	probe := func(i int) {
		// fresh viewer
		for _, name := range dTables {
			probeID++
			got, anomaly := er.observeFresh(name, probeID)
			if anomaly != "" {
				report(i, "fresh transaction: unexpected error: "+anomaly)
				continue
			}
			if want := expectView(committed[name]); !sameView(got, want, true) {
				report(i, fmt.Sprintf("a fresh transaction sees table %s as {%s}, the committed transactions make it {%s}", name, got.str(true), want.str(true)))
			}
		}
		// the transactions still open
		for s := 0; s < 3; s++ {
			if otx[s] == nil || er.tx[s] == nil {
				continue
			}
			for _, name := range dTables {
				got, anomaly := er.observe(er.tx[s], name, false, 0)
				want := expectView(otx[s].view[name])
				// known deviation: a table / an index created by the transaction itself cannot be
				// read in that transaction (its store index is initialised by the next NewTx)
				if otx[s].ownTables[name] && strings.HasSuffix(anomaly, "index not found") {
					if !res.features["own-ddl-reported"] {
						res.features["own-ddl-reported"] = true
						saved := cause
						cause = causeOwnDDL
						report(i, fmt.Sprintf("the open transaction of s%d created table %s itself and cannot read it: %s", s, name, anomaly))
						cause = saved
					}
					continue
				}
				// known deviation: DROP TABLE committed by another session removes the table's store
				// index; an older open transaction that still has the table can no longer read it
				if vt := otx[s].view[name]; vt != nil && !committed.hasUID(vt.uid) && !otx[s].ownTables[name] &&
					strings.HasSuffix(anomaly, "index not found") {
					if !res.features["dropped-reported"] {
						res.features["dropped-reported"] = true
						saved := cause
						cause = causeDropped
						report(i, fmt.Sprintf("the open transaction of s%d began before another session committed DROP TABLE of %s and can no longer read the table: %s", s, name, anomaly))
						cause = saved
					}
					continue
				}
				if anomaly != "" {
					report(i, fmt.Sprintf("open transaction of s%d: unexpected error: %s", s, anomaly))
					continue
				}
				if !sameView(got, want, false) {
					// the same for an index the transaction created itself
					w2 := want
					w2.idx = nil
					for _, c := range want.idx {
						if !otx[s].ownIdx[name+"."+c] && !otx[s].ownRenamed[name] {
							w2.idx = append(w2.idx, c)
						}
					}
					g2 := got
					g2.idx = nil
					for _, c := range got.idx {
						if !otx[s].ownIdx[name+"."+c] && !otx[s].ownRenamed[name] {
							g2.idx = append(g2.idx, c)
						}
					}
					saved := cause
					if sameView(g2, w2, false) {
						if res.features["own-ddl-reported"] {
							continue
						}
						res.features["own-ddl-reported"] = true
						cause = causeOwnDDL
					}
					report(i, fmt.Sprintf("the open transaction of s%d sees table %s as {%s}; the catalog at its BEGIN plus its own DDL is {%s}", s, name, got.str(false), want.str(false)))
					cause = saved
				}
			}
		}
	}
	endTx := func(s int) {
		otx[s] = nil
	}
	// commit of transaction t succeeded: serial replay on the committed state
	install := func(i int, t *dTx) {
		if len(t.stmts) == 0 {
			return
		}
		for _, e := range t.stmts {
			if !applicable(committed, e) {
				report(i, fmt.Sprintf("no serial order explains this COMMIT: `%s` of the committing transaction is not applicable to the state committed before it (a concurrent transaction committed a conflicting change and both were accepted)", e.SQL()))
				res.features["stop"] = true
				return
			}
			applyEv(committed, e)
		}
	}
	for i, e := range evs {
		if len(res.findings) >= 3 || res.features["stop"] {
			break
		}
		s := e.S % 3
		switch e.K {
		case DProbe:
			probe(i)
			res.log = append(res.log, "probe")
			continue
		case DWarm:
			_, err := er.query(nil, e.SQL())
			res.log = append(res.log, fmt.Sprintf("warm err=%v", err))
			res.features["warm"] = true
			continue
		case DBegin, DBeginRO:
			if er.tx[s] != nil {
				res.log = append(res.log, "skipped")
				continue
			}
			tx, err := er.b.newTx(er.ctx, e.K == DBeginRO)
			if err != nil {
				res.err = fmt.Errorf("NewTx: %w", err)
				return res
			}
			er.tx[s] = tx
			otx[s] = &dTx{ro: e.K == DBeginRO, view: committed.clone(), ownTables: map[string]bool{}, ownIdx: map[string]bool{}, ownRenamed: map[string]bool{}}
			res.log = append(res.log, "ok")
			continue
		case DClose:
			if er.tx[s] != nil {
				er.tx[s].Cancel()
				er.tx[s] = nil
				res.features["closed"] = true
			}
			endTx(s)
			res.log = append(res.log, "ok")
			continue
		}
		old := er.tx[s]
		ntx, ctxs, xerr := er.b.exec(er.ctx, old, e.SQL())
		er.tx[s] = ntx
		if old != nil && ntx == nil && !old.Closed() {
			er.leaked = append(er.leaked, old)
		}
		res.log = append(res.log, fmt.Sprintf("err=%v", xerr))
		switch {
		case old == nil: // autocommit statement
			if e.K == DCommit || e.K == DRollback || e.K == DBad {
				continue
			}
			if xerr != nil {
				continue
			}
			if !applicable(committed, e) {
				report(i, fmt.Sprintf("autocommit `%s` succeeded although it is not applicable to the committed catalog", e.SQL()))
				res.features["stop"] = true
				continue
			}
			applyEv(committed, e)
			if isCatalogStmt(e.K) {
				res.features["ddl-autocommit"] = true
			}
			_ = ctxs
		case e.K == DCommit:
			t := otx[s]
			endTx(s)
			if xerr != nil {
				res.features["commit-rejected"] = true
				continue
			}
			if t != nil {
				for _, st := range t.stmts {
					if isCatalogStmt(st.K) {
						res.features["ddl-committed"] = true
					}
				}
				install(i, t)
			}
		case e.K == DRollback:
			if otx[s] != nil {
				for _, st := range otx[s].stmts {
					if isCatalogStmt(st.K) {
						res.features["ddl-rolled-back"] = true
					}
				}
			}
			endTx(s)
		default: // a statement inside the transaction
			t := otx[s]
			if xerr != nil {
				// a failed statement cancels the transaction (Exec returns no handle)
				if ntx == nil {
					if t != nil && len(t.stmts) > 0 {
						res.features["stmt-failed-after-ddl"] = true
					}
					endTx(s)
				}
				continue
			}
			if t == nil {
				continue
			}
			if !applicable(t.view, e) {
				report(i, fmt.Sprintf("`%s` succeeded inside the transaction of s%d although it is not applicable to the catalog that transaction sees", e.SQL(), s))
				res.features["stop"] = true
				continue
			}
			applyEv(t.view, e)
			t.stmts = append(t.stmts, e)
			switch e.K {
			case DCreate:
				t.ownTables[e.T] = true
			case DRenameT:
				delete(t.ownRenamed, e.T)
				t.ownRenamed[e.N] = true
				if t.ownTables[e.T] {
					delete(t.ownTables, e.T)
					t.ownTables[e.N] = true
				}
				for _, c := range dCols {
					if t.ownIdx[e.T+"."+c] {
						delete(t.ownIdx, e.T+"."+c)
						t.ownIdx[e.N+"."+c] = true
					}
				}
			case DDrop:
				delete(t.ownTables, e.T)
				delete(t.ownRenamed, e.T)
			case DMkIndex:
				t.ownIdx[e.T+"."+e.C] = true
			case DRenameCol:
				if t.ownIdx[e.T+"."+e.C] {
					delete(t.ownIdx, e.T+"."+e.C)
					t.ownIdx[e.T+"."+e.N] = true
				}
			}
			if isCatalogStmt(e.K) {
				res.features["ddl-in-tx"] = true
			}
		}
	}
	return res
}

func (r ddlResult) bucket() string {
	var fs []string
	for _, f := range []string{"warm", "ddl-in-tx", "ddl-committed", "ddl-rolled-back", "stmt-failed-after-ddl", "commit-rejected", "closed", "ddl-autocommit"} {
		if r.features[f] {
			fs = append(fs, f)
		}
	}
	if !r.features["warm"] {
		fs = append([]string{"cold"}, fs...)
	}
	return strings.Join(fs, "+")
}
