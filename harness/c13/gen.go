package c13

import (
	"encoding/json"
	"fmt"
	"math/rand"
	"runtime"
	"strings"
	"sync"

	"verif/harness/vk"
)

func ip(v int64) *int64 { return &v }

// ---- hand-written programs: witnesses of the known deviations, conflict shapes, API corner cases ----
func seedPrograms() [][]Step {
	b := func(s int) Step { return Step{s, Op{K: KBegin}} }
	ins := func(s, t int, pk, v int64) Step { return Step{s, Op{K: KIns, T: t, Pk: pk, V: v}} }
	auto := func(s int, v int64) Step { return Step{s, Op{K: KInsAuto, T: 1, V: v}} }
	sel := func(s, t int) Step { return Step{s, Op{K: KSel, T: t}} }
	k := func(s int, kind string) Step { return Step{s, Op{K: kind}} }
	sp := func(s int, kind string, n uint64) Step { return Step{s, Op{K: kind, N: n}} }
	del := func(s, t int, pk int64) Step { return Step{s, Op{K: KDel, T: t, Lo: ip(pk), Hi: ip(pk)}} }
	upd := func(s, t int, lo, hi *int64, d int64) Step { return Step{s, Op{K: KUpd, T: t, Lo: lo, Hi: hi, D: d}} }
	return [][]Step{
		// the savepoint witness of the refuted theorem
		{b(0), ins(0, 0, 1, 10), sp(0, KSp, 1), ins(0, 0, 2, 20), sp(0, KRbTo, 1), k(0, KCommit), sel(1, 0)},
		// nested savepoints: later savepoint survives ROLLBACK TO, the named one does not
		{b(0), ins(0, 0, 1, 10), sp(0, KSp, 1), ins(0, 0, 2, 20), sp(0, KSp, 2), auto(0, 5), sp(0, KRbTo, 1), sp(0, KRel, 2), sp(0, KRbTo, 1), sel(1, 0)},
		// read skew through per-table lazy snapshots (read-only transaction)
		{ins(1, 0, 1, 10), Step{0, Op{K: KBeginRO}}, sel(0, 0), b(1), ins(1, 0, 2, 20), ins(1, 2, 2, 20), k(1, KCommit), sel(0, 0), sel(0, 2), k(0, KRollback)},
		// the same in a read-write transaction (tb is snapshotted at BEGIN, ta lazily)
		{b(0), ins(1, 0, 1, 10), auto(1, 7), sel(0, 0), sel(0, 1), k(0, KCommit)},
		// INSERT after own DELETE of the same key (fixed by 62a15b5: must succeed)
		{ins(0, 0, 1, 10), b(0), del(0, 0, 1), sel(0, 0), ins(0, 0, 1, 11), sel(0, 0), k(0, KCommit)},
		// DELETE then UPSERT then INSERT elsewhere, concurrent unrelated commit
		{ins(0, 0, 1, 10), b(0), del(0, 0, 1), Step{0, Op{K: KUps, T: 0, Pk: 1, V: 12}}, ins(1, 0, 9, 90), k(0, KCommit), sel(1, 0)},
		// write-write conflict on the same key; blind inserts of different keys
		{b(0), b(1), ins(0, 0, 7, 70), ins(1, 0, 7, 71), k(1, KCommit), k(0, KCommit), sel(2, 0)},
		{b(0), b(1), ins(0, 0, 5, 50), ins(1, 0, 6, 60), k(1, KCommit), k(0, KCommit), sel(2, 0)},
		// both generate the same key
		{b(0), b(1), auto(0, 1), auto(1, 2), k(0, KCommit), k(1, KCommit), sel(2, 1)},
		// a tx that never touched tb conflicts with a committed insert into tb (maxPK reader)
		{b(0), ins(0, 0, 1, 1), auto(1, 2), k(0, KCommit), sel(2, 0)},
		// scan conflict: range read then concurrent insert inside / outside the range
		{ins(2, 0, 1, 1), b(0), upd(0, 0, ip(0), ip(3), 5), ins(1, 0, 2, 2), k(0, KCommit), sel(2, 0)},
		{ins(2, 0, 1, 1), b(0), upd(0, 0, ip(0), ip(3), 5), ins(1, 0, 4, 2), k(0, KCommit), sel(2, 0)},
		// failure in the middle: duplicate key kills the transaction, next statement autocommits
		{b(0), ins(0, 0, 1, 10), ins(0, 0, 1, 11), ins(0, 0, 3, 30), k(0, KCommit), sel(1, 0)},
		// multi-row insert failing on the second row (autocommit and inside a tx)
		{ins(0, 0, 3, 1), Step{0, Op{K: KIns2, T: 0, Pk: 4, V: 1, Pk2: 3, V2: 1}}, sel(0, 0), b(0), Step{0, Op{K: KIns2, T: 0, Pk: 5, V: 1, Pk2: 5, V2: 2}}, sel(0, 0)},
		// API corner cases
		{k(0, KCommit), k(0, KRollback), sp(0, KSp, 1), k(0, KBeginStmt), k(0, KBeginStmt), sel(0, 0)},
		{b(0), k(0, KBadQ), ins(0, 0, 1, 1), k(0, KBadParse), sel(0, 0), b(0), ins(0, 0, 2, 2), k(0, KBadX), sel(0, 0)},
		{Step{0, Op{K: KBeginRO}}, sel(0, 0), upd(0, 0, nil, nil, 1), sp(0, KSp, 1), ins(0, 0, 1, 1), sel(0, 0)},
		{Step{0, Op{K: KBeginRO}}, k(0, KCommit), Step{0, Op{K: KBeginRO}}, auto(0, 3), b(0), auto(0, 4), k(0, KCommit), sel(0, 1)},
		{b(0), ins(0, 0, 1, 1), k(0, KClose), sel(0, 0), b(0), k(0, KCommit), b(0), sp(0, KRel, 3)},
		// explicit ids on the auto-increment table
		{Step{0, Op{K: KIns, T: 1, Pk: 5, V: 5}}, Step{0, Op{K: KIns, T: 1, Pk: 3, V: 5}}, Step{0, Op{K: KUps, T: 1, Pk: 5, V: 6}}, del(0, 1, 5), auto(0, 7), sel(0, 1),
			b(0), Step{0, Op{K: KIns, T: 1, Pk: 9, V: 1}}, auto(0, 2), k(0, KCommit), sel(0, 1)},
		// counters across savepoints
		{b(0), auto(0, 1), sp(0, KSp, 1), auto(0, 2), ins(0, 0, 1, 1), sp(0, KRbTo, 1), auto(0, 3), k(0, KCommit), sel(0, 1)},
		// delete own insert, then re-insert; generated key colliding with an own tombstone
		{b(0), auto(0, 1), del(0, 1, 1), sel(0, 1), Step{0, Op{K: KUps, T: 1, Pk: 2, V: 2}}, del(0, 1, 2), auto(0, 3), k(0, KCommit), sel(0, 1)},
	}
}

// ---- random programs ----
type genState struct {
	rng    *rand.Rand
	nsess  int
	inTx   [3]bool
	ro     [3]bool
	sps    [3][]uint64
	stmts  [3]int
	flavor int
}

func (g *genState) pk() int64 {
	if g.rng.Intn(12) == 0 {
		return int64(g.rng.Intn(3)) - 2 // -2..0
	}
	return int64(1 + g.rng.Intn(5))
}

func (g *genState) val() int64 {
	if g.rng.Intn(8) == 0 {
		return -int64(g.rng.Intn(10))
	}
	return int64(g.rng.Intn(100))
}

func (g *genState) table() int {
	switch x := g.rng.Intn(10); {
	case x < 5:
		return 0
	case x < 8:
		return 1
	default:
		return 2
	}
}

func (g *genState) rng2() (*int64, *int64) {
	switch g.rng.Intn(6) {
	case 0:
		return nil, nil
	case 1:
		a := g.pk()
		return ip(a), nil
	case 2:
		a := g.pk()
		return nil, ip(a)
	case 3:
		a, b := g.pk(), g.pk()
		if a > b {
			a, b = b, a
		}
		return ip(a), ip(b)
	default:
		a := g.pk()
		return ip(a), ip(a)
	}
}

func (g *genState) dml() Op {
	t := g.table()
	switch x := g.rng.Intn(20); {
	case x < 6:
		if autoinc(t) && g.rng.Intn(4) != 0 {
			return Op{K: KInsAuto, T: t, V: g.val()}
		}
		return Op{K: KIns, T: t, Pk: g.pk(), V: g.val()}
	case x < 8:
		if autoinc(t) {
			return Op{K: KInsAuto, T: t, V: g.val()}
		}
		return Op{K: KIns2, T: t, Pk: g.pk(), V: g.val(), Pk2: g.pk(), V2: g.val()}
	case x < 11:
		return Op{K: KUps, T: t, Pk: g.pk(), V: g.val()}
	case x < 15:
		lo, hi := g.rng2()
		return Op{K: KUpd, T: t, Lo: lo, Hi: hi, D: int64(g.rng.Intn(7)) - 2}
	case x < 19:
		lo, hi := g.rng2()
		return Op{K: KDel, T: t, Lo: lo, Hi: hi}
	default:
		return Op{K: KInsAuto, T: t, V: g.val()} // on ta / tc: id is NOT NULL -> error
	}
}

func (g *genState) spName(s int, preferExisting bool) uint64 {
	if preferExisting && len(g.sps[s]) > 0 && g.rng.Intn(6) != 0 {
		return g.sps[s][g.rng.Intn(len(g.sps[s]))]
	}
	return uint64(1 + g.rng.Intn(3))
}

func (g *genState) next(s int) Op {
	r := g.rng.Intn(100)
	if !g.inTx[s] {
		switch {
		case r < 45:
			if g.rng.Intn(7) == 0 {
				return Op{K: KBeginRO}
			}
			if g.rng.Intn(3) == 0 {
				return Op{K: KBeginStmt}
			}
			return Op{K: KBegin}
		case r < 70:
			return g.dml()
		case r < 88:
			lo, hi := g.rng2()
			return Op{K: KSel, T: g.table(), Lo: lo, Hi: hi}
		case r < 91:
			return Op{K: []string{KCommit, KRollback, KSp, KRbTo, KRel}[g.rng.Intn(5)], N: 1}
		case r < 94:
			return Op{K: []string{KBadQ, KBadX, KBadParse}[g.rng.Intn(3)]}
		default:
			return Op{K: KClose}
		}
	}
	// longer transactions finish with growing probability
	end := 4 + 3*g.stmts[s]
	if end > 40 {
		end = 40
	}
	switch {
	case r < end:
		if g.rng.Intn(4) == 0 {
			return Op{K: KRollback}
		}
		return Op{K: KCommit}
	case r < end+2:
		return Op{K: KClose}
	case r < end+4:
		return Op{K: []string{KBadQ, KBadQ, KBadX, KBadParse, KBeginStmt}[g.rng.Intn(5)]}
	}
	savepointShare := 12
	if g.flavor == 1 {
		savepointShare = 30
	}
	if g.flavor == 2 {
		savepointShare = 0
	}
	x := g.rng.Intn(100)
	switch {
	case x < savepointShare:
		switch g.rng.Intn(5) {
		case 0, 1:
			return Op{K: KSp, N: g.spName(s, false)}
		case 2, 3:
			if g.flavor == 3 { // savepoints without ROLLBACK TO
				return Op{K: KRel, N: g.spName(s, true)}
			}
			return Op{K: KRbTo, N: g.spName(s, true)}
		default:
			return Op{K: KRel, N: g.spName(s, true)}
		}
	case x < savepointShare+28:
		lo, hi := g.rng2()
		return Op{K: KSel, T: g.table(), Lo: lo, Hi: hi}
	default:
		return g.dml()
	}
}

// track: a rough prediction of the session state used only to steer generation
func (g *genState) track(s int, op Op) {
	switch op.K {
	case KBegin, KBeginStmt:
		if !g.inTx[s] {
			g.inTx[s], g.ro[s], g.sps[s], g.stmts[s] = true, false, nil, 0
		} else if op.K == KBeginStmt {
			g.inTx[s] = false
		}
	case KBeginRO:
		if !g.inTx[s] {
			g.inTx[s], g.ro[s], g.sps[s], g.stmts[s] = true, true, nil, 0
		}
	case KCommit, KRollback, KClose, KBadX, KBadParse:
		g.inTx[s] = false
	case KSp:
		g.sps[s] = append(g.sps[s], op.N)
		g.stmts[s]++
	default:
		g.stmts[s]++
	}
}

func genProgram(rng *rand.Rand, flavor int) []Step {
	g := &genState{rng: rng, flavor: flavor}
	g.nsess = 1 + rng.Intn(3)
	if rng.Intn(3) == 0 {
		g.nsess = 2
	}
	n := 6 + rng.Intn(14)
	var steps []Step
	// a few committed rows to start from
	for k := rng.Intn(4); k > 0; k-- {
		op := Op{K: KIns, T: g.table(), Pk: g.pk(), V: g.val()}
		if autoinc(op.T) {
			op = Op{K: KInsAuto, T: op.T, V: g.val()}
		}
		steps = append(steps, Step{rng.Intn(g.nsess), op})
	}
	cur := rng.Intn(g.nsess)
	for len(steps) < n {
		if rng.Intn(3) == 0 {
			cur = rng.Intn(g.nsess)
		}
		op := g.next(cur)
		if (op.K == KBegin || op.K == KBeginRO) && g.inTx[cur] {
			continue
		}
		g.track(cur, op)
		steps = append(steps, Step{cur, op})
	}
	// finish what is open, in a random order of commit / rollback / close
	for s := 0; s < g.nsess; s++ {
		if g.inTx[s] {
			k := []string{KCommit, KCommit, KRollback, KClose}[rng.Intn(4)]
			steps = append(steps, Step{s, Op{K: k}})
		}
	}
	for t := 0; t < 3; t++ {
		if rng.Intn(2) == 0 {
			steps = append(steps, Step{rng.Intn(g.nsess), Op{K: KSel, T: t}})
		}
	}
	return steps
}

// ---- classification of a program for the statistics ----
type features struct {
	nsess       int
	interleaved bool // a statement of another session ran while a transaction was open
	failedStmt  bool // a statement failed inside an explicit transaction
	conflict    bool // a COMMIT was rejected
	savepoint   bool
	rbto        bool
	multiStmt   bool // an explicit transaction with >= 2 statements
}

func featuresOf(steps []Step, obs []Obs) features {
	var f features
	seen := map[int]bool{}
	var open [3]bool
	var count [3]int
	for i, st := range steps {
		s := st.S % 3
		seen[s] = true
		for o := 0; o < 3; o++ {
			if o != s && open[o] {
				f.interleaved = true
			}
		}
		wasOpen := open[s]
		if wasOpen {
			count[s]++
			if count[s] >= 2 {
				f.multiStmt = true
			}
			if obs[i].Err && st.Op.K == KCommit {
				f.conflict = true
			} else if obs[i].Err {
				f.failedStmt = true
			}
			switch st.Op.K {
			case KSp, KRel:
				f.savepoint = true
			case KRbTo:
				f.savepoint, f.rbto = true, true
			}
		}
		open[s] = obs[i].Open
		if !open[s] {
			count[s] = 0
		}
	}
	f.nsess = len(seen)
	return f
}

func (f features) nontrivial() bool {
	return f.multiStmt && (f.interleaved || f.failedStmt || f.conflict || f.savepoint)
}

func (f features) bucket() string {
	b := fmt.Sprintf("sessions=%d", f.nsess)
	if f.interleaved {
		b += "+interleaved"
	}
	if f.conflict {
		b += "+commit-rejected"
	}
	if f.failedStmt {
		b += "+stmt-failed"
	}
	if f.rbto {
		b += "+rollback-to"
	} else if f.savepoint {
		b += "+savepoint"
	}
	return b
}

type result struct {
	steps []Step
	obs   []Obs
	extra []string
	err   error
	viaDB bool // the program was also run through pkg/database.DB
}

// the observations of the two executors must be identical (error texts are not compared)
func sameObs(a, b []Obs) (int, bool) {
	if len(a) != len(b) {
		return 0, false
	}
	for i := range a {
		x, y := a[i], b[i]
		x.ErrMsg, y.ErrMsg = "", ""
		if x.term() != y.term() {
			return i, false
		}
	}
	return 0, true
}

// runBoth: the engine run, and for the programs selected for it the same program through
// pkg/database; a difference between the two is reported as a violation of its own
func runBoth(steps []Step, alsoDB bool) result {
	obs, extra, err := runProgram(steps, false)
	res := result{steps: steps, obs: obs, extra: extra, err: err, viaDB: alsoDB}
	if err != nil || !alsoDB {
		return res
	}
	dobs, dextra, derr := runProgram(steps, true)
	if derr != nil {
		res.err = fmt.Errorf("pkg/database executor: %w", derr)
		return res
	}
	res.extra = append(res.extra, dextra...)
	if i, ok := sameObs(obs, dobs); !ok {
		res.extra = append(res.extra, fmt.Sprintf("pkg/database.DB (NewSQLTx/SQLExec/SQLQuery) behaves differently from sql.Engine at step %d: engine %s, database %s", i, obs[i].term(), dobs[i].term()))
	}
	return res
}

func record(r *vk.Run, res result, origin string, maxKnown map[string]int) {
	or := checkProgram(res.steps, res.obs)
	verdict := "ok"
	if len(or.known) > 0 {
		verdict = "known-deviation"
	}
	if or.unknown || len(res.extra) > 0 {
		verdict = "violation"
	}
	for _, f := range or.findings {
		isKnown := false
		for _, c := range []string{causeRbTo, causeLazy} {
			if len(f) >= len(c) && f[:len(c)] == c {
				isKnown = true
				if maxKnown[c] >= 2 {
					f = ""
				} else {
					maxKnown[c]++
				}
			}
		}
		_ = isKnown
		if f != "" {
			r.Finding(f)
		}
	}
	for _, x := range res.extra {
		r.Finding("cause=unknown: " + x + "; program: " + progString(res.steps))
	}
	ft := featuresOf(res.steps, res.obs)
	known := []string{}
	for c := range or.known {
		known = append(known, c)
	}
	js := map[string]any{"origin": origin, "steps": res.steps, "obs": res.obs, "program": progString(res.steps),
		"spec_check": verdict, "known_deviations": known, "spec_violation": or.unknown || len(res.extra) > 0}
	r.Case(caseTerm(res.steps, res.obs), js, origin+"/"+ft.bucket(), ft.nontrivial())
}

// Gen: the hand-written programs, then n random programs (executed in parallel, recorded in order).
func Gen(r *vk.Run, n int) error {
	var progs [][]Step
	var origin []string
	var alsoDB []bool
	for _, p := range seedPrograms() {
		progs = append(progs, p)
		origin = append(origin, "seed+db")
		alsoDB = append(alsoDB, true)
	}
	for i := 0; i < n; i++ {
		flavor := i % 5 // 0,4: mixed; 1: savepoint heavy; 2: no savepoints; 3: savepoints without ROLLBACK TO
		progs = append(progs, genProgram(r.Rng, flavor))
		// every sixth random program is executed a second time through pkg/database.DB
		if i%6 == 5 {
			origin = append(origin, fmt.Sprintf("random%d+db", flavor))
			alsoDB = append(alsoDB, true)
		} else {
			origin = append(origin, fmt.Sprintf("random%d", flavor))
			alsoDB = append(alsoDB, false)
		}
	}
	results := make([]result, len(progs))
	workers := runtime.NumCPU()
	if workers > 8 {
		workers = 8
	}
	var wg sync.WaitGroup
	ch := make(chan int)
	for w := 0; w < workers; w++ {
		wg.Add(1)
		go func() {
			defer wg.Done()
			for i := range ch {
				results[i] = runBoth(progs[i], alsoDB[i])
			}
		}()
	}
	for i := range progs {
		ch <- i
	}
	close(ch)
	wg.Wait()
	maxKnown := map[string]int{}
	for i, res := range results {
		if res.err != nil {
			return fmt.Errorf("program %d (%s): %w", i, progString(progs[i]), res.err)
		}
		record(r, res, origin[i], maxKnown)
	}
	return genDDL(r, n/3, workers)
}

// the DDL stream: hand-written histories, then nd random ones; checked by the oracle of ddl.go only
func genDDL(r *vk.Run, nd int, workers int) error {
	var progs [][]DEv
	var origin []string
	for _, p := range seedDDLPrograms() {
		progs = append(progs, p)
		origin = append(origin, "ddl-seed")
	}
	for i := 0; i < nd; i++ {
		progs = append(progs, genDDLProgram(r.Rng))
		origin = append(origin, "ddl")
	}
	results := make([]ddlResult, len(progs))
	var wg sync.WaitGroup
	ch := make(chan int)
	for w := 0; w < workers; w++ {
		wg.Add(1)
		go func() {
			defer wg.Done()
			for i := range ch {
				results[i] = runDDLProgram(progs[i])
			}
		}()
	}
	for i := range progs {
		ch <- i
	}
	close(ch)
	wg.Wait()
	reported := 0
	for i, res := range results {
		if res.err != nil {
			return fmt.Errorf("ddl program %d (%s): %w", i, dProgString(progs[i]), res.err)
		}
		recordDDL(r, res, origin[i], i, &reported)
	}
	return nil
}

var knownDDLSeen = map[string]int{}

func recordDDL(r *vk.Run, res ddlResult, origin string, k int, reported *int) {
	for _, f := range res.findings {
		if strings.HasPrefix(f, "cause=unknown") {
			if *reported < 8 {
				r.Finding(f)
			}
			*reported++
		} else if k := f[:strings.Index(f, " ")]; knownDDLSeen[k] < 2 {
			knownDDLSeen[k]++
			r.Finding(f)
		}
	}
	js := map[string]any{"origin": origin, "ddl_events": res.evs, "program": dProgString(res.evs), "engine": res.log,
		"spec_check": map[bool]string{true: "violation", false: "ok"}[len(res.findings) > 0], "spec_violation": len(res.findings) > 0,
		"findings": res.findings}
	nontrivial := res.features["ddl-in-tx"] || res.features["ddl-autocommit"]
	r.Case(fmt.Sprintf("(CDdl %d)", k), js, origin+"/"+res.bucket(), nontrivial)
}

// Replay re-runs the program stored in a replay file.
func Replay(r *vk.Run, c map[string]any) error {
	if evs, ok := c["ddl_events"]; ok {
		b, err := json.Marshal(evs)
		if err != nil {
			return err
		}
		var p []DEv
		if err := json.Unmarshal(b, &p); err != nil {
			return err
		}
		res := runDDLProgram(p)
		if res.err != nil {
			return res.err
		}
		n := 0
		recordDDL(r, res, "ddl-replay", 0, &n)
		return nil
	}
	b, err := json.Marshal(c["steps"])
	if err != nil {
		return err
	}
	var steps []Step
	if err := json.Unmarshal(b, &steps); err != nil {
		return err
	}
	res := runBoth(steps, true)
	if res.err != nil {
		return res.err
	}
	record(r, res, "replay+db", map[string]int{})
	return nil
}
