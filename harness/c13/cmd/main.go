package main

import (
	"verif/harness/c13"
	"verif/harness/vk"
)

func main() { vk.Main("Tie.C13", c13.Gen, c13.Replay) }
