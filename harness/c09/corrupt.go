package c09

import (
	"crypto/sha256"
	"encoding/binary"
	"fmt"
	"math/rand"
	"strings"

	"github.com/codenotary/immudb/embedded/store"
)

// patch overwrites logical bytes of one log: vlog = -1 is the tx log, otherwise val_<vlog>.
type patch struct {
	vlog int
	off  int64
	data []byte
}

type job struct {
	cfgIdx  int
	target  int    // index into image.txs
	class   string // offset class (field) or attack family
	kind    string // how the bytes were altered
	patches []patch
	skip    bool // additionally read with skipIntegrityCheck (tie only)
	rebuild bool // additionally delete the index and let it be rebuilt from the corrupted logs
}

func (j *job) describe(img *image) string {
	var id uint64
	if j.target >= 0 {
		id = img.txs[j.target].id
	}
	s := fmt.Sprintf("cfg=%s tx=%d class=%s kind=%s patches=[", img.cfg.name, id, j.class, j.kind)
	for k, p := range j.patches {
		if k > 0 {
			s += " "
		}
		log := "tx"
		if p.vlog >= 0 {
			log = fmt.Sprintf("val_%d", p.vlog)
		}
		s += fmt.Sprintf("%s@%d:%x", log, p.off, p.data)
	}
	return s + "]"
}

// serialize lays a transaction out as performPrecommit does (Eh taken from the rebuilt hash tree).
func serialize(hdr *store.TxHeader, entries []entryInfo) ([]byte, *store.TxHeader, error) {
	es := make([]*store.TxEntry, len(entries))
	for i, e := range entries {
		es[i] = store.NewTxEntry(e.key, e.md, e.vLen, e.hVal, e.vOff)
	}
	h := *hdr
	tx := store.NewTxWithEntries(&h, es)
	if err := tx.BuildHashTree(); err != nil {
		return nil, nil, err
	}
	nh := tx.Header()
	var b []byte
	u64 := func(v uint64) { b = binary.BigEndian.AppendUint64(b, v) }
	u32 := func(v uint32) { b = binary.BigEndian.AppendUint32(b, v) }
	u16 := func(v uint16) { b = binary.BigEndian.AppendUint16(b, v) }
	u64(nh.ID)
	u64(uint64(nh.Ts))
	u64(nh.BlTxID)
	b = append(b, nh.BlRoot[:]...)
	b = append(b, nh.PrevAlh[:]...)
	u16(uint16(nh.Version))
	switch nh.Version {
	case 0:
		u16(uint16(nh.NEntries))
	case 1:
		var md []byte
		if hdr.Metadata != nil {
			md = hdr.Metadata.Bytes()
		}
		u16(uint16(len(md)))
		b = append(b, md...)
		u32(uint32(nh.NEntries))
	default:
		return nil, nil, fmt.Errorf("version %d", nh.Version)
	}
	for _, e := range entries {
		var md []byte
		if e.md != nil {
			md = e.md.Bytes()
		}
		u16(uint16(len(md)))
		b = append(b, md...)
		u16(uint16(len(e.key)))
		b = append(b, e.key...)
		u32(uint32(e.vLen))
		u64(uint64(e.vOff))
		b = append(b, e.hVal[:]...)
	}
	alh := nh.Alh()
	b = append(b, alh[:]...)
	return b, nh, nil
}

func clone(b []byte) []byte { return append([]byte{}, b...) }

// the fields that hold a length or a count
var lengthClass = map[string]bool{"hdr.MdLen": true, "hdr.Md.extraLen": true, "hdr.NEntries": true,
	"entry.mdLen": true, "entry.kLen": true, "entry.vLen": true}

var boundary = []byte{0, 1, 2, 0x7f, 0x80, 0xfe, 0xff}

func beBytes(v uint64, w int) []byte {
	var b [8]byte
	binary.BigEndian.PutUint64(b[:], v)
	return clone(b[8-w:])
}

func beVal(b []byte) uint64 {
	var v uint64
	for _, x := range b {
		v = v<<8 | uint64(x)
	}
	return v
}

// plan produces the corruption jobs for one image. Every offset class of every transaction gets
// single-bit flips, byte replacements, whole-field rewrites and (numeric fields) arithmetic edits;
// then multi-field edits, scribbles, relocated records, consistent rewrites and value bytes.
func plan(cfgIdx int, img *image, rng *rand.Rand, budget int) []*job {
	var jobs []*job
	add := func(target int, class, kind string, ps ...patch) {
		jobs = append(jobs, &job{cfgIdx: cfgIdx, target: target, class: class, kind: kind, patches: ps})
	}
	txp := func(t *txInfo, lo int, data []byte) patch { return patch{-1, t.off + int64(lo), data} }

	for ti, t := range img.txs {
		for _, f := range t.fields {
			w := f.hi - f.lo
			orig := t.rec[f.lo:f.hi]
			// single-bit flips
			nflip := 2
			if w <= 8 {
				nflip = 3
			}
			for k := 0; k < nflip; k++ {
				d := clone(orig)
				bit := rng.Intn(8 * w)
				d[bit/8] ^= 1 << uint(bit%8)
				add(ti, f.class, "bitflip", txp(t, f.lo, d))
			}
			// one byte replaced by a boundary value
			{
				d := clone(orig)
				p := rng.Intn(w)
				v := boundary[rng.Intn(len(boundary))]
				if v == d[p] {
					v ^= 0x55
				}
				d[p] = v
				add(ti, f.class, "byte", txp(t, f.lo, d))
			}
			// whole field random
			{
				d := randBytes(rng, w)
				if string(d) == string(orig) {
					d[0] ^= 1
				}
				add(ti, f.class, "field-random", txp(t, f.lo, d))
			}
			// numeric fields: arithmetic edits
			// every length / count field: exactly +-1 and +-2 (off-by-one and off-by-prefix slips)
			if lengthClass[f.class] {
				v := beVal(orig)
				max := uint64(1)<<(8*uint(w)) - 1
				for _, d := range []int64{1, 2, -1, -2} {
					nv := uint64(int64(v)+d) & max
					if int64(v)+d < 0 {
						continue
					}
					add(ti, f.class, fmt.Sprintf("len%+d", d), txp(t, f.lo, beBytes(nv, w)))
				}
			}
			if w <= 8 && f.class != "entry.key" && f.class != "hdr.Md.extra" && f.class != "hdr.Md.code" && f.class != "entry.md.code" {
				v := beVal(orig)
				max := uint64(1)<<(8*uint(w)) - 1
				if w == 8 {
					max = ^uint64(0)
				}
				for _, nv := range []uint64{v + 1, v - 1, 0, max, v + 256, v << 1} {
					nv &= max
					if nv == v {
						continue
					}
					add(ti, f.class, "numeric", txp(t, f.lo, beBytes(nv, w)))
				}
			}
		}
		// dedicated edits of the value reference
		for ei := range t.entries {
			e := &t.entries[ei]
			fl := t.fieldNamed(fmt.Sprintf("e%d.vLen", ei))
			fo := t.fieldNamed(fmt.Sprintf("e%d.vOff", ei))
			if e.vLen > 0 {
				add(ti, "entry.vLen", "vlen-zero", txp(t, fl.lo, beBytes(0, 4)))
				add(ti, "entry.vLen", "vlen-shorter", txp(t, fl.lo, beBytes(uint64(e.vLen-1), 4)))
			}
			add(ti, "entry.vLen", "vlen-longer", txp(t, fl.lo, beBytes(uint64(e.vLen+1), 4)))
			add(ti, "entry.vLen", "vlen-big", txp(t, fl.lo, beBytes(uint64(1<<20+rng.Intn(1<<20)), 4)))
			for _, id := range []uint64{0, 1, 2, 3, 4, 9, 0x7f, 0x80, 0xff} {
				nv := uint64(e.vOff)&(1<<56-1) | id<<56
				if nv == uint64(e.vOff) {
					continue
				}
				add(ti, "entry.vOff", "vlog-id", txp(t, fo.lo, beBytes(nv, 8)))
			}
			// point at another value / beyond the end / bit 55 (cleared by decodeOffset)
			other := img.txs[rng.Intn(len(img.txs))]
			oe := other.entries[rng.Intn(len(other.entries))]
			if oe.vOff != e.vOff {
				add(ti, "entry.vOff", "other-value", txp(t, fo.lo, beBytes(uint64(oe.vOff), 8)))
				add(ti, "entry.vOff+vLen", "other-value", txp(t, fl.lo, append(beBytes(uint64(oe.vLen), 4), beBytes(uint64(oe.vOff), 8)...)))
			}
			add(ti, "entry.vOff", "beyond-end", txp(t, fo.lo, beBytes(uint64(e.vOff)+1<<20, 8)))
			add(ti, "entry.vOff", "bit55", txp(t, fo.lo, beBytes(uint64(e.vOff)|1<<55, 8)))
		}
		// multi-field edits inside one record
		for k := 0; k < 4; k++ {
			var ps []patch
			cls := "multi"
			for n := 0; n < 2+rng.Intn(2); n++ {
				f := t.fields[rng.Intn(len(t.fields))]
				d := clone(t.rec[f.lo:f.hi])
				d[rng.Intn(len(d))] ^= byte(1 + rng.Intn(255))
				ps = append(ps, txp(t, f.lo, d))
				cls += ":" + f.class
			}
			add(ti, cls, "multi-field", ps...)
		}
		// scribbles: a random run of bytes anywhere in the record
		for k := 0; k < 4; k++ {
			n := 2 + rng.Intn(40)
			if n > len(t.rec) {
				n = len(t.rec)
			}
			lo := rng.Intn(len(t.rec) - n + 1)
			add(ti, "scribble", "scribble", txp(t, lo, randBytes(rng, n)))
		}
		// zeroed run (what a lost sector looks like)
		{
			n := 16 + rng.Intn(64)
			if n > len(t.rec) {
				n = len(t.rec)
			}
			lo := rng.Intn(len(t.rec) - n + 1)
			add(ti, "zeroed", "zeroed", txp(t, lo, make([]byte, n)))
		}
		// relocate: the bytes of another committed record written over this one
		for k := 0; k < 2; k++ {
			o := img.txs[rng.Intn(len(img.txs))]
			if o.id == t.id || t.off+int64(len(o.rec)) > int64(len(img.txlog)) {
				continue
			}
			add(ti, "relocate", fmt.Sprintf("record-of-tx-%d", o.id), txp(t, 0, clone(o.rec)))
		}
		// consistent rewrites: content changed, Eh / Alh recomputed, trailing Alh replaced
		for k := 0; k < 4; k++ {
			es := make([]entryInfo, len(t.entries))
			copy(es, t.entries)
			ei := rng.Intn(len(es))
			var extra []patch
			kind := ""
			switch k {
			case 0: // another key of the same length
				es[ei].key = clone(es[ei].key)
				es[ei].key[len(es[ei].key)-1] ^= 0x20
				kind = "key"
			case 1: // another value digest
				es[ei].hVal = sha256.Sum256([]byte("forged"))
				kind = "hVal"
			case 2: // another value, stored in place of the committed one
				if es[ei].vLen == 0 || img.cfg.compression != 0 {
					continue
				}
				nv := randBytes(rng, es[ei].vLen)
				es[ei].hVal = sha256.Sum256(nv)
				_, vl, off := img.valueLoc(&es[ei])
				extra = append(extra, patch{vl, off, nv})
				kind = "value"
			case 3: // header timestamp
				kind = "ts"
			}
			h := *t.hdr
			if k == 3 {
				h.Ts += 1000
			}
			nrec, _, err := serialize(&h, es)
			if err != nil || len(nrec) != len(t.rec) {
				continue
			}
			add(ti, "rewrite", kind, append([]patch{txp(t, 0, nrec)}, extra...)...)
		}
		// value bytes
		for ei := range t.entries {
			e := &t.entries[ei]
			if e.vLen == 0 {
				continue
			}
			_, vl, off := img.valueLoc(e)
			var src []byte
			if vl < 0 {
				src = img.txlog
			} else {
				src = img.vlogs[vl]
			}
			if img.cfg.compression != 0 {
				continue // handled by planCompressed
			}
			orig := src[off : off+int64(e.vLen)]
			for k := 0; k < 3; k++ {
				d := clone(orig)
				bit := rng.Intn(8 * len(d))
				d[bit/8] ^= 1 << uint(bit%8)
				add(ti, "value.bytes", fmt.Sprintf("bitflip-e%d", ei), patch{vl, off, d})
			}
			d := randBytes(rng, e.vLen)
			if string(d) == string(orig) {
				d[0] ^= 1
			}
			add(ti, "value.bytes", fmt.Sprintf("random-e%d", ei), patch{vl, off, d})
			add(ti, "value.bytes", fmt.Sprintf("zeroed-e%d", ei), patch{vl, off, make([]byte, e.vLen)})
		}
		// embedded values: the 2-byte length that precedes the values of the transaction
		if img.cfg.embedded {
			tot := 0
			for _, e := range t.entries {
				tot += e.vLen
			}
			po := t.off - int64(tot) - 2
			if po >= 0 {
				for _, nv := range []uint64{0, uint64(tot + 1), 0xffff} {
					add(ti, "embedded.prefixLen", "numeric", patch{-1, po, beBytes(nv, 2)})
				}
			}
		}
	}
	// sample down to the budget, keeping at least one job of every (class, kind family)
	if len(jobs) > budget {
		seen := map[string]bool{}
		var keep, rest []*job
		perm := rng.Perm(len(jobs))
		for _, i := range perm {
			j := jobs[i]
			// always kept: one job of every offset class, and of every kind for the value reference,
			// the consistent rewrites and the value bytes
			k := classFamily(j.class)
			switch k {
			case "entry.vLen", "entry.vOff", "entry.vOff+vLen", "rewrite":
				k += "/" + j.kind
			case "hdr.MdLen", "hdr.Md.extraLen", "hdr.NEntries", "entry.mdLen", "entry.kLen":
				if strings.HasPrefix(j.kind, "len") {
					k += "/" + j.kind
				}
			case "value.bytes":
				k += "/" + strings.SplitN(j.kind, "-", 2)[0]
			}
			if !seen[k] {
				seen[k] = true
				keep = append(keep, j)
			} else {
				rest = append(rest, j)
			}
		}
		for _, j := range rest {
			if len(keep) >= budget {
				break
			}
			keep = append(keep, j)
		}
		jobs = keep
	}
	if img.cfg.compression != 0 {
		// physical bytes of the compressed value log: always kept (direct check only)
		jobs = append(jobs, planCompressed(cfgIdx, img, rng)...)
	}
	for i, j := range jobs {
		j.skip = i%4 == 0
		// index rebuild from the corrupted logs: always when the key, its length or the key metadata
		// may be affected, for a half / a quarter of the other jobs
		switch classFamily(j.class) {
		case "entry.key", "entry.kLen", "entry.md.code", "entry.md.expiresAt", "entry.mdLen", "rewrite", "relocate":
			j.rebuild = true
		case "multi", "scribble", "zeroed":
			j.rebuild = i%2 == 0
		default:
			j.rebuild = i%4 == 1
		}
		clampVLen(img, j)
	}
	// one DIRECTED job per known finding, never sampled away and run first, so that every listed
	// known finding is replayed on every run (a job that stops reproducing simply reports nothing)
	jobs = append(directed(cfgIdx, img), jobs...)
	// one probe per image of what a huge vLen costs (run on its own, after the parallel batch)
	if cfgIdx == 0 || cfgIdx == 2 {
		t := img.txs[1]
		fl := t.fieldNamed("e0.vLen")
		jobs = append(jobs, &job{cfgIdx: cfgIdx, target: 1, class: "entry.vLen", kind: "vlen-huge",
			patches: []patch{{-1, t.off + int64(fl.lo), beBytes(hugeVLen, 4)}}})
	}
	if img.cfg.compression != 0 {
		for ti, t := range img.txs {
			if t.entries[0].vLen > 0 {
				fl := t.fieldNamed("e0.vLen")
				jobs = append(jobs, &job{cfgIdx: cfgIdx, target: ti, class: "entry.vLen", kind: "vlen-longer-compressed",
					patches: []patch{{-1, t.off + int64(fl.lo), beBytes(uint64(t.entries[0].vLen+1), 4)}}})
				break
			}
		}
	}
	return jobs
}

const maxGenVLen = 1 << 22
const hugeVLen = 1 << 30

// clampVLen keeps the value lengths a job can make ReadValue/ExportTx see below 4 MiB: before 85f50b0 the store
// allocated vLen bytes before validating anything (still probed by the vlen-huge job), and
// thousands of multi-GiB allocations would only slow the run down. ReadValue is reached only when
// ReadTx succeeded, i.e. when the layout is the committed one, so the committed vLen positions are
// the ones that matter.
func clampVLen(img *image, j *job) {
	if j.target < 0 {
		return
	}
	t := img.txs[j.target]
	rec := clone(t.rec)
	for _, p := range j.patches {
		if p.vlog >= 0 {
			continue
		}
		for k, b := range p.data {
			o := p.off + int64(k) - t.off
			if o >= 0 && o < int64(len(rec)) {
				rec[o] = b
			}
		}
	}
	for _, f := range t.fields {
		if f.class != "entry.vLen" {
			continue
		}
		v := beVal(rec[f.lo:f.hi])
		if v >= maxGenVLen {
			v &= maxGenVLen - 1
			j.patches = append(j.patches, patch{-1, t.off + int64(f.lo), beBytes(v, 4)})
		}
		// compressed value logs: a vLen above the stored length costs seconds of multi-GiB
		// allocations per read (probed once by the vlen-longer-compressed job)
		if orig := beVal(t.rec[f.lo:f.hi]); img.cfg.compression != 0 && v > orig {
			nv := uint64(0)
			if orig > 0 {
				nv = v % orig
			}
			j.patches = append(j.patches, patch{-1, t.off + int64(f.lo), beBytes(nv, 4)})
		}
	}
}

// compressed value logs: the data region of the chunk files is altered physically (entries are
// length-prefixed compressed blocks; offsets are entry offsets)
func planCompressed(cfgIdx int, img *image, rng *rand.Rand) []*job {
	var jobs []*job
	for vl, data := range img.vlogs {
		if len(data) == 0 {
			continue
		}
		for k := 0; k < 30; k++ {
			p := rng.Intn(len(data))
			d := []byte{data[p] ^ (1 << uint(rng.Intn(8)))}
			kind := "bitflip"
			if k%3 == 1 {
				n := 1 + rng.Intn(6)
				if p+n > len(data) {
					n = len(data) - p
				}
				d = randBytes(rng, n)
				kind = "random"
			}
			jobs = append(jobs, &job{cfgIdx: cfgIdx, target: -1, class: "value.compressed", kind: kind,
				patches: []patch{{vl, int64(p), d}}})
		}
	}
	return jobs
}

// directed: the smallest corruption that reproduces each entry of known_findings/C09.json.
func directed(cfgIdx int, img *image) []*job {
	var jobs []*job
	mk := func(target int, class, kind string, ps ...patch) {
		jobs = append(jobs, &job{cfgIdx: cfgIdx, target: target, class: class, kind: "directed-" + kind, patches: ps})
	}
	if img.cfg.compression != 0 {
		// exported-as-truncated-compressed: the compressed block of the single value of tx 1 (the first
		// block of val_0) is damaged right after its 4-byte length prefix
		if len(img.vlogs) > 0 && len(img.vlogs[0]) >= 8 && len(img.txs[0].entries) == 1 {
			mk(0, "value.compressed", "damaged-block", patch{0, 4, []byte{0xff, 0xff, 0xff, 0xff}})
		}
		return jobs
	}
	if img.cfg.embedded || len(img.txs) < 3 {
		return jobs
	}
	t := img.txs[1] // tx 2: not the last one, all its values are non-empty
	fl, fo := t.fieldNamed("e0.vLen"), t.fieldNamed("e0.vOff")
	e0 := &t.entries[0]
	// vLen-vOff-only: vLen of entry 0 one byte longer
	mk(1, "entry.vLen", "vlen+1", patch{-1, t.off + int64(fl.lo), beBytes(uint64(e0.vLen+1), 4)})
	// vLen-0-empty-value
	mk(1, "entry.vLen", "vlen-zero", patch{-1, t.off + int64(fl.lo), beBytes(0, 4)})
	// consistent-rewrite: another key of the same length, Eh and Alh recomputed
	es := make([]entryInfo, len(t.entries))
	copy(es, t.entries)
	es[0].key = clone(es[0].key)
	es[0].key[len(es[0].key)-1] ^= 0x20
	if nrec, _, err := serialize(t.hdr, es); err == nil && len(nrec) == len(t.rec) {
		mk(1, "rewrite", "key", patch{-1, t.off, nrec})
	}
	// exported-as-truncated-no-vlog: the vLogID byte of every entry of tx 2 set to 0
	var ps []patch
	for i := range t.entries {
		f := t.fieldNamed(fmt.Sprintf("e%d.vOff", i))
		ps = append(ps, patch{-1, t.off + int64(f.lo), []byte{0}})
	}
	_ = fo
	mk(1, "entry.vOff", "vlog-id-0", ps...)
	return jobs
}
