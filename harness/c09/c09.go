package c09

import (
	"crypto/sha256"
	"encoding/hex"
	"fmt"
	"math/rand"
	"os"
	"strings"
	"sync"
	"time"

	"github.com/codenotary/immudb/embedded/store"
	"verif/harness/vk"
)

// ---- Coq terms -------------------------------------------------------------------------------

func txMdTerm(md *store.TxMetadata) string {
	if md == nil || len(md.Bytes()) == 0 {
		return "None"
	}
	tr := "None"
	if md.HasTruncatedTxID() {
		v, _ := md.GetTruncatedTxID()
		tr = fmt.Sprintf("(Some %d)", v)
	}
	return fmt.Sprintf("(Some {| md_trunc := %s; md_extra := %s |})", tr, vk.OptHex(md.Extra()))
}

func kvMdTerm(md *store.KVMetadata) string {
	if md == nil {
		return "None"
	}
	exp := "None"
	if md.IsExpirable() {
		t, _ := md.ExpirationTime()
		exp = fmt.Sprintf("(Some %d)", uint64(t.Unix()))
	}
	return fmt.Sprintf("(Some {| kv_deleted := %s; kv_expires := %s; kv_nonindexable := %s |})",
		vk.Bool(md.Deleted()), exp, vk.Bool(md.NonIndexable()))
}

func hdrTerm(h *store.TxHeader) string {
	return fmt.Sprintf("{| h_id := %d; h_prevalh := %s; h_ts := %d; h_version := %d; h_md := %s; h_nentries := %d; h_eh := %s; h_bltxid := %d; h_blroot := %s |}",
		h.ID, vk.Hex(h.PrevAlh[:]), uint64(h.Ts), h.Version, txMdTerm(h.Metadata), h.NEntries, vk.Hex(h.Eh[:]), h.BlTxID, vk.Hex(h.BlRoot[:]))
}

func entryTerm(e *entryInfo) string {
	return fmt.Sprintf("{| e_md := %s; e_key := %s; e_vlen := %d; e_voff := %d; e_hval := %s |}",
		kvMdTerm(e.md), vk.Hex(e.key), e.vLen, uint64(e.vOff), vk.Hex(e.hVal[:]))
}

func txTerm(hdr *store.TxHeader, es []entryInfo) string {
	var l []string
	for i := range es {
		l = append(l, entryTerm(&es[i]))
	}
	return fmt.Sprintf("{| t_hdr := %s; t_entries := %s |}", hdrTerm(hdr), vk.List(l))
}

func resTerm(o outcome, ok string) string {
	if o.panicked {
		return "Panic"
	}
	if o.err != nil {
		return "(Err 0)"
	}
	return "(Ok " + ok + ")"
}

// ---- generation ------------------------------------------------------------------------------

func rngFor(seed int64, round, cfgIdx int) *rand.Rand {
	return rand.New(rand.NewSource(seed*1000003 + int64(round)*7919 + int64(cfgIdx)*104729 + 17))
}

func shaCases(r *vk.Run) {
	lens := []int{0, 1, 3, 31, 32, 33, 54, 55, 56, 57, 63, 64, 65, 72, 97, 119, 120, 127, 128, 129, 200, 356}
	for k := 0; k < 18; k++ {
		lens = append(lens, r.Rng.Intn(300))
	}
	for _, n := range lens {
		in := vk.RandBytes(r.Rng, n)
		out := sha256.Sum256(in)
		r.Case(fmt.Sprintf("CSha %s %s", vk.Hex(in), vk.Hex(out[:])),
			map[string]any{"kind": "sha", "in": hex.EncodeToString(in)}, "sha256", n > 0)
	}
}

func (img *image) apply(j *job) (txlog []byte, vlogs [][]byte) {
	txlog = clone(img.txlog)
	for _, v := range img.vlogs {
		vlogs = append(vlogs, clone(v))
	}
	for _, p := range j.patches {
		if p.vlog < 0 {
			copy(txlog[p.off:], p.data)
		} else {
			copy(vlogs[p.vlog][p.off:], p.data)
		}
	}
	return
}

func jobSpec(j *job) map[string]any {
	var ps []any
	for _, p := range j.patches {
		ps = append(ps, map[string]any{"vlog": p.vlog, "off": p.off, "data": hex.EncodeToString(p.data)})
	}
	return map[string]any{"target": j.target, "class": j.class, "kind": j.kind, "patches": ps, "skip": j.skip, "rebuild": j.rebuild}
}

func classFamily(c string) string {
	if i := strings.IndexByte(c, ':'); i >= 0 {
		return c[:i]
	}
	return c
}

// pristineCases ties the record layout: the model's writer must reproduce the bytes found in the
// tx log for what Go reads back, and the model's reader must read them back.
func (img *image) pristineCases(r *vk.Run, round, cfgIdx int) {
	base := map[string]any{"seed": r.Seed, "round": round, "cfg": cfgIdx, "cfgname": img.cfg.name}
	for _, t := range img.txs {
		js := map[string]any{"kind": "write", "tx": t.id}
		for k, v := range base {
			js[k] = v
		}
		r.Case(fmt.Sprintf("CWrite %s %s", txTerm(t.hdr, t.entries), vk.Hex(t.rec)), js, "pristine/write", true)
		js2 := map[string]any{"kind": "tx-pristine", "tx": t.id}
		for k, v := range base {
			js2[k] = v
		}
		r.Case(fmt.Sprintf("CTx %d %d %d %s (Ok %s) None None", maxTxEntries, maxKeyLen, t.id, vk.Hex(img.txlog[t.off:]), txTerm(t.hdr, t.entries)),
			js2, "pristine/read", true)
		if img.cfg.embedded {
			var vals []string
			tot := 0
			for _, e := range t.entries {
				vals = append(vals, vk.Hex(e.value))
				tot += len(e.value)
			}
			po := t.off - int64(tot) - 2
			js3 := map[string]any{"kind": "emb", "tx": t.id}
			for k, v := range base {
				js3[k] = v
			}
			r.Case(fmt.Sprintf("CEmb %s %s", vk.List(vals), vk.Hex(img.txlog[po:t.off])), js3, "pristine/embedded-prefix", true)
		}
		if img.cfg.compression == 0 {
			for i := range t.entries {
				e := &t.entries[i]
				js4 := map[string]any{"kind": "val-pristine", "tx": t.id, "entry": i}
				for k, v := range base {
					js4[k] = v
				}
				r.Case(img.sessCase(img.txlog, img.vlogs, []sessOp{{e: *e, val: e.value}, {e: *e, val: e.value}}), js4, "pristine/value", true)
			}
		}
	}
}

// sessCase: the value reads made on one opened store, in order, as a Tie.C09 CSess term.
func (img *image) sessCase(txlog []byte, vlogs [][]byte, ops []sessOp) string {
	tl := []byte{}
	var vl []string
	if img.cfg.embedded {
		tl = txlog
	} else {
		for _, v := range vlogs {
			vl = append(vl, vk.Hex(v))
		}
	}
	var terms []string
	for _, op := range ops {
		if op.isExp {
			var es, vs []string
			for _, e := range op.es {
				es = append(es, fmt.Sprintf("(%d, %d, %s)", e.vLen, uint64(e.vOff), vk.Hex(e.hVal[:])))
			}
			for _, v := range op.vals {
				vs = append(vs, vk.Hex(v))
			}
			terms = append(terms, fmt.Sprintf("VExp %s %s", vk.List(es),
				resTerm(op.o, fmt.Sprintf("(%s, %s)", vk.Bool(op.trunc), vk.List(vs)))))
		} else {
			terms = append(terms, fmt.Sprintf("VRead %d %d %s %s", op.e.vLen, uint64(op.e.vOff), vk.Hex(op.e.hVal[:]),
				resTerm(op.o, vk.Hex(op.val))))
		}
	}
	return fmt.Sprintf("CSess %d %d %s %s %s %s", maxValueLen, img.cfg.mode(), vk.Bool(img.cfg.vlogCache > 0), vk.Hex(tl), vk.List(vl), vk.List(terms))
}

// emit records the correspondence cases of one executed job and its direct findings.
func (img *image) emit(r *vk.Run, round, cfgIdx, jobIdx int, j *job, res *jobResult) {
	for _, f := range res.findings {
		r.Finding(f)
	}
	fam := classFamily(j.class)
	base := func(kind string) map[string]any {
		return map[string]any{"kind": kind, "seed": r.Seed, "round": round, "cfg": cfgIdx, "cfgname": img.cfg.name,
			"job": j.describe(img), "jobspec": jobSpec(j)}
	}
	if !res.open.ok() {
		// nothing could be read; the refusal to open is itself an error outcome
		r.Stats["open-refused/"+fam]++
		return
	}
	if j.target < 0 {
		r.Stats["direct-only/"+fam]++
		return
	}
	t := img.txs[j.target]
	txlog, vlogs := img.apply(j)
	stream := txlog[t.off:]

	js := base("tx")
	js["go"] = res.readTx.class()
	viol := res.readTx.panicked || res.readTx.hung
	ok := ""
	if res.readTx.ok() {
		d := diffTx(res.tx, t)
		js["differs"] = d
		viol = viol || len(d) > 0
		ok = txTerm(res.tx.hdr, res.tx.entries)
	}
	skipTerm, hdrTerm_ := "None", "None"
	if res.didSkip && !res.readSkip.hung {
		js["go-skip"] = res.readSkip.class()
		viol = viol || res.readSkip.panicked
		oks := ""
		if res.readSkip.ok() {
			oks = txTerm(res.txSkip.hdr, res.txSkip.entries)
		}
		skipTerm = "(Some " + resTerm(res.readSkip, oks) + ")"
		r.Stats["~ReadTx(skip)/"+res.readSkip.class()]++
	}
	if res.didHdr && !res.readHdr.hung {
		js["go-hdr"] = res.readHdr.class()
		viol = viol || res.readHdr.panicked
		okh := ""
		if res.readHdr.ok() {
			viol = viol || len(diffHdr(res.hdr, t.hdr)) > 0
			okh = hdrTerm(res.hdr)
		}
		hdrTerm_ = "(Some " + resTerm(res.readHdr, okh) + ")"
		r.Stats["~ReadTxHeader/"+res.readHdr.class()]++
	}
	js["violation"] = viol
	// the (many) reads that simply fail are compared with the model for every other job only: the cost
	// of a case is the parsing of its byte strings
	r.Stats["~ReadTx/"+res.readTx.class()]++
	if !res.readTx.hung && (res.readTx.class() != "error" || jobIdx%2 == 0) {
		r.Case(fmt.Sprintf("CTx %d %d %d %s %s %s %s", maxTxEntries, maxKeyLen, t.id, vk.Hex(stream), resTerm(res.readTx, ok), skipTerm, hdrTerm_),
			js, "ReadTx/"+fam+"/"+res.readTx.class(), true)
	}
	if img.cfg.compression == 0 && len(res.sess) > 0 {
		js := base("session")
		viol := false
		classes := ""
		for _, op := range res.sess {
			viol = viol || op.viol
			if op.isExp {
				classes += "E" + op.o.class()[:1]
			} else {
				classes += "R" + op.o.class()[:1]
			}
		}
		js["ops"] = classes
		js["violation"] = viol
		r.Case(img.sessCase(txlog, vlogs, res.sess), js, fmt.Sprintf("ValueSession(%d reads)/%s", len(res.sess), fam), true)
		for _, op := range res.sess {
			if op.isExp {
				r.Stats["~ExportTx/"+op.o.class()]++
			} else {
				r.Stats["~ReadValue/"+op.o.class()]++
			}
		}
	}
}

const workers = 8

func (img *image) runAll(jobs []*job) ([]*jobResult, error) {
	results := make([]*jobResult, len(jobs))
	errs := make([]error, len(jobs))
	var wg sync.WaitGroup
	ch := make(chan int)
	for w := 0; w < workers; w++ {
		wg.Add(1)
		go func() {
			defer wg.Done()
			for i := range ch {
				t0 := time.Now()
				results[i], errs[i] = img.run(jobs[i])
				if d := time.Since(t0); d > 500*time.Millisecond && os.Getenv("C09_DEBUG") != "" {
					fmt.Fprintf(os.Stderr, "slow job %v: %s\n", d, jobs[i].describe(img))
				}
			}
		}()
	}
	for i := range jobs {
		if !jobs[i].sequential() {
			ch <- i
		}
	}
	close(ch)
	wg.Wait()
	for i := range jobs {
		if jobs[i].sequential() {
			results[i], errs[i] = img.run(jobs[i])
		}
	}
	for _, e := range errs {
		if e != nil {
			return nil, e
		}
	}
	return results, nil
}

// Gen: n is the case budget; a job (one corrupted copy) yields about four cases.
func Gen(r *vk.Run, n int) error {
	shaCases(r)
	perImage := 120
	images := (n/4 + perImage - 1) / perImage
	if images < len(configs) {
		images = len(configs)
		perImage = n / 4 / images
		if perImage < 10 {
			perImage = 10
		}
	}
	ops, njobs := 0, 0
	for k := 0; k < images; k++ {
		cfgIdx, round := k%len(configs), k/len(configs)
		rng := rngFor(r.Seed, round, cfgIdx)
		img, err := build(configs[cfgIdx], rng)
		if err != nil {
			return fmt.Errorf("building %s: %v", configs[cfgIdx].name, err)
		}
		img.pristineCases(r, round, cfgIdx)
		jobs := plan(cfgIdx, img, rng, perImage)
		results, err := img.runAll(jobs)
		if err != nil {
			os.RemoveAll(img.dir)
			return err
		}
		for i, j := range jobs {
			img.emit(r, round, cfgIdx, i, j, results[i])
			ops += results[i].ops
		}
		njobs += len(jobs)
		os.RemoveAll(img.dir)
	}
	r.Stats["~corrupted-copies"] = njobs
	r.Stats["~api-calls-on-corrupted-copies"] = ops
	return nil
}

// Replay rebuilds the store of the recorded case (same seed, round and configuration give the same
// bytes: the clock is injected), applies the recorded patches and re-runs the reads.
func Replay(r *vk.Run, c map[string]any) error {
	kind, _ := c["kind"].(string)
	if kind == "sha" {
		in, _ := hex.DecodeString(c["in"].(string))
		out := sha256.Sum256(in)
		r.Case(fmt.Sprintf("CSha %s %s", vk.Hex(in), vk.Hex(out[:])), map[string]any{"kind": "sha", "in": c["in"]}, "sha256", true)
		return nil
	}
	num := func(k string) int {
		f, _ := c[k].(float64)
		return int(f)
	}
	seed, round, cfgIdx := int64(num("seed")), num("round"), num("cfg")
	if cfgIdx < 0 || cfgIdx >= len(configs) {
		return fmt.Errorf("bad cfg index")
	}
	r.Seed = seed
	rng := rngFor(seed, round, cfgIdx)
	img, err := build(configs[cfgIdx], rng)
	if err != nil {
		return err
	}
	defer os.RemoveAll(img.dir)
	spec, _ := c["jobspec"].(map[string]any)
	if spec == nil {
		img.pristineCases(r, round, cfgIdx)
		return nil
	}
	j := &job{cfgIdx: cfgIdx}
	f, _ := spec["target"].(float64)
	j.target = int(f)
	j.class, _ = spec["class"].(string)
	j.kind, _ = spec["kind"].(string)
	j.skip, _ = spec["skip"].(bool)
	j.rebuild, _ = spec["rebuild"].(bool)
	ps, _ := spec["patches"].([]any)
	for _, p := range ps {
		m := p.(map[string]any)
		vl, _ := m["vlog"].(float64)
		off, _ := m["off"].(float64)
		data, _ := hex.DecodeString(m["data"].(string))
		j.patches = append(j.patches, patch{int(vl), int64(off), data})
	}
	if j.target >= len(img.txs) {
		return fmt.Errorf("rebuilt store has %d txs", len(img.txs))
	}
	res, err := img.run(j)
	if err != nil {
		return err
	}
	img.emit(r, round, cfgIdx, 0, j, res)
	return nil
}

func (j *job) sequential() bool { return j.kind == "vlen-huge" || j.kind == "vlen-longer-compressed" }
