package main

import (
	"verif/harness/c09"
	"verif/harness/vk"
)

func main() { vk.Main("Tie.C09", c09.Gen, c09.Replay) }
