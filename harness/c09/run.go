package c09

import (
	"bytes"
	"context"
	"crypto/sha256"
	"encoding/binary"
	"fmt"
	"os"
	"path/filepath"
	"reflect"
	"runtime"
	"runtime/pprof"
	"sort"
	"strings"
	"time"

	"github.com/codenotary/immudb/embedded/store"
)

// a call is a hang when it has not returned after this long (generous: the machine may be loaded)
var opTimeout = 120 * time.Second

func init() {
	if v := os.Getenv("C09_OP_TIMEOUT"); v != "" {
		if d, err := time.ParseDuration(v); err == nil {
			opTimeout = d
		}
	}
}

// outcome of one API call on the corrupted copy
type outcome struct {
	panicked bool
	panicMsg string
	hung     bool
	err      error
}

func (o outcome) ok() bool { return !o.panicked && !o.hung && o.err == nil }
func (o outcome) class() string {
	switch {
	case o.hung:
		return "hang"
	case o.panicked:
		return "panic"
	case o.err != nil:
		return "error"
	}
	return "ok"
}

// runOp runs f under recover() and a timeout.
func runOp(f func() error) outcome {
	ch := make(chan outcome, 1)
	go func() {
		var o outcome
		defer func() {
			if r := recover(); r != nil {
				o.panicked = true
				o.panicMsg = fmt.Sprint(r)
			}
			ch <- o
		}()
		o.err = f()
	}()
	select {
	case o := <-ch:
		return o
	case <-time.After(opTimeout):
		if os.Getenv("C09_DEBUG") == "stacks" {
			pprof.Lookup("goroutine").WriteTo(os.Stderr, 1)
		}
		return outcome{hung: true}
	}
}

// what a read returned (copied out of the holder)
type txSnap struct {
	hdr     *store.TxHeader
	entries []entryInfo
}

func snapTx(tx *store.Tx) *txSnap {
	s := &txSnap{hdr: tx.Header()}
	for _, e := range tx.Entries() {
		s.entries = append(s.entries, entryInfo{key: e.Key(), md: e.Metadata(), vLen: e.VLen(), vOff: e.VOff(), hVal: e.HVal()})
	}
	return s
}

func mdBytes(md *store.KVMetadata) []byte {
	if md == nil {
		return nil
	}
	return md.Bytes()
}

func txmdBytes(md *store.TxMetadata) []byte {
	if md == nil {
		return nil
	}
	return md.Bytes()
}

func diffHdr(a, b *store.TxHeader) []string {
	var d []string
	if a.ID != b.ID {
		d = append(d, "ID")
	}
	if a.Ts != b.Ts {
		d = append(d, "Ts")
	}
	if a.BlTxID != b.BlTxID {
		d = append(d, "BlTxID")
	}
	if a.BlRoot != b.BlRoot {
		d = append(d, "BlRoot")
	}
	if a.PrevAlh != b.PrevAlh {
		d = append(d, "PrevAlh")
	}
	if a.Version != b.Version {
		d = append(d, "Version")
	}
	if !bytes.Equal(txmdBytes(a.Metadata), txmdBytes(b.Metadata)) {
		d = append(d, "TxMetadata")
	}
	if a.NEntries != b.NEntries {
		d = append(d, "NEntries")
	}
	if a.Eh != b.Eh {
		d = append(d, "Eh")
	}
	return d
}

// diffTx lists the fields in which what was read differs from the committed transaction.
func diffTx(got *txSnap, want *txInfo) []string {
	d := diffHdr(got.hdr, want.hdr)
	set := map[string]bool{}
	if len(got.entries) != len(want.entries) {
		set["entries"] = true
	} else {
		for i := range got.entries {
			g, w := &got.entries[i], &want.entries[i]
			if !bytes.Equal(g.key, w.key) {
				set["key"] = true
			}
			if !bytes.Equal(mdBytes(g.md), mdBytes(w.md)) {
				set["kvmd"] = true
			}
			if g.vLen != w.vLen {
				set["vLen"] = true
			}
			if g.vOff != w.vOff {
				set["vOff"] = true
			}
			if g.hVal != w.hVal {
				set["hVal"] = true
			}
		}
	}
	var es []string
	for k := range set {
		es = append(es, k)
	}
	sort.Strings(es)
	return append(d, es...)
}

// one value-reading call of the session: ReadValue(e) or the value part of ExportTx (entries es)
type sessOp struct {
	isExp bool
	e     entryInfo
	es    []entryInfo
	o     outcome
	val   []byte
	trunc bool
	vals  [][]byte
	viol  bool
}

type valRes struct {
	e   entryInfo // the (vLen, vOff, hVal) the value was asked with
	o   outcome
	val []byte
}

type jobResult struct {
	open     outcome
	readTx   outcome
	tx       *txSnap
	readSkip outcome
	txSkip   *txSnap
	didSkip  bool
	readHdr  outcome
	didHdr   bool
	hdr      *store.TxHeader
	sess     []sessOp // value reads made on the first opened store, in order (the value cache carries over)
	findings []string
	ops      int
}

func (img *image) valueViolation(t *txInfo, idx int, v *valRes) bool {
	if v.o.panicked || v.o.hung {
		return true
	}
	return v.o.err == nil && idx < len(t.entries) && !bytes.Equal(v.val, t.entries[idx].value)
}

// run applies the job's patches to a copy of the pristine directory, opens it and performs the
// integrity-checked reads; every read must fail or return the committed content.
func (img *image) run(j *job) (*jobResult, error) {
	res := &jobResult{}
	dir, err := os.MkdirTemp("", "vh-c09-c")
	if err != nil {
		return nil, err
	}
	defer os.RemoveAll(dir)
	if err := copyDir(img.dir, dir); err != nil {
		return nil, err
	}
	for _, p := range j.patches {
		sub := "tx"
		if p.vlog >= 0 {
			sub = fmt.Sprintf("val_%d", p.vlog)
		}
		if err := patchLogical(filepath.Join(dir, sub), img.cfg.fileSize, p.off, p.data); err != nil {
			return nil, err
		}
	}
	desc := j.describe(img)
	// every finding starts with a signature  sig=<op>/<result>/<diagnosis>;  the diagnosis names the
	// exact circumstance when the harness recognises it, and is "other" otherwise
	finding := func(op, result, diag, detail string) {
		res.findings = append(res.findings, fmt.Sprintf("sig=%s/%s/%s; %s op=%s result=%s %s", op, result, diag, desc, op, result, detail))
	}
	family := ""
	switch j.class {
	case "rewrite":
		family = "consistent-rewrite"
	case "relocate":
		family = "relocated-record"
	}
	altered := func(d []string) string { // diagnosis of a transaction read that differs in fields d
		if family != "" {
			return family
		}
		only := len(d) > 0
		for _, f := range d {
			if f != "vLen" && f != "vOff" {
				only = false
			}
		}
		if only {
			return "vLen-vOff-only"
		}
		return "other"
	}
	vlogMissing := func(es []entryInfo) bool { // an entry with vLen > 0 names a value log that s.vLogs does not hold
		if img.cfg.mode() != 2 {
			return false
		}
		for _, e := range es {
			id := int(byte(e.vOff >> 56))
			if e.vLen > 0 && id > img.cfg.ioConc {
				return true
			}
		}
		return false
	}
	bad := func(op string, o outcome, diag string) bool { // panic / hang are violations whatever the content
		if o.panicked {
			finding(op, "panic", diag, "("+firstLine(o.panicMsg)+")")
			return true
		}
		if o.hung {
			finding(op, "hang", diag, "")
			return true
		}
		return false
	}

	var st *store.ImmuStore
	res.open = runOp(func() error {
		var e error
		st, e = store.Open(dir, img.cfg.opts())
		return e
	})
	if bad("Open", res.open, "other") || res.open.err != nil {
		return res, nil
	}
	hungStore := false
	defer func() {
		if !hungStore {
			runOp(func() error { return st.Close() })
		}
	}()
	ctx := context.Background()
	holder := store.NewTx(st.MaxTxEntries(), st.MaxKeyLen())

	targets := []int{j.target}
	if j.target < 0 {
		targets = nil
		for k := range img.txs {
			targets = append(targets, k)
		}
	}
	noMoreExports := false
	for _, tk := range targets {
		t := img.txs[tk]
		first := tk == targets[0]

		// ---- ReadTx
		var snap *txSnap
		o := runOp(func() error {
			e := st.ReadTx(t.id, false, holder)
			if e == nil {
				snap = snapTx(holder)
			}
			return e
		})
		res.ops++
		if first {
			res.readTx, res.tx = o, snap
		}
		if bad("ReadTx", o, "other") {
			hungStore = o.hung
			return res, nil
		}
		if o.ok() {
			if d := diffTx(snap, t); len(d) > 0 {
				finding("ReadTx", "altered-content", altered(d), "differs={"+strings.Join(d, ",")+"}")
			}
		}
		// ---- ReadValue on every entry of what ReadTx returned
		if o.ok() {
			reps := 2 // every value is read twice: the second read may be answered by the value cache
			if j.sequential() {
				reps = 1
			}
			for i := range snap.entries {
				for rep := 0; rep < reps; rep++ {
					e := snap.entries[i]
					vr := valRes{e: e}
					var ms0, ms1 runtime.MemStats
					if j.sequential() {
						runtime.ReadMemStats(&ms0)
					}
					vr.o = runOp(func() error {
						if err := st.ReadTx(t.id, false, holder); err != nil {
							return err
						}
						v, err := st.ReadValue(holder.Entries()[i])
						vr.val = append([]byte{}, v...)
						return err
					})
					res.ops++
					if j.sequential() {
						runtime.ReadMemStats(&ms1)
						d := ms1.TotalAlloc - ms0.TotalAlloc
						if os.Getenv("C09_DEBUG") != "" {
							fmt.Fprintf(os.Stderr, "probe %s entry %d vLen %d: %s err=%v alloc=%d MiB\n", j.kind, i, e.vLen, vr.o.class(), vr.o.err, d>>20)
						}
						if j.kind == "vlen-huge" && d >= hugeVLen/2 && e.vLen >= hugeVLen {
							finding("ReadValue", "unbounded-allocation", "vLen", fmt.Sprintf("entry=%d vLen=%d allocated>=%dMiB although MaxValueLen=%d", i, e.vLen, d>>20, maxValueLen))
						}
						if j.kind == "vlen-longer-compressed" && d >= 1<<28 && i == 0 {
							finding("ReadValue", "unbounded-allocation", "compressed-vlog-vLen-longer", fmt.Sprintf("entry=%d vLen=%d (committed %d) allocated>=%dMiB although MaxValueLen=%d", i, e.vLen, t.entries[i].vLen, d>>20, maxValueLen))
						}
					}
					if first && !vr.o.hung {
						res.sess = append(res.sess, sessOp{e: e, o: vr.o, val: vr.val, viol: img.valueViolation(t, i, &vr)})
					}
					detail := fmt.Sprintf("entry=%d read=%d vLen=%d vLogID=%d", i, rep+1, e.vLen, byte(e.vOff>>56))
					diag := "other"
					if vr.o.panicked && vlogMissing([]entryInfo{e}) && strings.Contains(vr.o.panicMsg, "nil pointer") {
						diag = "vlog-id-not-in-map"
					}
					if bad("ReadValue", vr.o, diag) {
						if vr.o.hung {
							hungStore = true
							return res, nil
						}
						continue
					}
					if vr.o.ok() && i < len(t.entries) && !bytes.Equal(vr.val, t.entries[i].value) {
						diag := "other"
						if family != "" {
							diag = family
						} else if e.vLen == 0 && len(vr.val) == 0 && e.hVal == t.entries[i].hVal {
							diag = "vLen-0-empty-value"
						}
						finding("ReadValue", "altered-content", diag, detail+fmt.Sprintf(" got=%x want=%x", vr.val, t.entries[i].value))
					}
				}
			}
		}
		if j.kind == "vlen-huge" || j.kind == "vlen-longer-compressed" {
			return res, nil
		}
		// ---- ReadTx without integrity check (tie only: nothing is promised about its content)
		if first && j.skip {
			var ss *txSnap
			res.readSkip = runOp(func() error {
				e := st.ReadTx(t.id, true, holder)
				if e == nil {
					ss = snapTx(holder)
				}
				return e
			})
			res.txSkip, res.didSkip = ss, true
			res.ops++
			if bad("ReadTx(skipIntegrityCheck)", res.readSkip, "other") {
				hungStore = res.readSkip.hung
				return res, nil
			}
		}
		// ---- ReadTxHeader
		var hdr *store.TxHeader
		o = runOp(func() error {
			var e error
			hdr, e = st.ReadTxHeader(t.id, false, false)
			return e
		})
		res.ops++
		if first {
			res.readHdr, res.hdr, res.didHdr = o, hdr, true
		}
		if bad("ReadTxHeader", o, "other") {
			hungStore = o.hung
			return res, nil
		}
		if o.ok() {
			if d := diffHdr(hdr, t.hdr); len(d) > 0 {
				finding("ReadTxHeader", "altered-content", altered(d), "differs={"+strings.Join(d, ",")+"}")
			}
		}
		// ---- ReadTxEntry for every committed key
		for i := range t.entries {
			var ge entryInfo
			o = runOp(func() error {
				e, _, err := st.ReadTxEntry(t.id, t.entries[i].key, false)
				if err == nil {
					ge = entryInfo{key: e.Key(), md: e.Metadata(), vLen: e.VLen(), vOff: e.VOff(), hVal: e.HVal()}
				}
				return err
			})
			res.ops++
			if bad("ReadTxEntry", o, "other") {
				hungStore = o.hung
				return res, nil
			}
			if o.ok() {
				w := &t.entries[i]
				var d []string
				if !bytes.Equal(mdBytes(ge.md), mdBytes(w.md)) {
					d = append(d, "kvmd")
				}
				if ge.vLen != w.vLen {
					d = append(d, "vLen")
				}
				if ge.vOff != w.vOff {
					d = append(d, "vOff")
				}
				if ge.hVal != w.hVal {
					d = append(d, "hVal")
				}
				if len(d) > 0 {
					finding("ReadTxEntry", "altered-content", altered(d), "differs={"+strings.Join(d, ",")+"}")
				}
			}
		}
		// ---- ExportTx, twice (the second run may be answered by the value cache)
		for rep := 0; rep < 2; rep++ {
			var exp []byte
			o = outcome{err: errSkipped}
			if !noMoreExports {
				o = runOp(func() error {
					var e error
					exp, e = st.ExportTx(t.id, false, false, holder)
					exp = append([]byte{}, exp...)
					return e
				})
				res.ops++
			}
			if first && !noMoreExports && snap != nil && !o.hung {
				op := sessOp{isExp: true, es: snap.entries, o: o, viol: o.panicked}
				okParse := true
				if o.ok() {
					var perr error
					op.trunc, op.vals, perr = parseExport(exp, len(snap.entries))
					if perr != nil {
						finding("ExportTx", "malformed-export", "other", perr.Error())
						okParse = false
					}
					op.viol = !bytes.Equal(exp, t.export)
				}
				if okParse {
					res.sess = append(res.sess, op)
				}
			}
			ediag := "other"
			if o.panicked && snap != nil && vlogMissing(snap.entries) && strings.Contains(o.panicMsg, "nil pointer") {
				ediag = "vlog-id-not-in-map"
			}
			if bad("ExportTx", o, ediag) {
				hungStore = o.hung
				return res, nil
			}
			if o.ok() && !bytes.Equal(exp, t.export) {
				diag := "other"
				if family != "" {
					diag = family
				} else if exportedAsTruncated(exp, t, snap) {
					// the values are replaced by their committed digests and the export is flagged
					// "values truncated": nothing false is exported, but the values are silently dropped
					diag = "exported-as-truncated" // a read past the end of the value log (repaired by 6fe0104)
					if img.cfg.compression != 0 {
						diag = "exported-as-truncated-compressed" // a damaged compressed block reads short
					} else if snap != nil && !img.cfg.embedded {
						for _, e := range snap.entries {
							if e.vLen > 0 && byte(e.vOff>>56) == 0 {
								diag = "exported-as-truncated-no-vlog" // vLogID 0: "replicated without its value"
							}
						}
					}
				}
				finding("ExportTx", "altered-content", diag, fmt.Sprintf("run=%d got=%x", rep+1, sha256.Sum256(exp)))
			}
			if o.err != nil && strings.Contains(o.err.Error(), "partially truncated") {
				// ExportTx returns from this path with _valBsMux held (property C14): no further
				// ExportTx on this store, it would block for that reason
				noMoreExports = true
			}
		}
		// ---- TxReader: this transaction, then the next one (PrevAlh chain check)
		var s1, s2 *txSnap
		var e2 error
		o = runOp(func() error {
			rd, err := st.NewTxReader(t.id, false, holder)
			if err != nil {
				return err
			}
			tx, err := rd.Read()
			if err != nil {
				return err
			}
			s1 = snapTx(tx)
			if tk+1 < len(img.txs) {
				tx, e2 = rd.Read()
				if e2 == nil {
					s2 = snapTx(tx)
				}
			}
			return nil
		})
		res.ops++
		if bad("TxReader.Read", o, "other") {
			hungStore = o.hung
			return res, nil
		}
		if o.ok() {
			if d := diffTx(s1, t); len(d) > 0 {
				chain := "next-read-failed"
				if tk+1 >= len(img.txs) {
					chain = "no-next-tx"
				} else if e2 == nil {
					chain = "next-read-ok"
				}
				finding("TxReader.Read", "altered-content", altered(d), "differs={"+strings.Join(d, ",")+"} chain="+chain)
			}
			if s2 != nil {
				if d := diffTx(s2, img.txs[tk+1]); len(d) > 0 {
					finding("TxReader.Read(next)", "altered-content", "other", "differs={"+strings.Join(d, ",")+"}")
				}
			}
		}
		// ---- descending reader from the next transaction (Alh chain check on this one)
		if tk+1 < len(img.txs) {
			var sd *txSnap
			o = runOp(func() error {
				rd, err := st.NewTxReader(t.id+1, true, holder)
				if err != nil {
					return err
				}
				if _, err := rd.Read(); err != nil {
					return err
				}
				tx, err := rd.Read()
				if err != nil {
					return err
				}
				sd = snapTx(tx)
				return nil
			})
			res.ops++
			if bad("TxReader.Read(desc)", o, "other") {
				hungStore = o.hung
				return res, nil
			}
			if o.ok() {
				if d := diffTx(sd, t); len(d) > 0 {
					finding("TxReader.Read(desc)", "altered-content", altered(d), "differs={"+strings.Join(d, ",")+"}")
				}
			}
		}
		// ---- DualProof (this tx -> last committed)
		var proof *store.DualProof
		o = runOp(func() error {
			src, err := st.ReadTxHeader(t.id, false, false)
			if err != nil {
				return err
			}
			dst, err := st.ReadTxHeader(img.txs[len(img.txs)-1].id, false, false)
			if err != nil {
				return err
			}
			proof, err = st.DualProof(src, dst)
			return err
		})
		res.ops++
		if bad("DualProof", o, "other") {
			hungStore = o.hung
			return res, nil
		}
		if o.ok() && !reflect.DeepEqual(proof, t.proof) {
			diag := "other"
			if family != "" {
				diag = family
			}
			finding("DualProof", "altered-content", diag, "")
		}
	}

	// ---- index rebuild from the corrupted logs
	if j.rebuild {
		runOp(func() error { return st.Close() })
		os.RemoveAll(filepath.Join(dir, "index"))
		var st2 *store.ImmuStore
		o := runOp(func() error {
			var e error
			st2, e = store.Open(dir, img.cfg.opts())
			return e
		})
		st = st2
		if bad("Open(index rebuild)", o, "other") {
			hungStore = true
			return res, nil
		}
		if o.err != nil {
			hungStore = true // nothing to close
			return res, nil
		}
		last := img.txs[len(img.txs)-1].id
		wctx, cancel := context.WithTimeout(ctx, 500*time.Millisecond)
		st.WaitForIndexingUpto(wctx, last) // an indexer that stops at the altered transaction is fine
		cancel()

		type orig struct {
			t *txInfo
			e *entryInfo
		}
		originals := map[string]orig{}
		for _, t := range img.txs {
			for i := range t.entries {
				originals[string(t.entries[i].key)] = orig{t, &t.entries[i]}
			}
		}
		// checkRef: whatever the index serves under key must be the committed entry of that key
		// (transaction, value digest, key metadata) and must resolve, every time, to the committed
		// value or to an error
		checkRef := func(op string, key []byte, ref store.ValueRef) bool {
			o, ok := originals[string(key)]
			if !ok {
				diag := "uncommitted-key-served"
				if family != "" {
					diag = family
				}
				finding(op, "altered-content", diag, fmt.Sprintf("key=%x tx=%d was never committed", key, ref.Tx()))
				return true
			}
			var d []string
			if ref.Tx() != o.t.id {
				d = append(d, "tx")
			}
			if ref.HVal() != o.e.hVal {
				d = append(d, "hVal")
			}
			if !bytes.Equal(mdBytes(ref.KVMetadata()), mdBytes(o.e.md)) {
				d = append(d, "kvmd")
			}
			if len(d) > 0 {
				diag := "other"
				if family != "" {
					diag = family
				}
				finding(op, "altered-content", diag, fmt.Sprintf("key=%x differs={%s}", key, strings.Join(d, ",")))
			}
			for rep := 0; rep < 2; rep++ {
				var got []byte
				ro := runOp(func() error {
					v, err := ref.Resolve()
					got = append([]byte{}, v...)
					return err
				})
				res.ops++
				if bad(op+"+Resolve", ro, "other") {
					return !ro.hung
				}
				if ro.ok() && !bytes.Equal(got, o.e.value) {
					diag := "other"
					if family != "" {
						diag = family
					} else if len(got) == 0 && len(o.e.value) > 0 && ref.Tx() == o.t.id && ref.HVal() == o.e.hVal && ref.Len() == 0 {
						diag = "vLen-0-empty-value"
					}
					finding(op+"+Resolve", "altered-content", diag, fmt.Sprintf("key=%x resolve=%d got=%x want=%x", key, rep+1, got, o.e.value))
				}
			}
			return true
		}

		// (1) scan of the whole rebuilt index, no filters (deleted entries are listed too)
		o = runOp(func() error {
			snap, err := st.SnapshotMustIncludeTxID(ctx, nil, 0)
			if err != nil {
				return err
			}
			defer snap.Close()
			rd, err := snap.NewKeyReader(store.KeyReaderSpec{})
			if err != nil {
				return err
			}
			defer rd.Close()
			for n := 0; n < 1000; n++ {
				key, ref, err := rd.Read(ctx)
				if err != nil {
					return nil // ErrNoMoreEntries or a read error: both fine
				}
				checkRef("Scan(index rebuild)", append([]byte{}, key...), ref)
			}
			return nil
		})
		res.ops++
		if bad("Scan(index rebuild)", o, "other") && o.hung {
			hungStore = true
			return res, nil
		}
		// (2) point lookups of every committed key, (3) of the key bytes as altered, (4) by prefix
		keys := [][]byte{}
		for _, t := range img.txs {
			for i := range t.entries {
				keys = append(keys, t.entries[i].key)
			}
		}
		nOrig := len(keys)
		if j.target >= 0 {
			t := img.txs[j.target]
			rec := clone(t.rec)
			for _, p := range j.patches {
				if p.vlog >= 0 {
					continue
				}
				for k, b := range p.data {
					if x := p.off + int64(k) - t.off; x >= 0 && x < int64(len(rec)) {
						rec[x] = b
					}
				}
			}
			for _, f := range t.fields {
				if f.class == "entry.key" && !bytes.Equal(rec[f.lo:f.hi], t.rec[f.lo:f.hi]) {
					keys = append(keys, clone(rec[f.lo:f.hi]))
				}
			}
			if nfs, err := parseFields(rec); err == nil { // the layout as the altered lengths define it
				for _, f := range nfs {
					if f.class == "entry.key" {
						if _, ok := originals[string(rec[f.lo:f.hi])]; !ok {
							keys = append(keys, clone(rec[f.lo:f.hi]))
						}
					}
				}
			}
		}
		for ki, key := range keys {
			var ref store.ValueRef
			o := runOp(func() error {
				var err error
				ref, err = st.Get(ctx, key)
				return err
			})
			res.ops++
			if bad("Get(index rebuild)", o, "other") {
				if o.hung {
					hungStore = true
					return res, nil
				}
				continue
			}
			if o.ok() && !checkRef("Get(index rebuild)", key, ref) {
				hungStore = true
				return res, nil
			}
			if ki >= nOrig {
				continue
			}
			var pk []byte
			o = runOp(func() error {
				var err error
				pk, ref, err = st.GetWithPrefix(ctx, key, nil)
				pk = append([]byte{}, pk...)
				return err
			})
			res.ops++
			if bad("GetWithPrefix(index rebuild)", o, "other") {
				if o.hung {
					hungStore = true
					return res, nil
				}
				continue
			}
			if o.ok() && !checkRef("GetWithPrefix(index rebuild)", pk, ref) {
				hungStore = true
				return res, nil
			}
		}
	}
	return res, nil
}

func firstLine(s string) string {
	if i := strings.IndexByte(s, '\n'); i >= 0 {
		s = s[:i]
	}
	if len(s) > 120 {
		s = s[:120]
	}
	return s
}

var errSkipped = fmt.Errorf("skipped")

// exportedAsTruncated: the export equals the committed one except that every value is replaced by
// its committed digest and the trailing flag says "values truncated".
func exportedAsTruncated(exp []byte, t *txInfo, snap *txSnap) bool {
	if len(exp) == 0 || exp[len(exp)-1] != 1 || len(t.export) == 0 || t.export[len(t.export)-1] != 0 {
		return false
	}
	// rebuild the expected truncated form from the committed export
	src := t.export
	if len(src) < 4 {
		return false
	}
	hl := int(binary.BigEndian.Uint32(src))
	i := 4 + hl
	if i > len(src) {
		return false
	}
	want := append([]byte{}, src[:i]...)
	for k := range t.entries {
		if i+2 > len(src) {
			return false
		}
		kl := int(binary.BigEndian.Uint16(src[i:]))
		j := i + 2 + kl
		if j+2 > len(src) {
			return false
		}
		ml := int(binary.BigEndian.Uint16(src[j:]))
		j += 2 + ml
		if j+4 > len(src) {
			return false
		}
		vl := int(binary.BigEndian.Uint32(src[j:]))
		want = append(want, src[i:j]...)
		want = binary.BigEndian.AppendUint32(want, 32)
		want = append(want, t.entries[k].hVal[:]...)
		i = j + 4 + vl
	}
	want = append(want, 0, 1, 1)
	return bytes.Equal(want, exp)
}

// parseExport splits an ExportTx result into the truncated flag and the per-entry value payloads.
func parseExport(exp []byte, n int) (bool, [][]byte, error) {
	if len(exp) < 4 {
		return false, nil, fmt.Errorf("short export")
	}
	i := 4 + int(binary.BigEndian.Uint32(exp))
	var vals [][]byte
	for k := 0; k < n; k++ {
		if i+2 > len(exp) {
			return false, nil, fmt.Errorf("short export (key %d)", k)
		}
		i += 2 + int(binary.BigEndian.Uint16(exp[i:]))
		if i+2 > len(exp) {
			return false, nil, fmt.Errorf("short export (md %d)", k)
		}
		i += 2 + int(binary.BigEndian.Uint16(exp[i:]))
		if i+4 > len(exp) {
			return false, nil, fmt.Errorf("short export (vlen %d)", k)
		}
		vl := int(binary.BigEndian.Uint32(exp[i:]))
		i += 4
		if i+vl > len(exp) {
			return false, nil, fmt.Errorf("short export (value %d)", k)
		}
		vals = append(vals, append([]byte{}, exp[i:i+vl]...))
		i += vl
	}
	if i+3 != len(exp) || exp[i] != 0 || exp[i+1] != 1 || exp[i+2] > 1 {
		return false, nil, fmt.Errorf("bad export trailer")
	}
	return exp[i+2] == 1, vals, nil
}
