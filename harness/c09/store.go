// Package c09: corrupted copies of real store directories (C09). This file builds the pristine
// stores, records what they contain, and gives byte-level access to the logical logs that the
// multi-file appendables spread over chunk files.
package c09

import (
	"context"
	"crypto/sha256"
	"encoding/binary"
	"fmt"
	"io"
	"math/rand"
	"os"
	"path/filepath"
	"sort"
	"time"

	"github.com/codenotary/immudb/embedded/appendable"
	"github.com/codenotary/immudb/embedded/logger"
	"github.com/codenotary/immudb/embedded/store"
)

const (
	maxTxEntries = 6
	maxKeyLen    = 12
	maxValueLen  = 64
	farFuture    = 4102444800 // 2100-01-01: entries that expire never do so during a run
)

type storeCfg struct {
	name        string
	ver         int  // tx header version written
	embedded    bool // values inside the tx log
	ioConc      int  // number of value logs when not embedded
	fileSize    int
	compression int
	vlogCache   int  // Options.VLogCacheSize (0 = no value cache)
	rewind      bool // the tx log holds the record of a discarded pre-committed transaction between committed ones
}

var configs = []storeCfg{
	{"v1-single", 1, false, 1, 256, appendable.NoCompression, 0, false},
	{"v0-single-vcache", 0, false, 1, 200, appendable.NoCompression, 64, false},
	{"v1-embedded-vcache", 1, true, 1, 300, appendable.NoCompression, 64, false},
	{"v0-embedded", 0, true, 1, 4096, appendable.NoCompression, 0, false},
	{"v1-multi", 1, false, 3, 128, appendable.NoCompression, 0, false},
	{"v0-multi-vcache", 0, false, 2, 4096, appendable.NoCompression, 64, false},
	{"v1-flate-vcache", 1, false, 1, 512, appendable.FlateCompression, 64, false},
	{"v1-single-deadrecord", 1, false, 1, 160, appendable.NoCompression, 0, true},
}

// 0 embedded, 1 single value log, 2 several value logs (Tie.C09.vmode_of)
func (c storeCfg) mode() int {
	if c.embedded {
		return 0
	}
	if c.ioConc == 1 {
		return 1
	}
	return 2
}

func quietLogger() logger.Logger {
	return logger.NewSimpleLoggerWithLevel("vh", io.Discard, logger.LogError)
}

func (c storeCfg) opts() *store.Options {
	clock := int64(1700000000)
	o := store.DefaultOptions().WithSynced(false).WithMaxConcurrency(2).WithFileSize(c.fileSize).
		WithMaxTxEntries(maxTxEntries).WithMaxKeyLen(maxKeyLen).WithMaxValueLen(maxValueLen).
		WithWriteTxHeaderVersion(c.ver).WithEmbeddedValues(c.embedded).WithMaxIOConcurrency(c.ioConc).
		WithCompressionFormat(c.compression).WithVLogCacheSize(c.vlogCache).
		WithTimeFunc(func() time.Time { clock++; return time.Unix(clock, 0) }).
		WithLogger(quietLogger())
	return o
}

type entryInfo struct {
	key   []byte
	md    *store.KVMetadata
	vLen  int
	vOff  int64
	hVal  [sha256.Size]byte
	value []byte
}

type field struct {
	name   string // e.g. hdr.Ts, e1.vLen, alh
	class  string // e.g. hdr.Ts, entry.vLen, alh
	lo, hi int    // byte range relative to the start of the record
	entry  int    // entry index or -1
}

type txInfo struct {
	id      uint64
	off     int64 // logical offset of the record in the tx log (commit-log entry)
	size    int
	rec     []byte
	hdr     *store.TxHeader
	alh     [sha256.Size]byte
	entries []entryInfo
	fields  []field
	export  []byte
	proof   *store.DualProof // dual proof (id -> last)
}

type image struct {
	cfg   storeCfg
	dir   string
	txlog []byte   // logical tx log
	vlogs [][]byte // logical value logs (physical data region when compressed)
	txs   []*txInfo
}

// ---------------------------------------------------------------------------------------------
// logical logs <-> chunk files. A chunk file is  len(4) metadata(len) data; chunk i of a log holds
// the logical range [i*fileSize, (i+1)*fileSize).

func chunkFiles(dir string) ([]string, error) {
	es, err := os.ReadDir(dir)
	if err != nil {
		return nil, err
	}
	var names []string
	for _, e := range es {
		if !e.IsDir() {
			names = append(names, e.Name())
		}
	}
	sort.Strings(names)
	return names, nil
}

func readLogical(dir string, fileSize int) ([]byte, error) {
	names, err := chunkFiles(dir)
	if err != nil {
		return nil, err
	}
	var out []byte
	for i, n := range names {
		var idx int
		fmt.Sscanf(n, "%08d", &idx)
		if idx != i {
			return nil, fmt.Errorf("unexpected chunk file %s in %s", n, dir)
		}
		b, err := os.ReadFile(filepath.Join(dir, n))
		if err != nil {
			return nil, err
		}
		if len(b) < 4 {
			return nil, fmt.Errorf("short chunk file %s", n)
		}
		base := 4 + int(binary.BigEndian.Uint32(b))
		data := b[base:]
		if i < len(names)-1 && len(data) != fileSize {
			return nil, fmt.Errorf("chunk %s holds %d bytes, expected %d", n, len(data), fileSize)
		}
		out = append(out, data...)
	}
	return out, nil
}

// patchLogical overwrites logical bytes [off, off+len(data)) of the log stored in dir.
func patchLogical(dir string, fileSize int, off int64, data []byte) error {
	names, err := chunkFiles(dir)
	if err != nil {
		return err
	}
	for k := 0; k < len(data); {
		lo := off + int64(k)
		ci := int(lo / int64(fileSize))
		within := int(lo % int64(fileSize))
		if ci >= len(names) {
			return fmt.Errorf("patch beyond the last chunk of %s", dir)
		}
		n := fileSize - within
		if n > len(data)-k {
			n = len(data) - k
		}
		fn := filepath.Join(dir, names[ci])
		f, err := os.OpenFile(fn, os.O_RDWR, 0)
		if err != nil {
			return err
		}
		var l [4]byte
		if _, err := f.ReadAt(l[:], 0); err != nil {
			f.Close()
			return err
		}
		base := 4 + int64(binary.BigEndian.Uint32(l[:]))
		if _, err := f.WriteAt(data[k:k+n], base+int64(within)); err != nil {
			f.Close()
			return err
		}
		f.Close()
		k += n
	}
	return nil
}

func copyDir(src, dst string) error {
	return filepath.Walk(src, func(p string, info os.FileInfo, err error) error {
		if err != nil {
			return err
		}
		rel, _ := filepath.Rel(src, p)
		t := filepath.Join(dst, rel)
		if info.IsDir() {
			return os.MkdirAll(t, 0o755)
		}
		b, err := os.ReadFile(p)
		if err != nil {
			return err
		}
		return os.WriteFile(t, b, 0o755)
	})
}

// ---------------------------------------------------------------------------------------------

// parseFields maps every byte of a record to the field it belongs to (layout of performPrecommit).
func parseFields(rec []byte) ([]field, error) {
	var fs []field
	i := 0
	add := func(name, class string, w, entry int) error {
		if i+w > len(rec) {
			return fmt.Errorf("record too short at %s", name)
		}
		fs = append(fs, field{name, class, i, i + w, entry})
		i += w
		return nil
	}
	for _, f := range []struct {
		n string
		w int
	}{{"hdr.ID", 8}, {"hdr.Ts", 8}, {"hdr.BlTxID", 8}, {"hdr.BlRoot", 32}, {"hdr.PrevAlh", 32}, {"hdr.Version", 2}} {
		if err := add(f.n, f.n, f.w, -1); err != nil {
			return nil, err
		}
	}
	ver := int(binary.BigEndian.Uint16(rec[i-2:]))
	var ne int
	switch ver {
	case 0:
		if err := add("hdr.NEntries", "hdr.NEntries", 2, -1); err != nil {
			return nil, err
		}
		ne = int(binary.BigEndian.Uint16(rec[i-2:]))
	case 1:
		if err := add("hdr.MdLen", "hdr.MdLen", 2, -1); err != nil {
			return nil, err
		}
		mdLen := int(binary.BigEndian.Uint16(rec[i-2:]))
		if mdLen > 0 {
			if err := addTxMd(rec, &i, mdLen, add); err != nil {
				return nil, err
			}
		}
		if err := add("hdr.NEntries", "hdr.NEntries", 4, -1); err != nil {
			return nil, err
		}
		ne = int(binary.BigEndian.Uint32(rec[i-4:]))
	default:
		return nil, fmt.Errorf("unknown version %d", ver)
	}
	for e := 0; e < ne; e++ {
		p := fmt.Sprintf("e%d.", e)
		if err := add(p+"mdLen", "entry.mdLen", 2, e); err != nil {
			return nil, err
		}
		mdLen := int(binary.BigEndian.Uint16(rec[i-2:]))
		if mdLen > 0 {
			if err := addKvMd(rec, &i, mdLen, p, e, add); err != nil {
				return nil, err
			}
		}
		if err := add(p+"kLen", "entry.kLen", 2, e); err != nil {
			return nil, err
		}
		kLen := int(binary.BigEndian.Uint16(rec[i-2:]))
		if err := add(p+"key", "entry.key", kLen, e); err != nil {
			return nil, err
		}
		if err := add(p+"vLen", "entry.vLen", 4, e); err != nil {
			return nil, err
		}
		if err := add(p+"vOff", "entry.vOff", 8, e); err != nil {
			return nil, err
		}
		if err := add(p+"hVal", "entry.hVal", 32, e); err != nil {
			return nil, err
		}
	}
	if err := add("alh", "alh", 32, -1); err != nil {
		return nil, err
	}
	if i != len(rec) {
		return nil, fmt.Errorf("record has %d trailing bytes", len(rec)-i)
	}
	return fs, nil
}

// addTxMd maps the bytes of a (well-formed) tx metadata block to its attributes: code(1), then
// truncatedUptoTx(8) for code 0, or length(2) + payload for code 1 (extra).
func addTxMd(rec []byte, i *int, mdLen int, add func(name, class string, w, entry int) error) error {
	end := *i + mdLen
	if end > len(rec) {
		return fmt.Errorf("tx metadata block beyond the record")
	}
	for k := 0; *i < end; k++ {
		code := rec[*i]
		if err := add(fmt.Sprintf("hdr.Md.code%d", k), "hdr.Md.code", 1, -1); err != nil {
			return err
		}
		switch code {
		case 0:
			if err := add("hdr.Md.truncTx", "hdr.Md.truncTx", 8, -1); err != nil {
				return err
			}
		case 1:
			if err := add("hdr.Md.extraLen", "hdr.Md.extraLen", 2, -1); err != nil {
				return err
			}
			n := int(binary.BigEndian.Uint16(rec[*i-2:]))
			if n > 0 {
				if err := add("hdr.Md.extra", "hdr.Md.extra", n, -1); err != nil {
					return err
				}
			}
		default:
			return fmt.Errorf("unknown tx metadata attribute %d", code)
		}
	}
	if *i != end {
		return fmt.Errorf("tx metadata block overruns its length")
	}
	return nil
}

// addKvMd: code(1), then expiresAt(8) for code 1; codes 0 (deleted) and 2 (non-indexable) carry nothing.
func addKvMd(rec []byte, i *int, mdLen int, p string, e int, add func(name, class string, w, entry int) error) error {
	end := *i + mdLen
	if end > len(rec) {
		return fmt.Errorf("kv metadata block beyond the record")
	}
	for k := 0; *i < end; k++ {
		code := rec[*i]
		if err := add(fmt.Sprintf("%smd.code%d", p, k), "entry.md.code", 1, e); err != nil {
			return err
		}
		if code == 1 {
			if err := add(p+"md.expiresAt", "entry.md.expiresAt", 8, e); err != nil {
				return err
			}
		}
	}
	if *i != end {
		return fmt.Errorf("kv metadata block overruns its length")
	}
	return nil
}

func (t *txInfo) fieldNamed(name string) *field {
	for k := range t.fields {
		if t.fields[k].name == name {
			return &t.fields[k]
		}
	}
	return nil
}

// build creates a store for cfg in a fresh temp dir, commits a few small transactions, records
// what an uncorrupted store returns for each of them, closes it and reads the raw logs.
func build(cfg storeCfg, rng *rand.Rand) (*image, error) {
	dir, err := os.MkdirTemp("", "vh-c09-p")
	if err != nil {
		return nil, err
	}
	img := &image{cfg: cfg, dir: dir}
	st, err := store.Open(dir, cfg.opts())
	if err != nil {
		return nil, err
	}
	ctx := context.Background()
	ntx := 4 + rng.Intn(2)
	vlens := []int{0, 1, 2, 4, 8, 16, 3, 5, 11}
	for t := 0; t < ntx; t++ {
		tx, err := st.NewWriteOnlyTx(ctx)
		if err != nil {
			return nil, err
		}
		if cfg.ver == 1 && t >= 1 {
			// tx metadata: extra only (short), truncation only, both; one near-max extra per run
			md := store.NewTxMetadata()
			switch t % 4 {
			case 1:
				md.WithExtra(randBytes(rng, 2+rng.Intn(3)))
			case 2:
				md.WithTruncatedTxID(uint64(1 + rng.Intn(2)))
			case 3:
				md.WithTruncatedTxID(uint64(1 + rng.Intn(3)))
				n := 1 + rng.Intn(4)
				if cfg.name == "v1-single" {
					n = 250 + rng.Intn(7) // 250..256 = maxExtraLen
				}
				md.WithExtra(randBytes(rng, n))
			}
			if t%4 != 0 {
				tx.WithMetadata(md)
			}
		}
		ne := 1 + rng.Intn(3)
		if t == 0 {
			ne = 1
		}
		for e := 0; e < ne; e++ {
			var md *store.KVMetadata
			if cfg.ver == 1 {
				switch rng.Intn(5) {
				case 1:
					md = store.NewKVMetadata()
					md.AsDeleted(true)
				case 2:
					md = store.NewKVMetadata()
					md.ExpiresAt(time.Unix(farFuture+int64(rng.Intn(1000)), 0))
				case 3:
					md = store.NewKVMetadata()
					md.AsNonIndexable(true)
					if rng.Intn(2) == 0 {
						md.AsDeleted(true)
					}
				}
			}
			vl := vlens[rng.Intn(len(vlens))]
			if t == 1 && e == 0 {
				vl = 1 << uint(rng.Intn(4)) // a power of two: one flipped bit makes vLen 0
			}
			if t <= 1 && vl == 0 {
				vl = 3 // the first two transactions carry only non-empty values (directed jobs rely on it)
			}
			key := append([]byte(fmt.Sprintf("k%d%c", t, 'a'+e)), randBytes(rng, rng.Intn(3))...)
			if err := tx.Set(key, md, randBytes(rng, vl)); err != nil {
				return nil, err
			}
		}
		if _, err := tx.Commit(ctx); err != nil {
			return nil, err
		}
	}
	if cfg.rewind {
		// a big transaction is pre-committed only, synced, then discarded: its record stays in the tx log
		// (DiscardPrecommittedTxsSince does not rewind the log) and the next commit is written after it,
		// so the commit log skips a stretch of well-formed but dead record bytes
		st.SetExternalCommitAllowance(true)
		tx, err := st.NewWriteOnlyTx(ctx)
		if err != nil {
			return nil, err
		}
		for e := 0; e < 4; e++ {
			if err := tx.Set([]byte(fmt.Sprintf("zz%d", e)), nil, randBytes(rng, 40)); err != nil {
				return nil, err
			}
		}
		// the commit call pre-commits and then waits for an allowance that never comes
		cctx, ccancel := context.WithTimeout(ctx, 300*time.Millisecond)
		tx.AsyncCommit(cctx)
		ccancel()
		if err := st.Sync(); err != nil { // the pre-committed record reaches the files
			return nil, err
		}
		pre := st.LastPrecommittedTxID()
		if pre != st.LastCommittedTxID()+1 {
			return nil, fmt.Errorf("rewind: expected one pre-committed transaction, precommitted=%d committed=%d", pre, st.LastCommittedTxID())
		}
		if _, err := st.DiscardPrecommittedTxsSince(pre); err != nil {
			return nil, err
		}
		st.SetExternalCommitAllowance(false)
		tx, err = st.NewWriteOnlyTx(ctx)
		if err != nil {
			return nil, err
		}
		if err := tx.Set([]byte("kz"), nil, randBytes(rng, 3)); err != nil {
			return nil, err
		}
		if _, err := tx.Commit(ctx); err != nil {
			return nil, err
		}
	}
	last := st.LastCommittedTxID()
	wctx, cancel := context.WithTimeout(ctx, 10*time.Second)
	err = st.WaitForIndexingUpto(wctx, last)
	cancel()
	if err != nil {
		return nil, err
	}
	holder := store.NewTx(st.MaxTxEntries(), st.MaxKeyLen())
	lastHdr, err := st.ReadTxHeader(last, false, false)
	if err != nil {
		return nil, err
	}
	for id := uint64(1); id <= last; id++ {
		if err := st.ReadTx(id, false, holder); err != nil {
			return nil, err
		}
		ti := &txInfo{id: id, hdr: holder.Header()}
		ti.alh = ti.hdr.Alh()
		for _, e := range holder.Entries() {
			v, err := st.ReadValue(e)
			if err != nil {
				return nil, err
			}
			ti.entries = append(ti.entries, entryInfo{key: e.Key(), md: e.Metadata(), vLen: e.VLen(), vOff: e.VOff(),
				hVal: e.HVal(), value: append([]byte{}, v...)})
		}
		ti.export, err = st.ExportTx(id, false, false, holder)
		if err != nil {
			return nil, err
		}
		srcHdr, err := st.ReadTxHeader(id, false, false)
		if err != nil {
			return nil, err
		}
		ti.proof, err = st.DualProof(srcHdr, lastHdr)
		if err != nil {
			return nil, err
		}
		img.txs = append(img.txs, ti)
	}
	if err := st.Close(); err != nil {
		return nil, err
	}
	// raw logs
	img.txlog, err = readLogical(filepath.Join(dir, "tx"), cfg.fileSize)
	if err != nil {
		return nil, err
	}
	clog, err := readLogical(filepath.Join(dir, "commit"), cfg.fileSize)
	if err != nil {
		return nil, err
	}
	const cLogEntrySize = 8 + 4 + sha256.Size
	if len(clog) != cLogEntrySize*len(img.txs) {
		return nil, fmt.Errorf("commit log holds %d bytes for %d txs", len(clog), len(img.txs))
	}
	for k, ti := range img.txs {
		e := clog[k*cLogEntrySize:]
		ti.off = int64(binary.BigEndian.Uint64(e))
		ti.size = int(binary.BigEndian.Uint32(e[8:]))
		if ti.off+int64(ti.size) > int64(len(img.txlog)) {
			return nil, fmt.Errorf("tx %d lies outside the tx log", ti.id)
		}
		ti.rec = append([]byte{}, img.txlog[ti.off:ti.off+int64(ti.size)]...)
		ti.fields, err = parseFields(ti.rec)
		if err != nil {
			return nil, fmt.Errorf("tx %d: %v", ti.id, err)
		}
	}
	if os.Getenv("C09_DEBUG") != "" {
		lt := img.txs[len(img.txs)-1]
		fmt.Fprintf(os.Stderr, "%s: tx log holds %d bytes, last committed record ends at %d\n", cfg.name, len(img.txlog), lt.off+int64(lt.size))
	}
	if !cfg.embedded {
		for i := 0; i < cfg.ioConc; i++ {
			b, err := readLogical(filepath.Join(dir, fmt.Sprintf("val_%d", i)), cfg.fileSize)
			if err != nil {
				return nil, err
			}
			img.vlogs = append(img.vlogs, b)
		}
	}
	return img, nil
}

func randBytes(rng *rand.Rand, n int) []byte {
	b := make([]byte, n)
	rng.Read(b)
	return b
}

// where the value of entry e lives: log name, logical offset
func (img *image) valueLoc(e *entryInfo) (string, int, int64) {
	if img.cfg.embedded {
		return "tx", -1, e.vOff
	}
	id := int(byte(e.vOff >> 56))
	return fmt.Sprintf("val_%d", id-1), id - 1, e.vOff & (1<<55 - 1)
}
