package main

import (
	"context"
	"errors"
	"fmt"
	"io"
	"os"
	"time"

	"github.com/codenotary/immudb/embedded/logger"
	"github.com/codenotary/immudb/embedded/store"
)

var ctx = context.Background()

func open() (*store.ImmuStore, string) {
	dir, _ := os.MkdirTemp("", "c05probe")
	lg := logger.NewSimpleLoggerWithLevel("vh", io.Discard, logger.LogError)
	opts := store.DefaultOptions().WithLogger(lg).WithSynced(false).WithMaxKeyLen(16)
	st, err := store.Open(dir, opts)
	if err != nil {
		panic(err)
	}
	return st, dir
}

func wo(st *store.ImmuStore, kvs ...any) uint64 {
	tx, err := st.NewWriteOnlyTx(ctx)
	if err != nil {
		panic(err)
	}
	for i := 0; i < len(kvs); i += 3 {
		var md *store.KVMetadata
		switch kvs[i+2].(string) {
		case "del":
			md = store.NewKVMetadata()
			md.AsDeleted(true)
		case "exp":
			md = store.NewKVMetadata()
			md.ExpiresAt(time.Now().Add(-time.Hour))
		case "fut":
			md = store.NewKVMetadata()
			md.ExpiresAt(time.Now().Add(1000 * time.Hour))
		}
		if err := tx.Set([]byte(kvs[i].(string)), md, []byte(kvs[i+1].(string))); err != nil {
			panic(err)
		}
	}
	hdr, err := tx.Commit(ctx)
	if err != nil {
		panic(err)
	}
	return hdr.ID
}

func show(tag string, k []byte, v store.ValueRef, err error) {
	if err != nil {
		fmt.Printf("  %s: err=%v\n", tag, err)
		return
	}
	val, rerr := v.Resolve()
	fmt.Printf("  %s: key=%q tx=%d val=%q rerr=%v md=%v\n", tag, k, v.Tx(), val, rerr, v.KVMetadata() != nil && v.KVMetadata().Deleted())
}

func main() {
	// R1: expired read not recorded
	{
		st, dir := open()
		defer os.RemoveAll(dir)
		wo(st, "a", "old", "exp")
		tx, _ := st.NewTx(ctx, store.DefaultTxOptions())
		v, err := tx.Get(ctx, []byte("a"))
		show("R1 get a (expired)", []byte("a"), v, err)
		wo(st, "a", "new", "")
		tx.Set([]byte("z"), nil, []byte("w"))
		hdr, err := tx.Commit(ctx)
		fmt.Println("R1 commit:", hdr != nil, err)
		st.Close()
	}
	// control: not-found get then concurrent insert -> conflict
	{
		st, dir := open()
		defer os.RemoveAll(dir)
		wo(st, "b", "x", "")
		tx, _ := st.NewTx(ctx, store.DefaultTxOptions())
		v, err := tx.Get(ctx, []byte("a"))
		show("ctl get a", []byte("a"), v, err)
		wo(st, "a", "new", "")
		tx.Set([]byte("z"), nil, []byte("w"))
		hdr, err := tx.Commit(ctx)
		fmt.Println("ctl commit:", hdr != nil, err, errors.Is(err, store.ErrTxReadConflict))
		st.Close()
	}
	// R2: prefix get returning own write
	{
		st, dir := open()
		defer os.RemoveAll(dir)
		wo(st, "ab", "x", "")
		tx, _ := st.NewTx(ctx, store.DefaultTxOptions())
		tx.Set([]byte("ac"), nil, []byte("own"))
		k, v, err := tx.GetWithPrefix(ctx, []byte("a"), []byte("ab"))
		show("R2 prefix a neq ab", k, v, err)
		wo(st, "abz", "phantom", "")
		hdr, err := tx.Commit(ctx)
		fmt.Println("R2 commit:", hdr != nil, err)
		st.Close()
	}
	// R3: reader early termination after own write
	{
		st, dir := open()
		defer os.RemoveAll(dir)
		wo(st, "a", "x", "")
		tx, _ := st.NewTx(ctx, store.DefaultTxOptions())
		tx.Set([]byte("c"), nil, []byte("own"))
		r, err := tx.NewKeyReader(store.KeyReaderSpec{})
		if err != nil {
			panic(err)
		}
		k, v, err := r.Read(ctx)
		show("R3 read1", k, v, err)
		k, v, err = r.Read(ctx)
		show("R3 read2", k, v, err)
		r.Close()
		wo(st, "b", "phantom", "")
		hdr, err := tx.Commit(ctx)
		fmt.Println("R3 commit:", hdr != nil, err)
		st.Close()
	}
	// R3 control: read to the end
	{
		st, dir := open()
		defer os.RemoveAll(dir)
		wo(st, "a", "x", "")
		tx, _ := st.NewTx(ctx, store.DefaultTxOptions())
		tx.Set([]byte("c"), nil, []byte("own"))
		r, _ := tx.NewKeyReader(store.KeyReaderSpec{})
		r.Read(ctx)
		r.Read(ctx)
		k, v, err := r.Read(ctx)
		show("R3c read3", k, v, err)
		r.Close()
		wo(st, "b", "phantom", "")
		hdr, err := tx.Commit(ctx)
		fmt.Println("R3c commit:", hdr != nil, err)
		st.Close()
	}
	// snapshot staleness + own deleted get + offset/reset
	{
		st, dir := open()
		defer os.RemoveAll(dir)
		wo(st, "a", "1", "", "b", "2", "del", "c", "3", "", "d", "4", "fut")
		s1, _ := st.SnapshotMustIncludeTxID(ctx, nil, 0)
		fmt.Println("snap ts", s1.Ts())
		s1.Close()
		wo(st, "e", "5", "")
		s2, _ := st.SnapshotMustIncludeTxID(ctx, nil, 0)
		fmt.Println("snap ts after 2nd (reuse?)", s2.Ts())
		s2.Close()
		s3, _ := st.SnapshotMustIncludeTxID(ctx, nil, 2)
		fmt.Println("snap ts must include 2", s3.Ts())
		s3.Close()
		opts := store.DefaultTxOptions()
		tx, _ := st.NewTx(ctx, opts)
		v, err := tx.Get(ctx, []byte("b"))
		show("get b (deleted)", []byte("b"), v, err)
		v, err = tx.GetWithFilters(ctx, []byte("b"))
		show("getnf b (deleted)", []byte("b"), v, err)
		err = tx.Delete(ctx, []byte("a"))
		fmt.Println("delete a:", err)
		v, err = tx.Get(ctx, []byte("a"))
		show("get a (own deleted)", []byte("a"), v, err)
		r, _ := tx.NewKeyReader(store.KeyReaderSpec{Offset: 1, Filters: []store.FilterFn{store.IgnoreDeleted, store.IgnoreExpired}})
		for i := 0; i < 3; i++ {
			k, v, err := r.Read(ctx)
			show("rd", k, v, err)
		}
		r.Reset()
		fmt.Println(" reset")
		for i := 0; i < 6; i++ {
			k, v, err := r.Read(ctx)
			show("rd", k, v, err)
		}
		r.Close()
		hdr, err := tx.Commit(ctx)
		fmt.Println("commit:", hdr != nil, err)
		st.Close()
	}
}
