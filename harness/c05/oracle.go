package c05

// Go-side restatement of the abstract specification (coq/MVCC/Spec.v and the read side of
// coq/MVCC/Tx.v): a committed state is a key-ordered list of latest entries; a transaction sees
// its snapshot state overlaid with its own writes.  It is used
//   - by the falsifier: every committed read-write transaction is replayed serially on the
//     state produced by all transactions with smaller ids and every read is compared,
//   - by the generator, to know the view of a transaction.
// It knows nothing about read-sets or validation.

import (
	"bytes"
	"sort"
)

type Entry struct {
	Key []byte `json:"k"`
	Val []byte `json:"v"`
	Tx  uint64 `json:"tx"`
	Del bool   `json:"del,omitempty"`
	Exp bool   `json:"exp,omitempty"`
}

type OState []Entry // ordered by key, one entry per key

func (s OState) find(k []byte) (int, bool) {
	i := sort.Search(len(s), func(i int) bool { return bytes.Compare(s[i].Key, k) >= 0 })
	return i, i < len(s) && bytes.Equal(s[i].Key, k)
}

func (s OState) lookup(k []byte) (Entry, bool) {
	i, ok := s.find(k)
	if !ok {
		return Entry{}, false
	}
	return s[i], true
}

func (s OState) upsert(e Entry) OState {
	i, ok := s.find(e.Key)
	n := make(OState, 0, len(s)+1)
	n = append(n, s[:i]...)
	n = append(n, e)
	if ok {
		n = append(n, s[i+1:]...)
	} else {
		n = append(n, s[i:]...)
	}
	return n
}

type WEntry struct {
	Key []byte `json:"k"`
	Val []byte `json:"v"`
	Del bool   `json:"del,omitempty"`
	Exp bool   `json:"exp,omitempty"`
	Tr  bool   `json:"tr,omitempty"`
}

func applyTx(s OState, txid uint64, ws []WEntry) OState {
	for _, w := range ws {
		if w.Tr {
			continue
		}
		s = s.upsert(Entry{Key: w.Key, Val: w.Val, Tx: txid, Del: w.Del, Exp: w.Exp})
	}
	return s
}

// filters: "d" = IgnoreDeleted, "e" = IgnoreExpired
func filtered(fs string, del, exp bool) bool {
	for _, f := range fs {
		if (f == 'd' && del) || (f == 'e' && exp) {
			return true
		}
	}
	return false
}

// index-level metadata: none for an own write
func rawFlags(e Entry) (bool, bool) {
	if e.Tx == 0 {
		return false, false
	}
	return e.Del, e.Exp
}

func oGet(fs string, k []byte, l OState) *Entry {
	e, ok := l.lookup(k)
	if !ok {
		return nil
	}
	d, x := rawFlags(e)
	if filtered(fs, d, x) {
		return nil
	}
	return &e
}

func oGetPrefix(fs string, prefix, neq []byte, l OState) *Entry {
	for _, e := range l {
		if len(neq) > 0 && bytes.Compare(e.Key, neq) <= 0 {
			continue
		}
		if bytes.Compare(prefix, e.Key) > 0 {
			continue
		}
		if !bytes.HasPrefix(e.Key, prefix) {
			return nil
		}
		d, x := rawFlags(e)
		if filtered(fs, d, x) {
			return nil
		}
		c := e
		return &c
	}
	return nil
}

type RSpec struct {
	Seek   []byte `json:"seek"`
	End    []byte `json:"end"`
	Prefix []byte `json:"prefix"`
	ISeek  bool   `json:"iseek,omitempty"`
	IEnd   bool   `json:"iend,omitempty"`
	Desc   bool   `json:"desc,omitempty"`
}

const MaxKeyLen = 16

func greatest(prefix []byte) []byte {
	g := bytes.Repeat([]byte{0xff}, MaxKeyLen)
	copy(g, prefix)
	return g
}

// the keys a reader with this spec goes through, in reading order
func oScan(sp RSpec, l OState) []Entry {
	g := greatest(sp.Prefix)
	seek, iseek, end, iend := sp.Seek, sp.ISeek, sp.End, sp.IEnd
	if sp.Desc {
		if len(seek) == 0 || bytes.Compare(seek, g) > 0 {
			seek, iseek = g, true
		}
		if bytes.Compare(end, sp.Prefix) < 0 {
			end, iend = sp.Prefix, true
		}
	} else {
		if bytes.Compare(seek, sp.Prefix) < 0 {
			seek, iseek = sp.Prefix, true
		}
		if len(end) == 0 || bytes.Compare(end, g) > 0 {
			end, iend = g, true
		}
	}
	var out []Entry
	for _, e := range l {
		c := bytes.Compare(seek, e.Key)
		if sp.Desc {
			c = -c
		}
		if c > 0 || (c == 0 && !iseek) {
			continue
		}
		if len(end) > 0 {
			c = bytes.Compare(e.Key, end)
			if sp.Desc {
				c = -c
			}
			if c > 0 || (c == 0 && !iend) {
				continue
			}
		}
		if len(sp.Prefix) > 0 && !bytes.HasPrefix(e.Key, sp.Prefix) {
			continue
		}
		out = append(out, e)
	}
	if sp.Desc {
		for i, j := 0, len(out)-1; i < j; i, j = i+1, j-1 {
			out[i], out[j] = out[j], out[i]
		}
	}
	return out
}

type oReader struct {
	spec      RSpec
	fs        string
	offset    uint64
	skipped   uint64
	cursor    []byte
	hasCursor bool
	touched   bool // Read called since creation / last Reset
}

// a transaction of the abstract specification
type oTx struct {
	snap    OState
	ws      []WEntry
	readers []*oReader
}

func (t *oTx) view() OState {
	v := t.snap
	for _, w := range t.ws {
		v = v.upsert(Entry{Key: w.Key, Val: w.Val, Tx: 0, Del: w.Del, Exp: w.Exp})
	}
	return v
}

func (t *oTx) findW(k []byte) int {
	for i, w := range t.ws {
		if bytes.Equal(w.Key, k) {
			return i
		}
	}
	return -1
}

func (t *oTx) set(w WEntry) Obs {
	if len(w.Key) == 0 || len(w.Key) > MaxKeyLen {
		return Obs{Kind: "err"}
	}
	if i := t.findW(w.Key); i >= 0 {
		if t.ws[i].Tr != w.Tr {
			return Obs{Kind: "err"}
		}
		t.ws[i] = w
		return Obs{Kind: "ok"}
	}
	t.ws = append(t.ws, w)
	return Obs{Kind: "ok"}
}

func specOK(sp RSpec) bool { return len(sp.Seek) <= MaxKeyLen && len(sp.Prefix) <= MaxKeyLen }

func (t *oTx) exec(o Op) Obs {
	switch o.Kind {
	case "get":
		if e := oGet(o.Fs, o.Key, t.view()); e != nil {
			return Obs{Kind: "found", E: e}
		}
		return Obs{Kind: "nf"}
	case "pget":
		if e := oGetPrefix(o.Fs, o.Key, o.Neq, t.view()); e != nil {
			return Obs{Kind: "found", E: e}
		}
		return Obs{Kind: "nf"}
	case "set":
		return t.set(WEntry{Key: o.Key, Val: o.Val, Del: o.Del, Exp: o.Exp, Tr: o.Tr})
	case "del":
		e := oGet("ed", o.Key, t.view())
		if e == nil || e.Del {
			return Obs{Kind: "nf"}
		}
		return t.set(WEntry{Key: o.Key, Del: true})
	case "newr":
		if !specOK(o.Spec) {
			return Obs{Kind: "err"}
		}
		t.readers = append(t.readers, &oReader{spec: o.Spec, fs: o.Fs, offset: o.Off})
		return Obs{Kind: "ok"}
	case "read":
		if o.Rid >= len(t.readers) {
			return Obs{Kind: "err"}
		}
		r := t.readers[o.Rid]
		r.touched = true
		for _, e := range oScan(r.spec, t.view()) {
			if r.hasCursor {
				c := bytes.Compare(r.cursor, e.Key)
				if r.spec.Desc {
					c = -c
				}
				if c >= 0 {
					continue
				}
			}
			r.cursor, r.hasCursor = e.Key, true
			if filtered(r.fs, e.Del, e.Exp) {
				continue
			}
			if r.skipped < r.offset {
				r.skipped++
				continue
			}
			c := e
			return Obs{Kind: "found", E: &c}
		}
		return Obs{Kind: "nomore"}
	case "reset":
		if o.Rid >= len(t.readers) {
			return Obs{Kind: "err"}
		}
		r := t.readers[o.Rid]
		r.hasCursor, r.cursor, r.touched = false, nil, false
		return Obs{Kind: "ok"}
	case "mark":
		if !specOK(o.Spec) {
			return Obs{Kind: "err"}
		}
		return Obs{Kind: "ok"}
	}
	return Obs{Kind: "err"}
}

// midScan: some reader of the transaction has been read since its creation / last Reset
func (t *oTx) midScan() bool {
	for _, r := range t.readers {
		if r.touched {
			return true
		}
	}
	return false
}
