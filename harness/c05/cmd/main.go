package main

import (
	"verif/harness/c05"
	"verif/harness/vk"
)

func main() { vk.Main("Tie.C05", c05.Gen, c05.Replay) }
