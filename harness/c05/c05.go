// Package c05: correspondence harness and falsifier for C05 (read-write transactions are
// serializable in commit order).  Transaction programs are executed on a REAL store, one
// operation at a time from a single goroutine, under a schedule chosen by the harness; every
// result and commit outcome is recorded and compared with coq/MVCC (Tie/C05.v case_ok), and
// every committed read-write transaction is replayed serially on a Go-side map (oracle.go).
package c05

import (
	"bytes"
	"context"
	"errors"
	"fmt"
	"io"
	"os"
	"strconv"
	"strings"
	"time"

	"github.com/codenotary/immudb/embedded/logger"
	"github.com/codenotary/immudb/embedded/store"

	"verif/harness/vk"
)

type Op struct {
	Kind string `json:"op"` // get pget set del newr read reset mark
	Key  []byte `json:"key,omitempty"` // key, or prefix for pget
	Neq  []byte `json:"neq,omitempty"`
	Val  []byte `json:"val,omitempty"`
	Fs   string `json:"fs,omitempty"` // filters in order: e = IgnoreExpired, d = IgnoreDeleted
	Del  bool   `json:"del,omitempty"`
	Exp  bool   `json:"exp,omitempty"`
	Tr   bool   `json:"tr,omitempty"`
	Spec RSpec  `json:"spec,omitempty"`
	Off  uint64 `json:"off,omitempty"`
	Rid  int    `json:"rid,omitempty"`
}

type Obs struct {
	Kind string `json:"r"` // nf found nomore ok err
	E    *Entry `json:"e,omitempty"`
}

// one step of a schedule (concrete: a replay re-executes exactly these)
type Step struct {
	Kind string   `json:"s"`             // begin op commit cancel wo
	Tid  int      `json:"tid,omitempty"` // read-write transaction
	X    uint64   `json:"x,omitempty"`   // begin: value returned by TxOptions.SnapshotMustIncludeTxID
	Op   *Op      `json:"o,omitempty"`
	WS   []WEntry `json:"ws,omitempty"` // wo: entries of the write-only transaction
	Asy  bool     `json:"async,omitempty"` // wo: AsyncCommit (the indexer may lag behind when the next commit validates)
	// observed
	Sid  uint64 `json:"sid,omitempty"`  // begin: Ts() of the snapshot
	Obs  *Obs   `json:"obs,omitempty"`  // op
	Out  string `json:"out,omitempty"`  // commit / wo: committed conflict other
	TxID uint64 `json:"txid,omitempty"` // commit / wo
}

var ctx = context.Background()

// ---------- Coq rendering ----------
// bytes as a Coq list of N (cheaper for coqc than a hex string literal)
func hx(b []byte) string {
	xs := make([]string, len(b))
	for i, c := range b {
		xs[i] = strconv.Itoa(int(c))
	}
	return "[" + strings.Join(xs, ";") + "]"
}
func cb(b bool) string   { return vk.Bool(b) }

func coqFs(fs string) string {
	var xs []string
	for _, f := range fs {
		if f == 'd' {
			xs = append(xs, "FDel")
		} else {
			xs = append(xs, "FExp")
		}
	}
	return vk.List(xs)
}

func coqSpec(s RSpec) string {
	return fmt.Sprintf("(RS %s %s %s %s %s %s)", hx(s.Seek), hx(s.End), hx(s.Prefix), cb(s.ISeek), cb(s.IEnd), cb(s.Desc))
}

func coqOp(o *Op) string {
	switch o.Kind {
	case "get":
		return fmt.Sprintf("(OGet %s %s)", hx(o.Key), coqFs(o.Fs))
	case "pget":
		return fmt.Sprintf("(OGetPrefix %s %s %s)", hx(o.Key), hx(o.Neq), coqFs(o.Fs))
	case "set":
		return fmt.Sprintf("(OSet %s %s %s %s %s)", hx(o.Key), hx(o.Val), cb(o.Del), cb(o.Exp), cb(o.Tr))
	case "del":
		return fmt.Sprintf("(ODelete %s)", hx(o.Key))
	case "newr":
		return fmt.Sprintf("(ONewReader %s %s %d)", coqSpec(o.Spec), coqFs(o.Fs), o.Off)
	case "read":
		return fmt.Sprintf("(ORead %d)", o.Rid)
	case "reset":
		return fmt.Sprintf("(OReset %d)", o.Rid)
	case "mark":
		return fmt.Sprintf("(OMark %s)", coqSpec(o.Spec))
	}
	panic("op kind " + o.Kind)
}

func coqObs(b *Obs) string {
	switch b.Kind {
	case "nf":
		return "BNotFound"
	case "nomore":
		return "BNoMore"
	case "ok":
		return "BOk"
	case "err":
		return "BErr"
	case "found":
		e := b.E
		return fmt.Sprintf("(BFound (E %s %s %d %s %s))", hx(e.Key), hx(e.Val), e.Tx, cb(e.Del), cb(e.Exp))
	}
	panic("obs kind " + b.Kind)
}

func coqOut(o string) string {
	switch o {
	case "committed":
		return "CCommitted"
	case "conflict":
		return "CConflict"
	}
	return "COther"
}

func coqWS(ws []WEntry) string {
	xs := make([]string, len(ws))
	for i, w := range ws {
		xs[i] = fmt.Sprintf("W %s %s %s %s %s", hx(w.Key), hx(w.Val), cb(w.Del), cb(w.Exp), cb(w.Tr))
	}
	return vk.List(xs)
}

func coqStep(s *Step) string {
	switch s.Kind {
	case "begin":
		return fmt.Sprintf("SBegin %d %d", s.Tid, s.Sid)
	case "op":
		return fmt.Sprintf("SOp %d %s %s", s.Tid, coqOp(s.Op), coqObs(s.Obs))
	case "commit":
		return fmt.Sprintf("SCommit %d %s %d", s.Tid, coqOut(s.Out), s.TxID)
	case "cancel":
		return fmt.Sprintf("SCancel %d", s.Tid)
	case "wo":
		return fmt.Sprintf("SWO %s %s %d", coqWS(s.WS), coqOut(s.Out), s.TxID)
	}
	panic("step kind " + s.Kind)
}

func coqCase(steps []Step) string {
	xs := make([]string, len(steps))
	for i := range steps {
		xs[i] = coqStep(&steps[i])
	}
	return "(Case [" + strings.Join(xs, ";\n  ") + "])"
}

// ---------- execution on the real store ----------
type txRun struct {
	tid     int
	tx      *store.OngoingTx
	sid     uint64
	prog    []Op
	obs     []Obs
	readers []store.KeyReader
	model   *oTx   // the abstract transaction on the snapshot state (generator + snapshot-read check)
	lastN   uint64 // last committed id when the snapshot was taken
}

type Exec struct {
	st     *store.ImmuStore
	dir    string
	states []OState // states[i] = abstract committed state after transaction i
	act    map[int]*txRun
	steps  []Step
	// statistics of the case
	nCommit, nConflict, nOther, nStale, nStaleCommitAttempt, nReads, nReaderReads int
	findings                                                                    []string
}

func NewExec() (*Exec, error) {
	dir, err := os.MkdirTemp("", "vh-c05-")
	if err != nil {
		return nil, err
	}
	lg := logger.NewSimpleLoggerWithLevel("vh", io.Discard, logger.LogError)
	// small limits only make Open cheap (no large preallocated buffers); none is reached
	opts := store.DefaultOptions().WithLogger(lg).WithSynced(false).WithMaxKeyLen(MaxKeyLen).WithMaxConcurrency(4).
		WithMaxTxEntries(64).WithMaxValueLen(256).WithTxLogCacheSize(16).WithVLogCacheSize(16).
		WithIndexOptions(store.DefaultIndexOptions().WithCacheSize(256))
	st, err := store.Open(dir, opts)
	if err != nil {
		os.RemoveAll(dir)
		return nil, err
	}
	return &Exec{st: st, dir: dir, states: []OState{nil}, act: map[int]*txRun{}}, nil
}

func (x *Exec) Close() {
	for _, t := range x.act {
		for _, rd := range t.readers {
			if rd != nil {
				rd.Close()
			}
		}
		t.tx.Cancel()
	}
	x.st.Close()
	os.RemoveAll(x.dir)
}

func (x *Exec) n() uint64 { return uint64(len(x.states) - 1) }

func kvmd(del, exp bool) *store.KVMetadata {
	if !del && !exp {
		return nil
	}
	md := store.NewKVMetadata()
	if del {
		md.AsDeleted(true)
	}
	if exp {
		md.ExpiresAt(time.Now().Add(-time.Hour))
	}
	return md
}

func filters(fs string) []store.FilterFn {
	var out []store.FilterFn
	for _, f := range fs {
		if f == 'd' {
			out = append(out, store.IgnoreDeleted)
		} else {
			out = append(out, store.IgnoreExpired)
		}
	}
	return out
}

func entryOf(key []byte, v store.ValueRef) *Entry {
	e := &Entry{Key: append([]byte{}, key...), Tx: v.Tx()}
	if md := v.KVMetadata(); md != nil {
		e.Del = md.Deleted()
		e.Exp = md.ExpiredAt(time.Now())
	}
	val, err := v.Resolve()
	if err == nil {
		e.Val = val
	}
	return e
}

func classify(err error) Obs {
	switch {
	case err == nil:
		return Obs{Kind: "ok"}
	case errors.Is(err, store.ErrKeyNotFound):
		return Obs{Kind: "nf"}
	case errors.Is(err, store.ErrNoMoreEntries):
		return Obs{Kind: "nomore"}
	}
	return Obs{Kind: "err"}
}

func keySpec(s RSpec, fs string, off uint64) store.KeyReaderSpec {
	return store.KeyReaderSpec{SeekKey: s.Seek, EndKey: s.End, Prefix: s.Prefix, InclusiveSeek: s.ISeek,
		InclusiveEnd: s.IEnd, DescOrder: s.Desc, Filters: filters(fs), Offset: off}
}

// Begin: the transaction is created with SnapshotMustIncludeTxID = X; its snapshot is taken by
// its first operation, which the caller runs immediately afterwards.  The tx id the snapshot
// will be at is learnt by taking (and closing) a snapshot with the same request just before.
func (x *Exec) Begin(tid int, X uint64) error {
	if err := x.st.WaitForIndexingUpto(ctx, x.n()); err != nil {
		return err
	}
	probe, err := x.st.SnapshotMustIncludeTxIDWithRenewalPeriod(ctx, nil, X, 0)
	if err != nil {
		return fmt.Errorf("probe snapshot: %w", err)
	}
	sid := probe.Ts()
	probe.Close()
	opts := store.DefaultTxOptions()
	opts.SnapshotMustIncludeTxID = func(uint64) uint64 { return X }
	tx, err := x.st.NewTx(ctx, opts)
	if err != nil {
		return err
	}
	if sid > x.n() {
		return fmt.Errorf("snapshot ts %d beyond last committed %d", sid, x.n())
	}
	x.act[tid] = &txRun{tid: tid, tx: tx, sid: sid, model: &oTx{snap: x.states[sid]}, lastN: x.n()}
	if sid < x.n() {
		x.nStale++
	}
	x.steps = append(x.steps, Step{Kind: "begin", Tid: tid, X: X, Sid: sid})
	return nil
}

func (x *Exec) doOp(t *txRun, o *Op) Obs {
	switch o.Kind {
	case "get":
		x.nReads++
		v, err := t.tx.GetWithFilters(ctx, o.Key, filters(o.Fs)...)
		if err != nil {
			return classify(err)
		}
		return Obs{Kind: "found", E: entryOf(o.Key, v)}
	case "pget":
		x.nReads++
		k, v, err := t.tx.GetWithPrefixAndFilters(ctx, o.Key, o.Neq, filters(o.Fs)...)
		if err != nil {
			return classify(err)
		}
		return Obs{Kind: "found", E: entryOf(k, v)}
	case "set":
		var err error
		if o.Tr {
			err = t.tx.SetTransient(o.Key, kvmd(o.Del, o.Exp), o.Val)
		} else {
			err = t.tx.Set(o.Key, kvmd(o.Del, o.Exp), o.Val)
		}
		return classify(err)
	case "del":
		return classify(t.tx.Delete(ctx, o.Key))
	case "newr":
		rd, err := t.tx.NewKeyReader(keySpec(o.Spec, o.Fs, o.Off))
		if err != nil {
			return Obs{Kind: "err"}
		}
		t.readers = append(t.readers, rd)
		return Obs{Kind: "ok"}
	case "read":
		if o.Rid >= len(t.readers) {
			return Obs{Kind: "err"}
		}
		x.nReaderReads++
		k, v, err := t.readers[o.Rid].Read(ctx)
		if err != nil {
			return classify(err)
		}
		return Obs{Kind: "found", E: entryOf(k, v)}
	case "reset":
		if o.Rid >= len(t.readers) {
			return Obs{Kind: "err"}
		}
		return classify(t.readers[o.Rid].Reset())
	case "mark":
		err := t.tx.MarkPrefixScanned(ctx, keySpec(o.Spec, "", 0))
		if err != nil {
			return Obs{Kind: "err"}
		}
		return Obs{Kind: "ok"}
	}
	panic("op kind " + o.Kind)
}

func obsEq(a, b Obs) bool {
	if a.Kind != b.Kind {
		return false
	}
	if a.Kind != "found" {
		return true
	}
	return entryEq(*a.E, *b.E)
}

// value of a committed expired entry cannot be resolved: compared as empty
func normEntry(e Entry) Entry {
	if e.Exp && e.Tx > 0 {
		e.Val = nil
	}
	return e
}

func entryEq(a, b Entry) bool {
	a, b = normEntry(a), normEntry(b)
	return bytes.Equal(a.Key, b.Key) && bytes.Equal(a.Val, b.Val) && a.Tx == b.Tx && a.Del == b.Del && a.Exp == b.Exp
}

func (o Obs) String() string {
	if o.Kind != "found" {
		return o.Kind
	}
	return fmt.Sprintf("found{%q=%q tx=%d del=%v exp=%v}", o.E.Key, o.E.Val, o.E.Tx, o.E.Del, o.E.Exp)
}

func (x *Exec) Op(tid int, o Op) (Obs, error) {
	t := x.act[tid]
	if t == nil {
		return Obs{}, fmt.Errorf("tx %d not active", tid)
	}
	b := x.doOp(t, &o)
	t.prog = append(t.prog, o)
	t.obs = append(t.obs, b)
	// reads see the snapshot state overlaid with the own writes
	if m := t.model.exec(o); !obsEq(m, b) {
		x.finding(fmt.Sprintf("snapshot read: tx %d op #%d %s returned %s, the state at snapshot tx %d overlaid with its own writes gives %s",
			tid, len(t.prog)-1, coqOp(&o), b, t.sid, m))
	}
	oc, bc := o, b
	x.steps = append(x.steps, Step{Kind: "op", Tid: tid, Op: &oc, Obs: &bc})
	return b, nil
}

func (x *Exec) closeReaders(t *txRun) {
	for _, rd := range t.readers {
		rd.Close()
	}
	t.readers = nil
}

func outcomeOf(err error) string {
	switch {
	case err == nil:
		return "committed"
	case errors.Is(err, store.ErrTxReadConflict):
		return "conflict"
	}
	return "other"
}

func (x *Exec) Commit(tid int) (string, error) {
	t := x.act[tid]
	if t == nil {
		return "", fmt.Errorf("tx %d not active", tid)
	}
	x.closeReaders(t)
	delete(x.act, tid)
	if t.sid < x.n() {
		x.nStaleCommitAttempt++
	}
	hdr, err := t.tx.Commit(ctx)
	out := outcomeOf(err)
	st := Step{Kind: "commit", Tid: tid, Out: out}
	switch out {
	case "committed":
		x.nCommit++
		st.TxID = hdr.ID
		if hdr.ID != x.n()+1 {
			x.finding(fmt.Sprintf("commit of tx %d got id %d, expected %d", tid, hdr.ID, x.n()+1))
		}
		x.states = append(x.states, applyTx(x.states[x.n()], hdr.ID, t.model.ws))
		x.serialCheck(t, hdr.ID)
	case "conflict":
		x.nConflict++
	default:
		x.nOther++
	}
	if out != "committed" {
		// a rejected transaction leaves no trace
		if got := x.st.LastPrecommittedTxID(); got != x.n() {
			x.finding(fmt.Sprintf("rejected commit of tx %d (%s) moved the last precommitted tx id from %d to %d", tid, out, x.n(), got))
		}
	}
	x.steps = append(x.steps, st)
	return out, nil
}

func (x *Exec) Cancel(tid int) error {
	t := x.act[tid]
	if t == nil {
		return fmt.Errorf("tx %d not active", tid)
	}
	x.closeReaders(t)
	delete(x.act, tid)
	x.steps = append(x.steps, Step{Kind: "cancel", Tid: tid})
	return t.tx.Cancel()
}

func (x *Exec) WriteOnly(ws []WEntry, async bool) (string, error) {
	tx, err := x.st.NewWriteOnlyTx(ctx)
	if err != nil {
		return "", err
	}
	for _, w := range ws {
		if err := tx.Set(w.Key, kvmd(w.Del, w.Exp), w.Val); err != nil {
			tx.Cancel()
			return "", fmt.Errorf("write-only set: %w", err)
		}
	}
	var hdr *store.TxHeader
	if async {
		hdr, err = tx.AsyncCommit(ctx)
	} else {
		hdr, err = tx.Commit(ctx)
	}
	out := outcomeOf(err)
	st := Step{Kind: "wo", WS: ws, Out: out, Asy: async}
	if out == "committed" {
		st.TxID = hdr.ID
		if hdr.ID != x.n()+1 {
			x.finding(fmt.Sprintf("write-only commit got id %d, expected %d", hdr.ID, x.n()+1))
		}
		x.states = append(x.states, applyTx(x.states[x.n()], hdr.ID, ws))
	}
	x.steps = append(x.steps, st)
	return out, nil
}

func (x *Exec) finding(s string) { x.findings = append(x.findings, s) }

// The property, checked directly: the committed transaction is replayed alone on the state
// produced by all transactions with smaller ids; every observation must be the same.
func (x *Exec) serialCheck(t *txRun, txid uint64) {
	ser := &oTx{snap: x.states[txid-1]}
	for i, o := range t.prog {
		s := ser.exec(o)
		if obsEq(s, t.obs[i]) {
			continue
		}
		kind := "unclassified"
		b := t.obs[i]
		switch {
		case o.Kind == "pget" && b.Kind == "found" && b.E.Tx == 0 &&
			!(s.Kind == "found" && bytes.Compare(s.E.Key, b.E.Key) >= 0):
			// answered by an own write; alone at the commit point a smaller key answers (or hides) it
			kind = KindPrefixOwn
		case o.Kind == "read" && b.Kind == "found" && b.E.Tx == 0 && lastReadOfSegment(t.prog, i):
			kind = KindReaderTail
		}
		x.finding(fmt.Sprintf("not serializable [%s]: tx committed as id %d (snapshot at tx %d): op #%d %s returned %s, alone on the state after tx %d it returns %s",
			kind, txid, t.sid, i, coqOp(&o), b, txid-1, s))
		return
	}
	if !wsEq(ser.ws, t.model.ws) {
		x.finding(fmt.Sprintf("not serializable [write set]: tx committed as id %d wrote a different write set than its serial execution", txid))
	}
}

const (
	KindPrefixOwn  = "GetWithPrefix returned an own write: nothing recorded in the read-set"
	KindReaderTail = "key reader segment ends on an own write: keys before it are not validated"
)

// no later Read on the same reader before its next Reset
func lastReadOfSegment(prog []Op, i int) bool {
	rid := prog[i].Rid
	for _, o := range prog[i+1:] {
		if o.Rid != rid {
			continue
		}
		if o.Kind == "reset" {
			return true
		}
		if o.Kind == "read" {
			return false
		}
	}
	return true
}

func wsEq(a, b []WEntry) bool {
	if len(a) != len(b) {
		return false
	}
	for i := range a {
		if !bytes.Equal(a[i].Key, b[i].Key) || !bytes.Equal(a[i].Val, b[i].Val) || a[i].Del != b[i].Del || a[i].Exp != b[i].Exp || a[i].Tr != b[i].Tr {
			return false
		}
	}
	return true
}

// FinalCheck: the store holds exactly the abstract state after the last committed transaction
// (all entries of every committed transaction, nothing of a rejected or cancelled one).
func (x *Exec) FinalCheck(universe [][]byte) {
	if err := x.st.WaitForIndexingUpto(ctx, x.n()); err != nil {
		x.finding("final: " + err.Error())
		return
	}
	snap, err := x.st.SnapshotMustIncludeTxID(ctx, nil, x.n())
	if err != nil {
		x.finding("final snapshot: " + err.Error())
		return
	}
	defer snap.Close()
	want := x.states[x.n()]
	rd, err := snap.NewKeyReader(store.KeyReaderSpec{})
	if err != nil {
		x.finding("final reader: " + err.Error())
		return
	}
	defer rd.Close()
	var got []Entry
	for {
		k, v, err := rd.Read(ctx)
		if err != nil {
			break
		}
		got = append(got, *entryOf(k, v))
	}
	ok := len(got) == len(want)
	for i := 0; ok && i < len(got); i++ {
		ok = entryEq(got[i], want[i])
	}
	if !ok {
		x.finding(fmt.Sprintf("final state: store holds %v, the committed transactions give %v", got, want))
	}
}
