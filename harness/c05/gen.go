package c05

import (
	"encoding/json"
	"fmt"
	"math/rand"
	"sync"

	"verif/harness/vk"
)

// small key universe with shared prefixes
var universe = [][]byte{
	[]byte("a"), []byte("aa"), []byte("ab"), []byte("aba"), []byte("abb"), []byte("ac"),
	[]byte("b"), []byte("ba"), []byte("bb"), []byte("c"),
}

// bounds for seek / end / neq / prefix: universe keys, keys between them, extremes
var bounds = [][]byte{
	nil, []byte("a"), []byte("aa"), []byte("ab"), []byte("ab\x00"), []byte("aba"), []byte("abb"), []byte("abz"),
	[]byte("ac"), []byte("a\xff"), []byte("b"), []byte("ba"), []byte("bb"), []byte("c"), []byte("zz"), {0},
}
var prefixes = [][]byte{nil, nil, nil, []byte("a"), []byte("a"), []byte("ab"), []byte("b"), []byte("c"), []byte("d"), []byte("aba")}
var filterSets = []string{"ed", "ed", "ed", "", "d", "e", "de"}

type gen struct {
	rng *rand.Rand
	x   *Exec
	vc  int
	// keys written by the committers / read by the programs of this case: equal pools give
	// mostly conflicts, disjoint ones give stale snapshots whose reads are still valid
	wpool, rpool [][]byte
}

func (g *gen) pick(xs [][]byte) []byte { return xs[g.rng.Intn(len(xs))] }

func (g *gen) pools() {
	g.wpool, g.rpool = universe, universe
	if g.rng.Intn(10) < 7 {
		perm := g.rng.Perm(len(universe))
		nw := 2 + g.rng.Intn(4)
		g.wpool, g.rpool = nil, nil
		for i, j := range perm {
			if i < nw {
				g.wpool = append(g.wpool, universe[j])
			} else {
				g.rpool = append(g.rpool, universe[j])
			}
		}
	}
}

// key to write / to read: mostly from the pool, sometimes anything
func (g *gen) wkey() []byte {
	if g.rng.Intn(10) < 8 {
		return g.pick(g.wpool)
	}
	return g.pick(universe)
}
func (g *gen) rkey() []byte {
	if g.rng.Intn(10) < 8 {
		return g.pick(g.rpool)
	}
	return g.pick(universe)
}
func (g *gen) val() []byte {
	g.vc++
	return []byte(fmt.Sprintf("v%d", g.vc))
}
func (g *gen) fs() string { return filterSets[g.rng.Intn(len(filterSets))] }

func (g *gen) wentry(allowTr bool) WEntry {
	w := WEntry{Key: g.wkey(), Val: g.val()}
	switch g.rng.Intn(10) {
	case 0:
		w.Del, w.Val = true, nil
	case 1:
		w.Exp = true
	case 2:
		if g.rng.Intn(3) == 0 {
			w.Del, w.Exp, w.Val = true, true, nil
		}
	}
	if allowTr && g.rng.Intn(12) == 0 {
		w.Tr = true
	}
	return w
}

// entries of a write-only transaction: distinct keys
func (g *gen) writeSet(max int) []WEntry {
	n := 1 + g.rng.Intn(max)
	seen := map[string]bool{}
	var ws []WEntry
	for i := 0; i < n; i++ {
		w := g.wentry(false)
		if seen[string(w.Key)] {
			continue
		}
		seen[string(w.Key)] = true
		ws = append(ws, w)
	}
	return ws
}

func (g *gen) spec() RSpec {
	s := RSpec{Prefix: g.pick(prefixes)}
	if g.rng.Intn(10) < 6 {
		s.Seek = g.pick(bounds)
	}
	if g.rng.Intn(10) < 5 {
		s.End = g.pick(bounds)
	}
	s.ISeek = g.rng.Intn(2) == 0
	s.IEnd = g.rng.Intn(2) == 0
	s.Desc = g.rng.Intn(5) < 2
	if g.rng.Intn(60) == 0 { // over-long seek key: rejected by NewReader
		s.Seek = make([]byte, MaxKeyLen+1)
	}
	return s
}

type txPlan struct {
	tid    int
	budget int // operations left
	style  int // 0 mixed, 1 point reads, 2 scans
	begun  bool
	done   bool
	scan   int // reads queued on the most recent reader
}

// nextOp chooses the next operation of a transaction given its abstract state
func (g *gen) nextOp(p *txPlan, t *txRun) Op {
	m := t.model
	for {
		r := g.rng.Intn(100)
		nr := len(m.readers)
		if p.scan > 0 && nr > 0 && r < 75 {
			p.scan--
			return Op{Kind: "read", Rid: nr - 1}
		}
		var o Op
		switch {
		case r < 18 || (p.style == 1 && r < 40):
			o = Op{Kind: "get", Key: g.rkey(), Fs: g.fs()}
		case r < 30:
			o = Op{Kind: "pget", Key: g.pick(prefixes), Fs: g.fs()}
			if g.rng.Intn(10) < 6 {
				o.Neq = g.pick(bounds)
			}
		case r < 50:
			w := g.wentry(true)
			o = Op{Kind: "set", Key: w.Key, Val: w.Val, Del: w.Del, Exp: w.Exp, Tr: w.Tr}
			if len(t.prog) > 0 && g.rng.Intn(40) == 0 { // invalid keys (never as first operation: it would not take the snapshot)
				if g.rng.Intn(2) == 0 {
					o.Key = nil
				} else {
					o.Key = make([]byte, MaxKeyLen+1)
				}
			}
		case r < 58:
			o = Op{Kind: "del", Key: g.wkey()}
		case r < 72 || (p.style == 2 && r < 85):
			if nr >= 3 {
				continue
			}
			o = Op{Kind: "newr", Spec: g.spec(), Fs: g.fs()}
			if g.rng.Intn(10) < 4 {
				o.Off = uint64(1 + g.rng.Intn(3))
			}
			p.scan = 1 + g.rng.Intn(5)
		case r < 88:
			if nr == 0 {
				continue
			}
			o = Op{Kind: "read", Rid: g.rng.Intn(nr)}
		case r < 94:
			if nr == 0 {
				continue
			}
			o = Op{Kind: "reset", Rid: g.rng.Intn(nr)}
			if o.Rid == nr-1 {
				p.scan = 1 + g.rng.Intn(4)
			}
		default:
			o = Op{Kind: "mark", Spec: g.spec()}
		}
		// tbtree mutates a snapshot leaf in place: inserting a key that is new to the
		// transaction's view while one of its readers is positioned is outside the model
		if o.Kind == "set" && len(o.Key) > 0 && len(o.Key) <= MaxKeyLen && m.midScan() {
			if _, ok := m.view().lookup(o.Key); !ok {
				continue
			}
		}
		return o
	}
}

func hasCommittable(ws []WEntry) bool {
	for _, w := range ws {
		if !w.Tr {
			return true
		}
	}
	return false
}

// snapshot request of a new transaction: the current state, the possibly stale reusable
// snapshot (0), or something in between
func (g *gen) snapReq() uint64 {
	n := g.x.n()
	switch r := g.rng.Intn(10); {
	case r < 4:
		return 0
	case r < 7:
		return n
	default:
		return uint64(g.rng.Int63n(int64(n) + 1))
	}
}

// one case: populate, then interleave 2-4 read-write programs with write-only committers
func genCase(rng *rand.Rand, big bool) (*result, error) {
	x, err := NewExec()
	if err != nil {
		return nil, err
	}
	defer x.Close()
	g := &gen{rng: rng, x: x, wpool: universe, rpool: universe}
	for i, n := 0, 1+g.rng.Intn(3); i < n; i++ {
		if _, err := x.WriteOnly(g.writeSet(6), false); err != nil {
			return nil, err
		}
	}
	g.pools()
	k := 2 + g.rng.Intn(3)
	maxOps := 12
	if big {
		maxOps = 24
	}
	plans := make([]*txPlan, k)
	for i := range plans {
		plans[i] = &txPlan{tid: i + 1, budget: 2 + g.rng.Intn(maxOps-1), style: g.rng.Intn(3)}
	}
	remaining := k
	for remaining > 0 {
		if g.rng.Intn(100) < 10 {
			if _, err := x.WriteOnly(g.writeSet(2), g.rng.Intn(2) == 0); err != nil {
				return nil, err
			}
			continue
		}
		p := plans[g.rng.Intn(k)]
		if p.done {
			continue
		}
		if !p.begun {
			if err := x.Begin(p.tid, g.snapReq()); err != nil {
				return nil, err
			}
			p.begun = true
			// the first operation takes the snapshot: it runs right away
		} else if p.budget <= 0 {
			p.done = true
			remaining--
			if g.rng.Intn(12) == 0 {
				if err := x.Cancel(p.tid); err != nil {
					return nil, err
				}
			} else if _, err := x.Commit(p.tid); err != nil {
				return nil, err
			}
			continue
		}
		t := x.act[p.tid]
		// make sure most programs write something (a transaction without entries cannot commit)
		var o Op
		if p.budget <= 2 && !hasCommittable(t.model.ws) && g.rng.Intn(10) < 9 {
			w := g.wentry(false)
			o = Op{Kind: "set", Key: w.Key, Val: w.Val, Del: w.Del, Exp: w.Exp}
			if t.model.midScan() {
				if _, ok := t.model.view().lookup(o.Key); !ok {
					o = Op{Kind: "get", Key: o.Key, Fs: "ed"}
				}
			}
		} else {
			o = g.nextOp(p, t)
		}
		if _, err := x.Op(p.tid, o); err != nil {
			return nil, err
		}
		p.budget--
	}
	x.FinalCheck(universe)
	return x.result(), nil
}

// what a finished case leaves behind (cases run on parallel workers, results are recorded in order)
type result struct {
	steps    []Step
	findings []string
	nCommit, nConflict, nOther, nStale, nStaleCommitAttempt, nReads, nReaderReads int
}

func (x *Exec) result() *result {
	return &result{x.steps, x.findings, x.nCommit, x.nConflict, x.nOther, x.nStale, x.nStaleCommitAttempt, x.nReads, x.nReaderReads}
}

func record(r *vk.Run, x *result) {
	for _, f := range x.findings {
		b, _ := json.Marshal(x.steps)
		r.Finding(f + " | schedule=" + string(b))
	}
	bucket := fmt.Sprintf("rw-commits=%d", min(x.nCommit, 3))
	nontrivial := x.nStaleCommitAttempt > 0 && x.nReads+x.nReaderReads > 0
	r.Stats["outcome:committed"] += x.nCommit
	r.Stats["outcome:read-conflict"] += x.nConflict
	r.Stats["outcome:other-error"] += x.nOther
	r.Stats["snapshot:stale-at-begin"] += x.nStale
	r.Stats["snapshot:stale-at-commit"] += x.nStaleCommitAttempt
	r.Stats["reads:point+prefix"] += x.nReads
	r.Stats["reads:key-reader"] += x.nReaderReads
	r.Stats["steps"] += len(x.steps)
	js := map[string]any{"steps": x.steps, "findings": x.findings, "oracle_violation": len(x.findings) > 0}
	r.Case(coqCase(x.steps), js, bucket, nontrivial)
}

func Gen(r *vk.Run, n int) error {
	// fixed scenarios first: the two known gaps and their detected neighbours
	for _, sc := range fixedScenarios() {
		if err := replaySteps(r, sc); err != nil {
			return err
		}
	}
	// every case gets its own generator seeded from r.Rng; cases run on a few workers (opening a
	// store dominates the cost) and are recorded in index order
	seeds := make([]int64, n)
	for i := range seeds {
		seeds[i] = r.Rng.Int63()
	}
	results := make([]*result, n)
	errs := make([]error, n)
	var wg sync.WaitGroup
	next := make(chan int)
	for w := 0; w < 8; w++ {
		wg.Add(1)
		go func() {
			defer wg.Done()
			for i := range next {
				results[i], errs[i] = genCase(rand.New(rand.NewSource(seeds[i])), i%5 == 4)
			}
		}()
	}
	for i := 0; i < n; i++ {
		next <- i
	}
	close(next)
	wg.Wait()
	for i := 0; i < n; i++ {
		if errs[i] != nil {
			return fmt.Errorf("case %d: %w", i, errs[i])
		}
		record(r, results[i])
	}
	return nil
}

// replaySteps re-executes a concrete schedule
func replaySteps(r *vk.Run, steps []Step) error {
	x, err := NewExec()
	if err != nil {
		return err
	}
	defer x.Close()
	for i := 0; i < len(steps); i++ {
		s := steps[i]
		switch s.Kind {
		case "begin":
			err = x.Begin(s.Tid, s.X)
		case "op":
			_, err = x.Op(s.Tid, *s.Op)
		case "commit":
			_, err = x.Commit(s.Tid)
		case "cancel":
			err = x.Cancel(s.Tid)
		case "wo":
			_, err = x.WriteOnly(s.WS, s.Asy)
		default:
			err = fmt.Errorf("unknown step %q", s.Kind)
		}
		if err != nil {
			return fmt.Errorf("step %d: %w", i, err)
		}
	}
	x.FinalCheck(universe)
	record(r, x.result())
	return nil
}

func Replay(r *vk.Run, c map[string]any) error {
	b, err := json.Marshal(c["steps"])
	if err != nil {
		return err
	}
	var steps []Step
	if err := json.Unmarshal(b, &steps); err != nil {
		return err
	}
	return replaySteps(r, steps)
}

func w(k, v string) WEntry { return WEntry{Key: []byte(k), Val: []byte(v)} }

func fixedScenarios() [][]Step {
	begin := func(tid int, x uint64) Step { return Step{Kind: "begin", Tid: tid, X: x} }
	op := func(tid int, o Op) Step { return Step{Kind: "op", Tid: tid, Op: &o} }
	wo := func(ws ...WEntry) Step { return Step{Kind: "wo", WS: ws} }
	commit := func(tid int) Step { return Step{Kind: "commit", Tid: tid} }
	set := func(k, v string) Op { return Op{Kind: "set", Key: []byte(k), Val: []byte(v)} }
	return [][]Step{
		// prefix get answered by an own write, a smaller key is committed concurrently
		{wo(w("ab", "x")), begin(1, 1), op(1, set("ac", "own")),
			op(1, Op{Kind: "pget", Key: []byte("a"), Neq: []byte("ab"), Fs: "ed"}), wo(w("abz", "ph")), commit(1)},
		// the same with the prefix get answered by a committed key: detected
		{wo(w("ab", "x"), w("ac", "y")), begin(1, 1), op(1, set("c", "own")),
			op(1, Op{Kind: "pget", Key: []byte("a"), Neq: []byte("ab"), Fs: "ed"}), wo(w("abz", "ph")), commit(1)},
		// reader stopped on an own write, a key before it is committed concurrently
		{wo(w("a", "x")), begin(1, 1), op(1, set("c", "own")), op(1, Op{Kind: "newr"}),
			op(1, Op{Kind: "read"}), op(1, Op{Kind: "read"}), wo(w("b", "ph")), commit(1)},
		// the same read to the end: detected
		{wo(w("a", "x")), begin(1, 1), op(1, set("c", "own")), op(1, Op{Kind: "newr"}),
			op(1, Op{Kind: "read"}), op(1, Op{Kind: "read"}), op(1, Op{Kind: "read"}), wo(w("b", "ph")), commit(1)},
		// not-found get, key inserted concurrently: detected
		{wo(w("b", "x")), begin(1, 1), op(1, Op{Kind: "get", Key: []byte("a"), Fs: "ed"}), op(1, set("c", "own")),
			wo(w("a", "new")), commit(1)},
		// expired entry read as not found, overwritten concurrently: detected
		{wo(WEntry{Key: []byte("a"), Val: []byte("old"), Exp: true}), begin(1, 1),
			op(1, Op{Kind: "get", Key: []byte("a"), Fs: "ed"}), op(1, set("c", "own")), wo(w("a", "new")), commit(1)},
		// stale snapshot (reuse of the last dumped root), fingerprint over own write with nothing committed since
		{wo(w("a", "x")), begin(1, 0), op(1, set("b", "own")), op(1, Op{Kind: "mark"}), commit(1)},
		{wo(w("a", "x")), begin(1, 0), op(1, set("b", "own")), op(1, Op{Kind: "mark"}), wo(w("c", "y")), commit(1)},
	}
}
