package main

import (
	"flag"
	"fmt"
	"os"

	"verif/harness/c16"
	"verif/harness/vk"
)

type genFn func(r *vk.Run, n int) error

var props = map[string]struct {
	tie string
	gen genFn
}{
	"C16": {"Tie.C16", c16.Gen},
}

func main() {
	if len(os.Args) < 3 {
		fmt.Fprintln(os.Stderr, "usage: vh <prop> gen -seed S -n N -out DIR")
		os.Exit(2)
	}
	prop, cmd := os.Args[1], os.Args[2]
	fs := flag.NewFlagSet(cmd, flag.ExitOnError)
	seed := fs.Int64("seed", 1, "seed")
	n := fs.Int("n", 1000, "case budget")
	out := fs.String("out", "", "output dir")
	fs.Parse(os.Args[3:])
	p, ok := props[prop]
	if !ok {
		fmt.Fprintln(os.Stderr, "unknown property", prop)
		os.Exit(2)
	}
	switch cmd {
	case "gen":
		r, err := vk.NewRun(*out, *seed, p.tie)
		if err != nil {
			fmt.Fprintln(os.Stderr, err)
			os.Exit(3)
		}
		if err := p.gen(r, *n); err != nil {
			fmt.Fprintln(os.Stderr, "harness error:", err)
			os.Exit(3)
		}
		if err := r.Close(nil); err != nil {
			fmt.Fprintln(os.Stderr, err)
			os.Exit(3)
		}
	default:
		os.Exit(2)
	}
}
