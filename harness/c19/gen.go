package c19

// gen.go: random schemas, documents and queries (all randomness from the rng handed in)

import (
	"fmt"
	"math"
	"math/rand"
	"sort"
	"strings"

	"github.com/codenotary/immudb/pkg/api/protomodel"
)

const (
	tInt  = protomodel.FieldType_INTEGER
	tDbl  = protomodel.FieldType_DOUBLE
	tStr  = protomodel.FieldType_STRING
	tBool = protomodel.FieldType_BOOLEAN
	tUUID = protomodel.FieldType_UUID
)

var fieldNames = []string{"n", "m", "d", "s", "t", "b", "u", "a.x", "a.y", "a.y.z", "p.q.r.s", "f-1", "g_2", "a"}
var fieldTypes = []protomodel.FieldType{tInt, tInt, tDbl, tDbl, tStr, tStr, tBool, tUUID}

var numPool = []float64{
	0, math.Copysign(0, -1), 1, -1, 2, 3, 4, 5, 7, 10, 100,
	0.5, -0.5, 1.5, 2.5, 0.1, 1e15 + 0.5, 9007199254740992, 9007199254740994, -9007199254740992,
	9223372036854775807, 9223372036854775808, -9223372036854775808, 9223372036854774784, -9223372036854777856,
	1e300, -1e300, 5e-324, 1.7976931348623157e308, 4294967296, -4294967297, 1e-7, 123456789.25,
}
var smallInts = []float64{0, 1, 2, 3, 4, 5}

var strPool = []string{"", "a", "b", "ab", "a\x00", "A", "é", "日本語", "😀", "zz", "a b", "%", "_", "ß", "\u0000", "~"}

var uuidPool = []string{
	"00000000-0000-0000-0000-000000000000",
	"6ba7b810-9dad-11d1-80b4-00c04fd430c8",
	"6BA7B810-9DAD-11D1-80B4-00C04FD430C8",
	"{6ba7b811-9dad-11d1-80b4-00c04fd430c8}",
	"urn:uuid:6ba7b812-9dad-11d1-80b4-00c04fd430c8",
	"6ba7b8139dad11d180b400c04fd430c8",
	"ffffffff-ffff-ffff-ffff-ffffffffffff",
	"7fffffff-0000-4000-8000-000000000001",
}

func pick[T any](rng *rand.Rand, l []T) T { return l[rng.Intn(len(l))] }

func genNum(rng *rand.Rand, edgy bool) float64 {
	switch {
	case !edgy || rng.Intn(3) == 0:
		return pick(rng, smallInts)
	case rng.Intn(8) == 0:
		return float64(rng.Intn(2000)-1000) / 4
	}
	return pick(rng, numPool)
}

// genTyped: a value of the field's type; edgy allows values on which the engine is known or
// suspected to deviate (non-integral / huge numbers in INTEGER fields, -0)
func genTyped(rng *rand.Rand, t protomodel.FieldType, edgy bool) any {
	switch t {
	case tInt:
		if !edgy {
			if rng.Intn(6) == 0 {
				return pick(rng, []float64{-1, 100, 4294967296, -4294967297, 9007199254740992, -9223372036854775808, 9223372036854774784})
			}
			return pick(rng, smallInts)
		}
		return genNum(rng, true)
	case tDbl:
		f := genNum(rng, true)
		if !edgy && f == 0 {
			return 0.0
		}
		return f
	case tStr:
		if rng.Intn(40) == 0 {
			return strings.Repeat("x", 510+rng.Intn(4))
		}
		return pick(rng, strPool)
	case tBool:
		return rng.Intn(2) == 0
	case tUUID:
		return pick(rng, uuidPool)
	}
	return nil
}

func genAny(rng *rand.Rand, depth int) any {
	switch k := rng.Intn(9); {
	case k == 0:
		return nil
	case k == 1:
		return rng.Intn(2) == 0
	case k <= 3:
		return genNum(rng, true)
	case k <= 5:
		return pick(rng, strPool)
	case k == 6 && depth < 2:
		n := rng.Intn(3)
		l := make([]any, n)
		for i := range l {
			l[i] = genAny(rng, depth+1)
		}
		return l
	case k == 7 && depth < 2:
		m := map[string]any{}
		for i, n := 0, rng.Intn(3); i < n; i++ {
			m[pick(rng, []string{"x", "y", "z", "é", "", "k.k"})] = genAny(rng, depth+1)
		}
		return m
	}
	return pick(rng, strPool)
}

// setPath stores v under the nested path (creating intermediate objects); false if an
// intermediate value exists and is not an object
func setPath(doc map[string]any, path string, v any) bool {
	segs := strings.SplitN(path, ".", 3)
	cur := doc
	for i, s := range segs {
		if i == len(segs)-1 {
			cur[s] = v
			return true
		}
		nx, ok := cur[s]
		if !ok {
			m := map[string]any{}
			cur[s] = m
			cur = m
			continue
		}
		m, isObj := nx.(map[string]any)
		if !isObj {
			return false
		}
		cur = m
	}
	return false
}

type genOpts struct {
	edgy     bool // numeric edge values in INTEGER fields, -0 in DOUBLE fields
	badTypes bool // occasionally a value of the wrong type (the insert must be rejected)
}

func genDoc(rng *rand.Rand, c *Coll, serial int, o genOpts) map[string]any {
	doc := map[string]any{"k": float64(serial)}
	for _, f := range c.Fields {
		switch r := rng.Intn(12); {
		case r == 0: // missing
		case r == 1:
			setPath(doc, f.Name, nil)
		case r == 2 && o.badTypes:
			setPath(doc, f.Name, genAny(rng, 1))
		default:
			setPath(doc, f.Name, genTyped(rng, f.Type, o.edgy))
		}
	}
	// untyped extras (nested JSON, arrays, unicode, a literal dotted key)
	for i, n := 0, rng.Intn(3); i < n; i++ {
		key := pick(rng, []string{"x", "y", "extra", "é", "a", "a.x", "list", "", "p"})
		if _, used := doc[key]; used {
			continue
		}
		clash := false
		for _, f := range c.Fields {
			if f.Name == key || strings.HasPrefix(f.Name, key+".") {
				clash = true
			}
		}
		if clash && rng.Intn(4) != 0 {
			continue
		}
		doc[key] = genAny(rng, 0)
	}
	return doc
}

func genSchema(rng *rand.Rand, name string) *Coll {
	c := &Coll{Name: name, IDName: "_id"}
	if rng.Intn(4) == 0 {
		c.IDName = pick(rng, []string{"docid", "ID", "my-id"})
	}
	nf := 2 + rng.Intn(4)
	perm := rng.Perm(len(fieldNames))
	for _, pi := range perm {
		if len(c.Fields) >= nf {
			break
		}
		nm := fieldNames[pi]
		ok := true
		for _, f := range c.Fields { // a field and a nested field below it cannot both hold values
			if strings.HasPrefix(f.Name, nm+".") || strings.HasPrefix(nm, f.Name+".") {
				ok = false
			}
		}
		if !ok && rng.Intn(5) != 0 {
			continue
		}
		c.nextGen++
		c.Fields = append(c.Fields, Field{Name: nm, Type: pick(rng, fieldTypes), Gen: c.nextGen})
	}
	for i, n := 0, rng.Intn(3); i < n; i++ {
		cols := genIndexCols(rng, c)
		if cols == nil || c.hasIndex(cols) >= 0 {
			continue
		}
		c.Indexes = append(c.Indexes, Index{Cols: cols, Unique: rng.Intn(4) == 0})
	}
	// unique indexes first, shorter ones first: the read the harness issues before every insert
	// (ORDER BY the unique index's columns) is then answered from that very index -- the planner takes
	// the first index that covers the ordering -- which brings its snapshot up to date (see the known
	// finding [unique-stale-snapshot])
	sort.SliceStable(c.Indexes, func(i, j int) bool {
		a, b := c.Indexes[i], c.Indexes[j]
		if a.Unique != b.Unique {
			return a.Unique
		}
		return a.Unique && len(a.Cols) < len(b.Cols)
	})
	return c
}

func genIndexCols(rng *rand.Rand, c *Coll) []string {
	if len(c.Fields) == 0 {
		return nil
	}
	f1 := pick(rng, c.Fields).Name
	if rng.Intn(3) != 0 || len(c.Fields) < 2 {
		return []string{f1}
	}
	f2 := pick(rng, c.Fields).Name
	// (two STRING columns give entry keys longer than the store accepts: CreateIndex must refuse them)
	if f2 == f1 {
		return []string{f1}
	}
	return []string{f1, f2}
}

var ops = []protomodel.ComparisonOperator{
	protomodel.ComparisonOperator_EQ, protomodel.ComparisonOperator_NE, protomodel.ComparisonOperator_LT,
	protomodel.ComparisonOperator_LE, protomodel.ComparisonOperator_GT, protomodel.ComparisonOperator_GE,
}

// genConst: a constant for a comparison on field f, mostly a value some live document holds
func genConst(rng *rand.Rand, c *Coll, f *Field, o genOpts) any {
	if rng.Intn(10) == 0 {
		return nil
	}
	if rng.Intn(2) == 0 {
		live := c.live()
		if len(live) > 0 {
			d := pick(rng, live)
			if v, ok := pathGet(d.Cur(), f.Name); ok {
				if _, good := toCval(f.Type, v, mode{}); good && v != nil {
					if fv, isNum := v.(float64); isNum && f.Type == tDbl && fv == 0 && o.edgy && rng.Intn(2) == 0 {
						return -fv // the zero of the other sign
					}
					return v
				}
			}
		}
	}
	return genTyped(rng, f.Type, o.edgy)
}

func genQuery(rng *rand.Rand, c *Coll, o genOpts) *Query {
	q := &Query{}
	ng := []int{0, 1, 1, 1, 2, 2, 3}[rng.Intn(7)]
	for g := 0; g < ng; g++ {
		var grp []Cmp
		for i, n := 0, 1+rng.Intn(3); i < n; i++ {
			if rng.Intn(12) == 0 || len(c.Fields) == 0 {
				live := c.live()
				var v any = "00"
				if len(live) > 0 && rng.Intn(5) != 0 {
					v = pick(rng, live).ID
				}
				grp = append(grp, Cmp{c.IDName, pick(rng, ops), v})
				continue
			}
			var f *Field
			if len(grp) > 0 && rng.Intn(2) == 0 { // several comparisons on one field: ranges
				f = c.field(grp[len(grp)-1].Field)
			}
			if f == nil {
				f = &c.Fields[rng.Intn(len(c.Fields))]
			}
			grp = append(grp, Cmp{f.Name, pick(rng, ops), genConst(rng, c, f, o)})
		}
		q.Groups = append(q.Groups, grp)
	}
	if rng.Intn(2) == 0 {
		for i, n := 0, 1+rng.Intn(2); i < n; i++ {
			fn := c.IDName
			if len(c.Fields) > 0 && rng.Intn(6) != 0 {
				fn = pick(rng, c.Fields).Name
			}
			desc := rng.Intn(2) == 0
			if i > 0 && rng.Intn(2) == 0 {
				desc = q.Order[0].Desc
			}
			q.Order = append(q.Order, Ord{fn, desc})
		}
	}
	if rng.Intn(3) == 0 {
		q.Limit = uint32(1 + rng.Intn(4))
	}
	return q
}

func genOffset(rng *rand.Rand) int64 {
	if rng.Intn(3) == 0 {
		return int64(rng.Intn(4))
	}
	return 0
}

func byID(c *Coll, id string) *Query {
	return &Query{Groups: [][]Cmp{{{c.IDName, protomodel.ComparisonOperator_EQ, id}}}}
}

func fakeID(n int) string { return fmt.Sprintf("ffffffffffffffffffffffff%08x", n) }
