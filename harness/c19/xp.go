package c19

import (
	"fmt"
)

func XP() {
	g, _ := openEng()
	c := &Coll{Name: "u", IDName: "_id", Fields: []Field{{"n", tInt, 1}}, Indexes: []Index{{[]string{"n"}, true}}}
	fmt.Println("create u", g.createCollection(c))
	ids, err := g.insert("u", []map[string]any{{"n": 1.0, "k": 1.0}, {"n": 1.0, "k": 2.0}})
	fmt.Println("insert two equal in one call:", ids, err)
	r, _ := g.search("u", &Query{}, 0)
	fmt.Println("live", len(r))
	ids, err = g.insert("u", []map[string]any{{"n": 5.0}, {"n": 6.0}, {"n": 7.0}})
	fmt.Println("insert 5,6,7:", err)
	w, err := g.replace("u", &Query{Groups: [][]Cmp{{{"n", opGE, 5.0}}}}, map[string]any{"n": 9.0})
	fmt.Println("replace all n>=5 with n=9:", w, err)
	r, _ = g.search("u", &Query{}, 0)
	for _, f := range r {
		fmt.Println("  ", f.Doc)
	}
}
