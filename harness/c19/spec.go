// Package c19: correspondence cases and direct checks for the document layer (property C19).
//
// spec.go: the harness's own list of JSON documents (the abstract spec the theorems are about) and
// the evaluation of a query on the stored PAYLOADS.
package c19

import (
	"bytes"
	"encoding/hex"
	"math"
	"sort"
	"strings"

	"github.com/codenotary/immudb/pkg/api/protomodel"
	"github.com/google/uuid"
)

// JSON values: nil, bool, float64, string, []any, map[string]any

type Field struct {
	Name string
	Type protomodel.FieldType
	Gen  int // generation of the column (a field removed and added again is a new column)
}

type Index struct {
	Cols            []string
	Unique          bool
	CreatedNonEmpty bool // a unique index the engine let be created although documents existed
}

type Version struct {
	Doc  map[string]any // nil: deleted
	Gens map[string]int // generation of each typed field when this version was written
}

type Doc struct {
	ID       string // hex
	Versions []Version
}

func (d *Doc) Cur() map[string]any {
	if len(d.Versions) == 0 {
		return nil
	}
	return d.Versions[len(d.Versions)-1].Doc
}

type Coll struct {
	Name    string
	IDName  string
	Fields  []Field
	Indexes []Index
	Docs    []*Doc
	nextGen int
}

func (c *Coll) field(name string) *Field {
	for i := range c.Fields {
		if c.Fields[i].Name == name {
			return &c.Fields[i]
		}
	}
	return nil
}

func (c *Coll) doc(id string) *Doc {
	for _, d := range c.Docs {
		if d.ID == id {
			return d
		}
	}
	return nil
}

func (c *Coll) live() []*Doc {
	var out []*Doc
	for _, d := range c.Docs {
		if d.Cur() != nil {
			out = append(out, d)
		}
	}
	sort.Slice(out, func(i, j int) bool { return out[i].ID < out[j].ID })
	return out
}

func (c *Coll) gens() map[string]int {
	m := map[string]int{}
	for _, f := range c.Fields {
		m[f.Name] = f.Gen
	}
	return m
}

func (c *Coll) hasIndex(cols []string) int {
	for i, ix := range c.Indexes {
		if strings.Join(ix.Cols, "\x00") == strings.Join(cols, "\x00") {
			return i
		}
	}
	return -1
}

// pathGet: the meaning of a field path (nested lookup, at most 3 segments as the engine's default)
func pathGet(doc map[string]any, path string) (any, bool) {
	segs := strings.SplitN(path, ".", 3)
	cur := doc
	for i, s := range segs {
		v, ok := cur[s]
		if !ok {
			return nil, false
		}
		if i == len(segs)-1 {
			return v, true
		}
		m, isObj := v.(map[string]any)
		if !isObj {
			return nil, false
		}
		cur = m
	}
	return nil, false
}

// ---- comparable values: kind 0 null, 1 number, 2 string, 3 bool, 4 bytes ----
type cval struct {
	kind int
	f    float64
	s    string
	b    bool
	i    int64
	isI  bool // compare as int64 (engine semantics of INTEGER columns)
}

func cmpCval(a, b cval) int {
	if a.kind != b.kind {
		if a.kind < b.kind {
			return -1
		}
		return 1
	}
	switch a.kind {
	case 1:
		if a.isI && b.isI {
			switch {
			case a.i < b.i:
				return -1
			case a.i > b.i:
				return 1
			}
			return 0
		}
		switch {
		case a.f < b.f:
			return -1
		case a.f > b.f:
			return 1
		}
		return 0
	case 2, 4:
		return bytes.Compare([]byte(a.s), []byte(b.s))
	case 3:
		switch {
		case a.b == b.b:
			return 0
		case !a.b:
			return -1
		}
		return 1
	}
	return 0
}

// evaluation mode: spec = the payload itself; the two switches reproduce known deviations of the
// engine and are used ONLY to attribute a direct finding to a known cause
type mode struct {
	truncInt bool // INTEGER columns hold int64(float64)
	lateNull bool // a column added after the version was written is NULL
}

// toCval converts a JSON value of a typed field (or a query constant) into a comparable value.
// ok=false: the value cannot be a value of that type.
func toCval(t protomodel.FieldType, v any, m mode) (cval, bool) {
	if v == nil {
		return cval{kind: 0}, true
	}
	switch t {
	case protomodel.FieldType_INTEGER:
		f, ok := v.(float64)
		if !ok {
			return cval{}, false
		}
		if !m.truncInt && !(f == math.Trunc(f) && f >= -9223372036854775808.0 && f < 9223372036854775808.0) {
			return cval{}, false // only numbers with an exact int64 representation are values of an INTEGER field
		}
		if m.truncInt {
			return cval{kind: 1, i: int64(f), isI: true}, true
		}
		return cval{kind: 1, f: f}, true
	case protomodel.FieldType_DOUBLE:
		f, ok := v.(float64)
		if !ok {
			return cval{}, false
		}
		return cval{kind: 1, f: f}, true
	case protomodel.FieldType_STRING:
		s, ok := v.(string)
		if !ok {
			return cval{}, false
		}
		return cval{kind: 2, s: s}, true
	case protomodel.FieldType_BOOLEAN:
		b, ok := v.(bool)
		if !ok {
			return cval{}, false
		}
		return cval{kind: 3, b: b}, true
	case protomodel.FieldType_UUID:
		s, ok := v.(string)
		if !ok {
			return cval{}, false
		}
		u, err := uuid.Parse(s)
		if err != nil {
			return cval{}, false
		}
		return cval{kind: 4, s: string(u[:])}, true
	}
	return cval{}, false
}

func idCval(v any) (cval, bool) {
	if v == nil {
		return cval{kind: 0}, true
	}
	s, ok := v.(string)
	if !ok {
		return cval{}, false
	}
	b, err := hex.DecodeString(s)
	if err != nil || len(b) == 0 || len(b) > 32 {
		return cval{}, false
	}
	return cval{kind: 4, s: string(b)}, true
}

// value of a column for a stored version
func (c *Coll) colVal(d *Doc, name string, m mode) cval {
	if name == c.IDName {
		b, _ := hex.DecodeString(d.ID)
		return cval{kind: 4, s: string(b)}
	}
	f := c.field(name)
	if f == nil {
		return cval{}
	}
	ver := d.Versions[len(d.Versions)-1]
	if m.lateNull && ver.Gens[name] != f.Gen {
		return cval{}
	}
	v, ok := pathGet(ver.Doc, name)
	if !ok {
		return cval{}
	}
	cv, ok := toCval(f.Type, v, m)
	if !ok {
		return cval{}
	}
	return cv
}

type Cmp struct {
	Field string
	Op    protomodel.ComparisonOperator
	Val   any
}

type Ord struct {
	Field string
	Desc  bool
}

type Query struct {
	Groups [][]Cmp
	Order  []Ord
	Limit  uint32
}

func satisfies(c int, op protomodel.ComparisonOperator) bool {
	switch op {
	case protomodel.ComparisonOperator_EQ:
		return c == 0
	case protomodel.ComparisonOperator_NE:
		return c != 0
	case protomodel.ComparisonOperator_LT:
		return c < 0
	case protomodel.ComparisonOperator_LE:
		return c <= 0
	case protomodel.ComparisonOperator_GT:
		return c > 0
	case protomodel.ComparisonOperator_GE:
		return c >= 0
	}
	return false
}

// queryValid: would the query be accepted (known fields, constants of the field's type)
func (c *Coll) queryValid(q *Query) bool {
	for _, g := range q.Groups {
		if len(g) == 0 {
			return false
		}
		for _, cm := range g {
			if cm.Field == c.IDName {
				if _, ok := idCval(cm.Val); !ok {
					return false
				}
				continue
			}
			f := c.field(cm.Field)
			if f == nil {
				return false
			}
			if _, ok := toCval(f.Type, cm.Val, mode{}); !ok {
				return false
			}
		}
	}
	for _, o := range q.Order {
		if o.Field != c.IDName && c.field(o.Field) == nil {
			return false
		}
	}
	return true
}

func (c *Coll) matches(d *Doc, q *Query, m mode) bool {
	if len(q.Groups) == 0 {
		return true
	}
	for _, g := range q.Groups {
		all := true
		for _, cm := range g {
			var k cval
			if cm.Field == c.IDName {
				k, _ = idCval(cm.Val)
			} else {
				k, _ = toCval(c.field(cm.Field).Type, cm.Val, m)
			}
			if !satisfies(cmpCval(c.colVal(d, cm.Field, m), k), cm.Op) {
				all = false
				break
			}
		}
		if all {
			return true
		}
	}
	return false
}

func (c *Coll) ordCmp(a, b *Doc, ord []Ord, m mode) int {
	for _, o := range ord {
		r := cmpCval(c.colVal(a, o.Field, m), c.colVal(b, o.Field, m))
		if o.Desc {
			r = -r
		}
		if r != 0 {
			return r
		}
	}
	return 0
}

// matched: live documents whose payload satisfies the filter, sorted by the ORDER BY keys
// (ties in id order; the tie order is not part of any check)
func (c *Coll) matched(q *Query, m mode) []*Doc {
	var out []*Doc
	for _, d := range c.live() {
		if c.matches(d, q, m) {
			out = append(out, d)
		}
	}
	sort.SliceStable(out, func(i, j int) bool { return c.ordCmp(out[i], out[j], q.Order, m) < 0 })
	return out
}

func pageLen(n int, off int64, lim uint32) int {
	r := n - int(off)
	if r < 0 {
		r = 0
	}
	if lim > 0 && r > int(lim) {
		r = int(lim)
	}
	return r
}

// validPage: ids is the page (off, lim) of SOME ordering of the matching documents that is sorted
// by the ORDER BY keys (order among equal keys is free).
func (c *Coll) validPage(q *Query, off int64, ids []string, m mode) bool {
	pre := c.matched(q, m)
	if len(ids) != pageLen(len(pre), off, q.Limit) {
		return false
	}
	byID := map[string]*Doc{}
	for _, d := range pre {
		byID[d.ID] = d
	}
	seen := map[string]bool{}
	rows := make([]*Doc, len(ids))
	for i, id := range ids {
		d := byID[id]
		if d == nil || seen[id] {
			return false
		}
		seen[id] = true
		rows[i] = d
	}
	for i := 1; i < len(rows); i++ {
		if c.ordCmp(rows[i-1], rows[i], q.Order, m) > 0 {
			return false
		}
	}
	if len(rows) == 0 {
		return true
	}
	first, last := rows[0], rows[len(rows)-1]
	nL, nE := 0, 0
	for _, d := range pre {
		if seen[d.ID] {
			continue
		}
		cf := c.ordCmp(d, first, q.Order, m)
		switch {
		case cf < 0:
			nL++
		case cf == 0:
			nE++
		default:
			if c.ordCmp(d, last, q.Order, m) < 0 {
				return false
			}
		}
	}
	if int64(nL) > off || off > int64(nL+nE) {
		return false
	}
	if c.ordCmp(first, last, q.Order, m) < 0 && off != int64(nL+nE) {
		return false
	}
	return true
}

// ---- deep equality of JSON values, distinguishing -0 from +0 ----
func jsonEqual(a, b any) bool {
	switch x := a.(type) {
	case nil:
		return b == nil
	case bool:
		y, ok := b.(bool)
		return ok && x == y
	case float64:
		y, ok := b.(float64)
		return ok && math.Float64bits(x) == math.Float64bits(y)
	case string:
		y, ok := b.(string)
		return ok && x == y
	case []any:
		y, ok := b.([]any)
		if !ok || len(x) != len(y) {
			return false
		}
		for i := range x {
			if !jsonEqual(x[i], y[i]) {
				return false
			}
		}
		return true
	case map[string]any:
		y, ok := b.(map[string]any)
		if !ok || len(x) != len(y) {
			return false
		}
		for k, v := range x {
			w, ok := y[k]
			if !ok || !jsonEqual(v, w) {
				return false
			}
		}
		return true
	}
	return false
}

func cloneJSON(v any) any {
	switch x := v.(type) {
	case []any:
		o := make([]any, len(x))
		for i := range x {
			o[i] = cloneJSON(x[i])
		}
		return o
	case map[string]any:
		o := make(map[string]any, len(x))
		for k, w := range x {
			o[k] = cloneJSON(w)
		}
		return o
	}
	return v
}

// tuple of a unique index for a live document, payload semantics; used for the duplicate check
func (c *Coll) tupleKey(d *Doc, cols []string, m mode) string {
	var sb strings.Builder
	for _, col := range cols {
		v := c.colVal(d, col, m)
		sb.WriteByte(byte('0' + v.kind))
		switch v.kind {
		case 1:
			if v.isI {
				sb.WriteString(strings.TrimSpace(strings.Join([]string{"i", itoa(v.i)}, "")))
			} else {
				f := v.f
				if f == 0 {
					f = 0 // -0 and +0 are the same value
				}
				sb.WriteString(ftoa(f))
			}
		case 2, 4:
			sb.WriteString(hex.EncodeToString([]byte(v.s)))
		case 3:
			if v.b {
				sb.WriteByte('t')
			} else {
				sb.WriteByte('f')
			}
		}
		sb.WriteByte('|')
	}
	return sb.String()
}
