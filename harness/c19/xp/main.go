package main

import "verif/harness/c19"

func main() { c19.XP() }
