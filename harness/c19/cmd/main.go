package main

import (
	"verif/harness/c19"
	"verif/harness/vk"
)

func main() { vk.Main("Tie.C19", c19.Gen, c19.Replay) }
