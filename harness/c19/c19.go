package c19

// c19.go: histories of operations on the real document.Engine, checked directly against the
// harness's own list of JSON documents (r.Finding) and recorded for the Coq model (r.Case)

import (
	"fmt"
	"math"
	"math/rand"
	"os"
	"sort"
	"strings"

	"verif/harness/vk"
)

type hist struct {
	r    *vk.Run
	rng  *rand.Rand
	g    *Eng
	c    *Coll
	o    genOpts
	seed int64
	name string

	steps     []string // Coq terms "(op, obs)"
	log       []string
	viol      int // direct findings not attributed to a known cause
	known     int
	feats     map[string]bool
	serial    int
	nfake     int
	wrote     bool
	dead      bool // a call did not return: the engine is abandoned
	nops      int
	noRefresh bool // do not read through the unique indexes before an insert (witness of the stale-snapshot defect)
	hits      int  // searches that returned at least one document
}

func (h *hist) logf(f string, a ...any) {
	h.log = append(h.log, fmt.Sprintf(f, a...))
	if trace {
		fmt.Fprintf(os.Stderr, "[%s %d] %s\n", h.name, h.seed, h.log[len(h.log)-1])
	}
}

var trace = os.Getenv("VH_TRACE") != ""

func (h *hist) step(op, obs string) { h.steps = append(h.steps, "("+op+", "+obs+")") }

// finding: label == "" means the implementation violates the property statement for a reason
// that is not one of the known ones
func (h *hist) finding(label, what string) {
	txt := fmt.Sprintf("C19 %s%s | history seed=%d (%s) | %s | replay file: {\"case\":{\"hseed\":\"%d\",\"cfg\":\"%s\",\"edgy\":%v,\"nops\":%d}}",
		label, what, h.seed, h.name, h.schemaString(), h.seed, h.name, h.o.edgy, h.nops)
	if label == "" {
		h.viol++
	} else {
		h.known++
		h.feats[label] = true
	}
	h.logf("FINDING %s%s", label, what)
	h.r.Finding(txt)
}

func (h *hist) schemaString() string {
	var fs []string
	for _, f := range h.c.Fields {
		fs = append(fs, f.Name+":"+f.Type.String())
	}
	var ix []string
	for _, i := range h.c.Indexes {
		u := ""
		if i.Unique {
			u = " unique"
		}
		ix = append(ix, "("+strings.Join(i.Cols, ",")+")"+u)
	}
	return "fields[" + strings.Join(fs, " ") + "] indexes[" + strings.Join(ix, " ") + "]"
}

func errObs(err error) string {
	if err != nil {
		return "BErr"
	}
	return "BOk"
}

func (h *hist) checkPanic(what string, err error) {
	if err != nil && isPanic(err) {
		h.finding("", what+": "+err.Error())
	}
	if err != nil && isHung(err) {
		lbl := ""
		if h.twoStringIndex() {
			lbl = lblTwoStr
		}
		h.finding(lbl, what+" does not return: "+h.log[len(h.log)-1])
		h.dead = true
	}
}

// hasLongConst: the query compares a STRING field with a constant longer than the column
func (h *hist) hasLongConst(q *Query) bool {
	for _, g := range q.Groups {
		for _, cm := range g {
			f := h.c.field(cm.Field)
			if sv, isS := cm.Val.(string); f != nil && f.Type == tStr && isS && len(sv) > 512 {
				return true
			}
		}
	}
	return false
}

// longConstOnIndexed: a string constant longer than the 512-byte column on an indexed STRING field
// (the range bound cannot be encoded as a key; the same query works when no index is used)
func (h *hist) longConstOnIndexed(q *Query) bool {
	for _, g := range q.Groups {
		for _, cm := range g {
			f := h.c.field(cm.Field)
			sv, isS := cm.Val.(string)
			if f == nil || f.Type != tStr || !isS || len(sv) <= 512 {
				continue
			}
			for _, ix := range h.c.Indexes {
				for _, col := range ix.Cols {
					if col == cm.Field {
						return true
					}
				}
			}
		}
	}
	return false
}

// twoStringIndex: an index over two STRING fields exists (its keys exceed the store's key limit)
func (h *hist) twoStringIndex() bool {
	for _, ix := range h.c.Indexes {
		n := 0
		for _, col := range ix.Cols {
			if f := h.c.field(col); f != nil && f.Type == tStr {
				n++
			}
		}
		if n >= 2 {
			return true
		}
	}
	return false
}

// ---------- known deviations used to attribute a direct finding ----------
const (
	lblTrunc  = "[int-trunc] "
	lblLate   = "[late-field] "
	lblNegZ   = "[negzero-index] "
	lblUnique = "[unique-after-tombstone/C12] "
	lblStale  = "[unique-stale-snapshot] "
	lblTwoStr = "[two-string-index] "
	lblLongC  = "[long-constant-index] "
	lblUCrNE  = "[unique-created-nonempty/C12] "
)

var engineModes = []struct {
	m   mode
	lbl string
}{
	{mode{truncInt: true}, lblTrunc},
	{mode{lateNull: true}, lblLate},
	{mode{truncInt: true, lateNull: true}, lblTrunc + lblLate},
}

// negZeroFeature: the query compares an indexed DOUBLE field with a zero while a live document
// holds the zero of the other sign in that field
func (h *hist) negZeroFeature(q *Query) bool {
	for _, g := range q.Groups {
		for _, cm := range g {
			f := h.c.field(cm.Field)
			k, isNum := cm.Val.(float64)
			if f == nil || f.Type != tDbl || !isNum || k != 0 {
				continue
			}
			indexed := false
			for _, ix := range h.c.Indexes {
				for _, col := range ix.Cols {
					if col == cm.Field {
						indexed = true
					}
				}
			}
			if !indexed {
				continue
			}
			for _, d := range h.c.live() {
				if v, ok := pathGet(d.Cur(), cm.Field); ok {
					if fv, isF := v.(float64); isF && fv == 0 && math.Signbit(fv) != math.Signbit(k) {
						return true
					}
				}
			}
		}
	}
	return false
}

// attribute: the engine returned `ids` for (q, off) and that is not a valid answer on the payloads
func (h *hist) attribute(q *Query, off int64, ids []string) string {
	for _, em := range engineModes {
		if h.c.validPage(q, off, ids, em.m) {
			return em.lbl
		}
	}
	if h.negZeroFeature(q) {
		return lblNegZ
	}
	return ""
}

func idsOf(fs []found) []string {
	out := make([]string, len(fs))
	for i, f := range fs {
		out[i] = f.ID
	}
	return out
}

func short(ids []string) string {
	p := make([]string, len(ids))
	for i, id := range ids {
		if len(id) > 6 {
			id = id[len(id)-6:]
		}
		p[i] = id
	}
	return "[" + strings.Join(p, " ") + "]"
}

// ---------- operations ----------

// doSearch runs one query, checks it directly and records it; returns the ids (nil on error)
func (h *hist) doSearch(q *Query, off int64, withCount bool) ([]string, bool) {
	qs := queryString(q)
	h.logf("search %s off=%d ...", qs, off)
	res, err := h.g.search(h.c.Name, q, off)
	h.checkPanic("search", err)
	if h.dead {
		return nil, false
	}
	if err != nil {
		h.step(fmt.Sprintf("OSearch %s %d", queryTerm(q), off), "BErr")
		h.logf("search %s off=%d -> ERR %v", qs, off, err)
		if h.c.queryValid(q) {
			lbl := ""
			if h.longConstOnIndexed(q) {
				lbl = lblLongC
			}
			h.finding(lbl, fmt.Sprintf("search rejected a well-formed query: %s off=%d: %v", qs, off, err))
		}
		return nil, false
	}
	ids := idsOf(res)
	h.step(fmt.Sprintf("OSearch %s %d", queryTerm(q), off), "BIds "+idsTerm(ids))
	h.logf("search %s off=%d -> %s", qs, off, short(ids))
	if len(ids) > 0 {
		h.hits++
	}
	if h.c.queryValid(q) {
		if !h.c.validPage(q, off, ids, mode{}) {
			lbl := h.attribute(q, off, ids)
			var want []string
			for _, d := range h.c.matched(q, mode{}) {
				want = append(want, d.ID)
			}
			h.finding(lbl, fmt.Sprintf("search returns documents that are not (a page of) the documents whose payload satisfies the filter: %s off=%d returned %s, satisfying %s; documents %s",
				qs, off, short(ids), short(want), h.docsString()))
		}
		// every returned document is the stored payload, unchanged
		for _, f := range res {
			d := h.c.doc(f.ID)
			if d == nil || d.Cur() == nil {
				continue // already reported by validPage
			}
			if !jsonEqual(f.Doc, d.Cur()) {
				h.finding("", fmt.Sprintf("search returned document %s changed: got %s stored %s", f.ID, jsonString(f.Doc), jsonString(d.Cur())))
			}
		}
	}
	if withCount {
		n, err := h.g.count(h.c.Name, q, off)
		h.checkPanic("count", err)
		if err != nil {
			h.step(fmt.Sprintf("OCount %s %d", queryTerm(q), off), "BErr")
			h.finding("", fmt.Sprintf("count fails where search succeeds: %s off=%d: %v", qs, off, err))
		} else {
			h.step(fmt.Sprintf("OCount %s %d", queryTerm(q), off), fmt.Sprintf("BCount %d", n))
			if int(n) != len(ids) {
				h.finding("", fmt.Sprintf("count %d differs from the %d documents the search returns: %s off=%d", n, len(ids), qs, off))
			}
		}
	}
	return ids, true
}

func (h *hist) docsString() string {
	var p []string
	for _, d := range h.c.live() {
		id := d.ID
		p = append(p, id[len(id)-6:]+"="+jsonString(d.Cur()))
	}
	s := strings.Join(p, " ")
	if len(s) > 1500 {
		s = s[:1500] + "..."
	}
	return s
}

// observe: after a mutation, the live set and (for the touched ids) lookup + audit trail
func (h *hist) observe(touched []string) {
	all := &Query{}
	ids, ok := h.doSearch(all, 0, false)
	if ok {
		want := []string{}
		for _, d := range h.c.live() {
			want = append(want, d.ID)
		}
		got := append([]string{}, ids...)
		sort.Strings(got)
		if strings.Join(got, ",") != strings.Join(want, ",") {
			// reported by doSearch already (validPage); keep the spec in step with the engine? no: a
			// divergence here is a violation and the history ends
		}
	}
	for _, id := range touched {
		h.checkDoc(id)
	}
}

// checkDoc: id lookup (search by id and GetEncodedDocument) and the audit trail of one document
func (h *hist) checkDoc(id string) {
	d := h.c.doc(id)
	if d == nil {
		return
	}
	cur := d.Cur()
	// lookup through a search on the id field
	res, err := h.g.search(h.c.Name, byID(h.c, id), 0)
	h.checkPanic("lookup", err)
	switch {
	case err != nil:
		h.finding("", fmt.Sprintf("lookup of document %s fails: %v", id, err))
	case cur == nil && len(res) != 0:
		h.finding("", fmt.Sprintf("lookup returns deleted document %s", id))
	case cur != nil && (len(res) != 1 || res[0].ID != id || !jsonEqual(res[0].Doc, cur)):
		h.finding("", fmt.Sprintf("lookup by id does not return the stored document unchanged: id %s got %v stored %s", id, res, jsonString(cur)))
	}
	// revision + payload through GetEncodedDocument
	rev, doc, err := h.g.get(h.c.Name, id)
	h.checkPanic("get", err)
	if err != nil {
		h.step("OGet "+hexID(id), "BErr")
		if cur != nil {
			h.finding("", fmt.Sprintf("stored document %s not found: %v", id, err))
		}
	} else {
		h.step("OGet "+hexID(id), fmt.Sprintf("BGet %d", rev))
		if cur == nil {
			h.finding("", fmt.Sprintf("deleted document %s still returned", id))
		} else {
			if !jsonEqual(doc, cur) {
				h.finding("", fmt.Sprintf("document %s returned changed: got %s stored %s", id, jsonString(doc), jsonString(cur)))
			}
			if int(rev) != len(d.Versions) {
				h.finding("", fmt.Sprintf("revision of document %s is %d after %d writes", id, rev, len(d.Versions)))
			}
		}
	}
	// audit trail, complete and in order
	desc := h.rng.Intn(4) == 0
	off := uint64(0)
	lim := 1000
	if h.rng.Intn(4) == 0 {
		off = uint64(h.rng.Intn(len(d.Versions) + 1))
		lim = 1 + h.rng.Intn(3)
	}
	au, err := h.g.audit(h.c.Name, id, desc, off, lim)
	h.checkPanic("audit", err)
	opT := fmt.Sprintf("OAudit %s %v %d %d", hexID(id), desc, off, lim)
	if err != nil {
		h.step(opT, "BErr")
		if int(off) < len(d.Versions) {
			h.finding("", fmt.Sprintf("audit of document %s fails: %v", id, err))
		}
		return
	}
	var want []auditEntry
	for i, v := range d.Versions {
		want = append(want, auditEntry{Rev: uint64(i + 1), Deleted: v.Doc == nil, Doc: v.Doc})
	}
	if desc {
		for i, j := 0, len(want)-1; i < j; i, j = i+1, j-1 {
			want[i], want[j] = want[j], want[i]
		}
	}
	if int(off) <= len(want) {
		want = want[off:]
	}
	if len(want) > lim {
		want = want[:lim]
	}
	var terms []string
	okAudit := len(au) == len(want)
	for i, a := range au {
		terms = append(terms, fmt.Sprintf("(%d, %v)", a.Rev, a.Deleted || a.Doc == nil))
		if okAudit {
			w := want[i]
			if a.Rev != w.Rev || a.Deleted != w.Deleted || (!w.Deleted && !jsonEqual(a.Doc, w.Doc)) {
				okAudit = false
			}
		}
	}
	h.step(opT, "BAudit ["+strings.Join(terms, "; ")+"]")
	if !okAudit {
		h.finding("", fmt.Sprintf("audit trail of document %s (desc=%v off=%d lim=%d) is not the list of its %d revisions in order: got %d entries %v",
			id, desc, off, lim, len(d.Versions), len(au), au))
	}
}

func (h *hist) doInsert() {
	n := 1
	if h.rng.Intn(4) == 0 {
		n = 2 + h.rng.Intn(2)
	}
	docs := make([]map[string]any, n)
	for i := range docs {
		h.serial++
		docs[i] = genDoc(h.rng, h.c, h.serial, h.o)
	}
	if h.rng.Intn(60) == 0 {
		docs[0][h.c.IDName] = "00ff" // an id must not be supplied on insert
	}
	h.insertDocs(docs)
}

func (h *hist) insertDocs(docs []map[string]any) []string {
	// InsertDocuments checks uniqueness on whatever snapshot of the unique index was flushed last
	// (known finding [unique-stale-snapshot]); reading through the index first makes it current,
	// which is the situation the model describes
	if !h.noRefresh {
		for _, ix := range h.c.Indexes {
			if ix.Unique {
				var ord []Ord
				for _, col := range ix.Cols {
					ord = append(ord, Ord{col, false})
				}
				h.doSearch(&Query{Order: ord, Limit: 1}, 0, false)
			}
		}
	}
	ids, err := h.g.insert(h.c.Name, docs)
	h.checkPanic("insert", err)
	pairs := make([]string, len(docs))
	if err != nil {
		for i, d := range docs {
			h.nfake++
			pairs[i] = fmt.Sprintf("(%s, %s)", hexID(fakeID(h.nfake)), jvTerm(d))
		}
		h.step("OInsert ["+strings.Join(pairs, "; ")+"]", "BErr")
		var all []string
		for _, d := range docs {
			all = append(all, jsonString(d))
		}
		h.logf("insert %s -> ERR %v", strings.Join(all, " + "), err)
		// direct: a document whose typed fields hold values of their types must be accepted when
		// no unique index can object
		if !h.hasUnique() && h.allWellTyped(docs) {
			h.finding("", fmt.Sprintf("insert of a well-typed document rejected: %s: %v", jsonString(docs[0]), err))
		}
		return nil
	}
	if !h.allWellTyped(docs) {
		h.finding("", fmt.Sprintf("insert accepted a document with a typed field holding a value that is not of the field's type (or an id / _doc key): %s", jsonString(docs[0])))
	}
	obs := make([]string, len(docs))
	gens := h.c.gens()
	for i, d := range docs {
		pairs[i] = fmt.Sprintf("(%s, %s)", hexID(ids[i]), jvTerm(d))
		obs[i] = fmt.Sprintf("(%s, 1)", hexID(ids[i]))
		stored := cloneJSON(d).(map[string]any)
		stored[h.c.IDName] = ids[i]
		h.c.Docs = append(h.c.Docs, &Doc{ID: ids[i], Versions: []Version{{Doc: stored, Gens: gens}}})
		h.logf("insert %s -> %s", jsonString(d), ids[i])
	}
	h.wrote = true
	h.step("OInsert ["+strings.Join(pairs, "; ")+"]", "BWritten ["+strings.Join(obs, "; ")+"]")
	h.checkUnique()
	h.observe(ids)
	return ids
}

func (h *hist) hasUnique() bool {
	for _, ix := range h.c.Indexes {
		if ix.Unique {
			return true
		}
	}
	return false
}

func (h *hist) allWellTyped(docs []map[string]any) bool {
	for _, d := range docs {
		if _, has := d[h.c.IDName]; has {
			return false
		}
		if _, has := d["_doc"]; has {
			return false
		}
		for _, f := range h.c.Fields {
			v, ok := pathGet(d, f.Name)
			if !ok {
				continue
			}
			if _, good := toCval(f.Type, v, mode{}); !good {
				return false
			}
			if s, isS := v.(string); isS && f.Type == tStr && len(s) > 512 {
				return false
			}
		}
	}
	return true
}

// checkUnique: no two live documents share the tuple of a unique index
func (h *hist) checkUnique() {
	for _, ix := range h.c.Indexes {
		if !ix.Unique {
			continue
		}
		seen := map[string]string{}
		for _, d := range h.c.live() {
			k := h.c.tupleKey(d, ix.Cols, mode{})
			if other, dup := seen[k]; dup {
				lbl := ""
				switch {
				case h.zeroSignsDiffer(ix.Cols, h.c.doc(other), d):
					lbl = lblNegZ // -0.0 and +0.0: one value, two keys
				case h.tombstonedBefore(ix.Cols, k):
					lbl = lblUnique
				case ix.CreatedNonEmpty:
					lbl = lblUCrNE
				case h.noRefresh:
					lbl = lblStale
				}
				h.finding(lbl, fmt.Sprintf("unique index (%s) holds duplicates: documents %s and %s share %s",
					strings.Join(ix.Cols, ","), other, d.ID, k))
			}
			seen[k] = d.ID
		}
	}
}

// zeroSignsDiffer: the two documents hold zeros of different sign in a DOUBLE column of the index
func (h *hist) zeroSignsDiffer(cols []string, a, b *Doc) bool {
	if a == nil || b == nil || !negZeroKeysDistinct() {
		return false
	}
	for _, col := range cols {
		f := h.c.field(col)
		if f == nil || f.Type != tDbl {
			continue
		}
		va, oka := pathGet(a.Cur(), col)
		vb, okb := pathGet(b.Cur(), col)
		fa, isA := va.(float64)
		fb, isB := vb.(float64)
		if oka && okb && isA && isB && fa == 0 && fb == 0 && math.Signbit(fa) != math.Signbit(fb) {
			return true
		}
	}
	return false
}

// tombstonedBefore: some document held this tuple in an earlier version and no longer does
// (deleted, or replaced by other values): the situation of the SQL layer's known defect (C12)
func (h *hist) tombstonedBefore(cols []string, key string) bool {
	for _, d := range h.c.Docs {
		for i := 0; i+1 < len(d.Versions); i++ {
			if d.Versions[i].Doc == nil {
				continue
			}
			old := &Doc{ID: d.ID, Versions: d.Versions[:i+1]}
			if h.c.tupleKey(old, cols, mode{}) != key {
				continue
			}
			nxt := d.Versions[i+1]
			if nxt.Doc == nil {
				return true
			}
			if h.c.tupleKey(&Doc{ID: d.ID, Versions: d.Versions[:i+2]}, cols, mode{}) != key {
				return true
			}
		}
	}
	return false
}

func (h *hist) doReplace() {
	live := h.c.live()
	h.serial++
	doc := genDoc(h.rng, h.c, h.serial, h.o)
	var q *Query
	switch k := h.rng.Intn(10); {
	case k < 5 && len(live) > 0: // by id
		q = byID(h.c, pick(h.rng, live).ID)
	case k < 7 && len(live) > 0: // id carried by the document
		doc[h.c.IDName] = pick(h.rng, live).ID
		q = &Query{}
		if h.rng.Intn(2) == 0 {
			q = genQuery(h.rng, h.c, h.o)
			q.Order, q.Limit = nil, 0
		}
	case k < 9: // every document matching a filter
		q = genQuery(h.rng, h.c, h.o)
		q.Order, q.Limit = nil, 0
	default: // the first / last matching document in id order
		q = genQuery(h.rng, h.c, h.o)
		q.Order = []Ord{{h.c.IDName, h.rng.Intn(2) == 0}}
		q.Limit = uint32(1 + h.rng.Intn(2))
	}
	h.replace(q, doc)
}

func (h *hist) replace(q *Query, doc map[string]any) {
	// the engine adds the id comparison to the caller's query object: predict on a copy
	eff := &Query{Groups: q.Groups, Order: q.Order, Limit: q.Limit}
	if idv, has := doc[h.c.IDName]; has {
		c := Cmp{h.c.IDName, 0, idv}
		if len(eff.Groups) == 0 {
			eff.Groups = [][]Cmp{{c}}
		} else {
			var gs [][]Cmp
			for _, g := range eff.Groups {
				gs = append(gs, append([]Cmp{c}, g...))
			}
			eff.Groups = gs
		}
	}
	w, err := h.g.replace(h.c.Name, q, doc)
	h.checkPanic("replace", err)
	opT := fmt.Sprintf("OReplace %s %s", queryTerm(q), jvTerm(doc))
	if err != nil {
		h.step(opT, "BErr")
		h.logf("replace %s with %s -> ERR %v", queryString(q), jsonString(doc), err)
		h.observe(nil)
		return
	}
	var obs, ids []string
	for _, x := range w {
		obs = append(obs, fmt.Sprintf("(%s, %d)", hexID(x.ID), x.Rev))
		ids = append(ids, x.ID)
	}
	h.step(opT, "BWritten ["+strings.Join(obs, "; ")+"]")
	h.logf("replace %s with %s -> %v", queryString(q), jsonString(doc), w)
	// direct: exactly the documents whose payload satisfies the filter are replaced
	if h.c.queryValid(eff) {
		if !h.c.validPage(eff, 0, sortedByOrder(h.c, eff, ids), mode{}) {
			lbl := h.attribute(eff, 0, sortedByOrder(h.c, eff, ids))
			h.finding(lbl, fmt.Sprintf("replace wrote documents other than those whose payload satisfies the filter: %s wrote %s; documents %s",
				queryString(eff), short(ids), h.docsString()))
		}
	}
	gens := h.c.gens()
	for _, x := range w {
		d := h.c.doc(x.ID)
		if d == nil {
			h.finding("", fmt.Sprintf("replace wrote unknown document %s", x.ID))
			continue
		}
		stored := cloneJSON(doc).(map[string]any)
		stored[h.c.IDName] = x.ID
		d.Versions = append(d.Versions, Version{Doc: stored, Gens: gens})
		if int(x.Rev) != len(d.Versions) {
			h.finding("", fmt.Sprintf("replace of %s reports revision %d for write number %d", x.ID, x.Rev, len(d.Versions)))
		}
		h.wrote = true
	}
	h.checkUnique()
	h.observe(ids)
}

// sortedByOrder puts ids into an order sorted by the query's ORDER BY (replace returns them in the
// order written, which is the selection order; the page check wants them as a result list)
func sortedByOrder(c *Coll, q *Query, ids []string) []string {
	out := append([]string{}, ids...)
	sort.SliceStable(out, func(i, j int) bool {
		a, b := c.doc(out[i]), c.doc(out[j])
		if a == nil || b == nil || a.Cur() == nil || b.Cur() == nil {
			return false
		}
		return c.ordCmp(a, b, q.Order, mode{}) < 0
	})
	return out
}

func (h *hist) doDelete() {
	live := h.c.live()
	var q *Query
	switch k := h.rng.Intn(10); {
	case k < 6 && len(live) > 0:
		q = byID(h.c, pick(h.rng, live).ID)
	case k < 9:
		q = genQuery(h.rng, h.c, h.o)
		q.Order, q.Limit = nil, 0
		if len(q.Groups) == 0 && h.rng.Intn(3) != 0 { // rarely everything
			q = genQuery(h.rng, h.c, h.o)
			q.Order, q.Limit = nil, 0
		}
	default:
		q = genQuery(h.rng, h.c, h.o)
		q.Order = []Ord{{h.c.IDName, h.rng.Intn(2) == 0}}
		q.Limit = uint32(1 + h.rng.Intn(2))
	}
	h.delete(q)
}

func (h *hist) delete(q *Query) {
	before := map[string]bool{}
	for _, d := range h.c.live() {
		before[d.ID] = true
	}
	err := h.g.delete(h.c.Name, q)
	h.checkPanic("delete", err)
	opT := "ODelete " + queryTerm(q)
	if err != nil {
		h.step(opT, "BErr")
		h.logf("delete %s -> ERR %v", queryString(q), err)
		if h.c.queryValid(q) {
			h.finding("", fmt.Sprintf("delete rejected a well-formed query: %s: %v", queryString(q), err))
		}
		h.observe(nil)
		return
	}
	h.step(opT, "BOk")
	// what disappeared, read back from the engine
	res, serr := h.g.search(h.c.Name, &Query{}, 0)
	if serr != nil {
		h.finding("", fmt.Sprintf("search of everything fails after delete: %v", serr))
		return
	}
	still := map[string]bool{}
	for _, f := range res {
		still[f.ID] = true
	}
	var gone []string
	for id := range before {
		if !still[id] {
			gone = append(gone, id)
		}
	}
	sort.Strings(gone)
	h.logf("delete %s -> removed %s", queryString(q), short(gone))
	if h.c.queryValid(q) {
		g2 := sortedByOrder(h.c, q, gone)
		if !h.c.validPage(q, 0, g2, mode{}) {
			lbl := h.attribute(q, 0, g2)
			h.finding(lbl, fmt.Sprintf("delete removed documents other than those whose payload satisfies the filter: %s removed %s; documents %s",
				queryString(q), short(gone), h.docsString()))
		}
	}
	for _, id := range gone {
		d := h.c.doc(id)
		d.Versions = append(d.Versions, Version{})
		h.wrote = true
	}
	h.observe(gone)
}

func (h *hist) doSchemaOp() {
	switch k := h.rng.Intn(10); {
	case k < 3: // add a field (new, or one removed earlier, or an existing one: error)
		nm := pick(h.rng, fieldNames)
		f := Field{Name: nm, Type: pick(h.rng, fieldTypes)}
		err := h.g.addField(h.c.Name, f)
		h.checkPanic("addField", err)
		h.step(fmt.Sprintf("OAddField %s %s", hexS(nm), ftypeTerm(f.Type)), errObs(err))
		h.logf("addField %s %s -> %v", nm, f.Type, err)
		if err == nil {
			h.c.nextGen++
			f.Gen = h.c.nextGen
			h.c.Fields = append(h.c.Fields, f)
			if len(h.c.live()) > 0 {
				h.feats["late-field"] = true
			}
		}
	case k < 4:
		if len(h.c.Fields) == 0 {
			return
		}
		nm := pick(h.rng, h.c.Fields).Name
		err := h.g.removeField(h.c.Name, nm)
		h.checkPanic("removeField", err)
		h.step("ORemoveField "+hexS(nm), errObs(err))
		h.logf("removeField %s -> %v", nm, err)
		if err == nil {
			var fs []Field
			for _, f := range h.c.Fields {
				if f.Name != nm {
					fs = append(fs, f)
				}
			}
			h.c.Fields = fs
		}
	case k < 7:
		cols := genIndexCols(h.rng, h.c)
		if cols == nil {
			return
		}
		uniq := h.rng.Intn(8) == 0
		h.createIndex(cols, uniq)
	default:
		if len(h.c.Indexes) == 0 {
			return
		}
		h.deleteIndex(pick(h.rng, h.c.Indexes).Cols)
	}
}

func (h *hist) createIndex(cols []string, uniq bool) bool {
	err := h.g.createIndex(h.c.Name, cols, uniq)
	h.checkPanic("createIndex", err)
	h.step(fmt.Sprintf("OCreateIndex %s %v", colsTerm(cols), uniq), errObs(err))
	h.logf("createIndex (%s) unique=%v -> %v", strings.Join(cols, ","), uniq, err)
	if err == nil {
		ne := uniq && len(h.c.live()) > 0
		h.c.Indexes = append(h.c.Indexes, Index{Cols: cols, Unique: uniq, CreatedNonEmpty: ne})
		if ne {
			h.logf("NOTE unique index created on a non-empty collection (the first document of the primary index is a tombstone)")
			h.checkUnique()
		}
	}
	return err == nil
}

func (h *hist) deleteIndex(cols []string) {
	err := h.g.deleteIndex(h.c.Name, cols)
	h.checkPanic("deleteIndex", err)
	h.step("ODeleteIndex "+colsTerm(cols), errObs(err))
	h.logf("deleteIndex (%s) -> %v", strings.Join(cols, ","), err)
	if err == nil {
		if i := h.c.hasIndex(cols); i >= 0 {
			h.c.Indexes = append(h.c.Indexes[:i:i], h.c.Indexes[i+1:]...)
		}
	}
}

// doQuery: one generated query, run as the schema stands, then again after an index on the
// filtered / ordering field was added (or, when one exists, after it was removed)
func (h *hist) doQuery() {
	q := genQuery(h.rng, h.c, h.o)
	off := genOffset(h.rng)
	ids1, ok1 := h.doSearch(q, off, true)
	// the typed fields the query filters / orders on
	var cand []string
	for _, g := range q.Groups {
		for _, cm := range g {
			if cm.Field != h.c.IDName && h.c.field(cm.Field) != nil {
				cand = append(cand, cm.Field)
			}
		}
	}
	for _, o := range q.Order {
		if o.Field != h.c.IDName && h.c.field(o.Field) != nil {
			cand = append(cand, o.Field)
		}
	}
	if len(cand) == 0 || h.rng.Intn(3) == 0 {
		return
	}
	cols := []string{pick(h.rng, cand)}
	if len(q.Order) == 2 && h.rng.Intn(2) == 0 && q.Order[0].Field != q.Order[1].Field &&
		h.c.field(q.Order[0].Field) != nil && h.c.field(q.Order[1].Field) != nil {
		cols = []string{q.Order[0].Field, q.Order[1].Field}
	}
	toggledOn := false
	if i := h.c.hasIndex(cols); i >= 0 {
		if h.c.Indexes[i].Unique {
			return
		}
		h.deleteIndex(cols)
	} else {
		if !h.createIndex(cols, false) {
			return
		}
		toggledOn = true
	}
	ids2, ok2 := h.doSearch(q, off, true)
	if ok1 != ok2 {
		lbl := ""
		if h.hasLongConst(q) {
			lbl = lblLongC
		}
		h.finding(lbl, fmt.Sprintf("query %s fails with the index on (%s) %s and succeeds without", queryString(q), strings.Join(cols, ","), map[bool]string{true: "present", false: "absent"}[toggledOn != ok2]))
	} else if ok1 && !samePageUpToTies(h.c, q, off, ids1, ids2) {
		lbl := ""
		if h.negZeroFeature(q) {
			lbl = lblNegZ
		}
		h.finding(lbl, fmt.Sprintf("search depends on the index on (%s): %s off=%d returns %s without and %s with it; documents %s",
			strings.Join(cols, ","), queryString(q), off, short(pickB(toggledOn, ids1, ids2)), short(pickB(toggledOn, ids2, ids1)), h.docsString()))
	}
	if toggledOn && h.rng.Intn(2) == 0 {
		h.deleteIndex(cols)
	}
}

func pickB(b bool, x, y []string) []string {
	if b {
		return x
	}
	return y
}

// samePageUpToTies: without paging the two answers hold the same documents; with paging they have
// the same length (each is separately checked to be a valid page of the matching documents)
func samePageUpToTies(c *Coll, q *Query, off int64, a, b []string) bool {
	if len(a) != len(b) {
		return false
	}
	if q.Limit == 0 && off == 0 {
		x, y := append([]string{}, a...), append([]string{}, b...)
		sort.Strings(x)
		sort.Strings(y)
		return strings.Join(x, ",") == strings.Join(y, ",")
	}
	return true
}

// ---------- one history ----------
type histCfg struct {
	name      string
	edgy      bool
	nops      int
	fixed     func(h *hist) // scripted history (witnesses of the known findings)
	coll      *Coll
	untied    bool // checked directly only (behaviour the model does not describe)
	ownEngine bool
}

// collections of successive histories live in one store (they are independent SQL tables); a
// replayed history runs alone on a fresh store
var collSeq int
var probeReported bool

func runHistory(r *vk.Run, gp **Eng, seed int64, cfg histCfg) error {
	if cfg.ownEngine { // the history is expected to wedge the engine
		own, err := openEng()
		if err != nil {
			return err
		}
		defer func() { go own.Close() }()
		gp = &own
	}
	g := *gp
	cfl := probeFlags(g)
	if !probeReported {
		probeReported = true
		if !cfl.strict {
			r.Finding("C19 probe: a non-integral number ({n:0.5}) is accepted for an INTEGER field: the column holds int64(number) while the payload keeps the number (the repair 964c526 is not in effect)")
		}
		if cfl.uf {
			r.Finding("C19 probe: unique index admits a duplicate after a tombstoned entry under the same value: insert {n:20}, delete it, insert {n:20}, insert {n:20} (the repair c876bb2 is not in effect)")
		}
	}
	rng := rand.New(rand.NewSource(seed))
	collSeq++
	resetIDs()
	h := &hist{r: r, rng: rng, g: g, seed: seed, name: cfg.name, feats: map[string]bool{}}
	h.o = genOpts{edgy: cfg.edgy, badTypes: true}
	h.nops = cfg.nops
	if cfg.coll != nil {
		h.c = cfg.coll
	} else {
		h.c = genSchema(rng, "c19")
	}
	h.c.Name = fmt.Sprintf("c19_%d", collSeq)
	// a copy of the schema as created, for the Coq case
	fields0 := make([]string, len(h.c.Fields))
	for i, f := range h.c.Fields {
		fields0[i] = fmt.Sprintf("(%s, %s)", hexS(f.Name), ftypeTerm(f.Type))
	}
	ix0 := make([]string, len(h.c.Indexes))
	for i, ix := range h.c.Indexes {
		ix0[i] = indexTerm(ix)
	}
	idn0 := h.c.IDName
	schema0 := h.schemaString()
	if err := g.createCollection(h.c); err != nil {
		// an index on two long-key columns etc.: the collection cannot be created; not a case
		r.Stats["skipped/create-collection-failed"]++
		if trace {
			fmt.Fprintf(os.Stderr, "createCollection %s: %v\n", h.schemaString(), err)
		}
		return nil
	}
	if cfg.fixed != nil {
		cfg.fixed(h)
	} else {
		for i := 0; i < cfg.nops; i++ {
			switch k := rng.Intn(100); {
			case k < 30:
				h.doInsert()
			case k < 45:
				h.doReplace()
			case k < 55:
				h.doDelete()
			case k < 63:
				h.doSchemaOp()
			default:
				h.doQuery()
			}
			if h.viol > 3 || h.dead {
				break
			}
		}
	}
	if h.dead && !cfg.ownEngine {
		// abandon the wedged engine (its goroutines may never return); later histories get a new one
		r.Stats["abandoned-engine"]++
		ng, err := openEng()
		if err != nil {
			return err
		}
		*gp = ng
	}
	if cfg.untied || h.dead {
		r.Stats["untied/"+cfg.name]++
		return nil
	}
	coq := fmt.Sprintf("(%sCHist %v %s [%s] [%s] [\n  %s])", idBindings(), cfl.nz, hexS(idn0), strings.Join(fields0, "; "), strings.Join(ix0, "; "), strings.Join(h.steps, ";\n  "))
	bucket := "hist/" + cfg.name
	if h.hasUnique() {
		bucket += "+unique"
	}
	var fl []string
	for f := range h.feats {
		fl = append(fl, strings.TrimSpace(f))
	}
	sort.Strings(fl)
	lg := h.log
	if len(lg) > 400 {
		lg = lg[:400]
	}
	r.Case(coq, map[string]any{"kind": "history", "hseed": fmt.Sprint(seed), "cfg": cfg.name, "edgy": cfg.edgy, "nops": cfg.nops,
		"schema": schema0, "flags": fmt.Sprintf("nz=%v strict=%v uf=%v", cfl.nz, cfl.strict, cfl.uf), "log": lg, "steps": len(h.steps), "viol": h.viol, "known": h.known, "features": fl},
		bucket, h.wrote && h.hits > 0)
	return nil
}

func Gen(r *vk.Run, n int) error {
	g, err := openEng()
	if err != nil {
		return err
	}
	defer func() { g.Close() }()
	// the witnesses of the known findings, always first
	for _, w := range witnesses() {
		if err := runHistory(r, &g, 1, w); err != nil {
			return err
		}
	}
	if err := proofChecks(r); err != nil {
		return err
	}
	for i := 0; i < n; i++ {
		seed := r.Rng.Int63()
		cfg := histCfg{name: "plain", nops: 12 + r.Rng.Intn(30)}
		if r.Rng.Intn(2) == 0 {
			cfg.name, cfg.edgy = "edgy", true
		}
		if err := runHistory(r, &g, seed, cfg); err != nil {
			return err
		}
		if r.Stats["abandoned-engine"] >= 3 {
			// calls keep hanging: stop here, the findings collected so far are reported
			r.Finding(fmt.Sprintf("C19 generation stopped after %d histories: three engines had to be abandoned because a call did not return", i+1))
			break
		}
	}
	return nil
}

// Replay re-runs the history stored in a replay file (ids are generated afresh by the engine)
func Replay(r *vk.Run, c map[string]any) error {
	g, err := openEng()
	if err != nil {
		return err
	}
	defer g.Close()
	var seed int64
	fmt.Sscan(fmt.Sprint(c["hseed"]), &seed)
	name, _ := c["cfg"].(string)
	for _, w := range witnesses() {
		if w.name == name {
			return runHistory(r, &g, 1, w)
		}
	}
	edgy, _ := c["edgy"].(bool)
	nops, _ := c["nops"].(float64)
	return runHistory(r, &g, seed, histCfg{name: name, edgy: edgy, nops: int(nops)})
}

var _ = math.Abs
