package main

import (
	"context"
	"fmt"
	"os"

	"github.com/codenotary/immudb/embedded/logger"
	"github.com/codenotary/immudb/embedded/sql"
	"github.com/codenotary/immudb/embedded/store"
)

func main() {
	ctx := context.Background()
	dir, _ := os.MkdirTemp("", "c19y")
	defer os.RemoveAll(dir)
	st, err := store.Open(dir, store.DefaultOptions().WithMultiIndexing(true).WithLogger(logger.NewMemoryLogger()))
	if err != nil {
		panic(err)
	}
	defer st.Close()
	e, err := sql.NewEngine(st, sql.DefaultOptions().WithPrefix([]byte{3}))
	if err != nil {
		panic(err)
	}
	ex := func(s string) {
		opts := sql.DefaultTxOptions().WithUnsafeMVCC(true).WithSnapshotMustIncludeTxID(func(uint64) uint64 { return 0 }).WithSnapshotRenewalPeriod(0)
		tx, err := e.NewTx(ctx, opts)
		if err != nil { panic(err) }
		_, _, err = e.Exec(ctx, tx, s, nil)
		fmt.Println(s, "->", err)
		st.WaitForIndexingUpto(ctx, st.LastCommittedTxID())
	}
	ex("CREATE TABLE t (id INTEGER, v INTEGER, PRIMARY KEY id)")
	ex("CREATE UNIQUE INDEX ON t(v)")
	ex("INSERT INTO t(id,v) VALUES (1,10)")
	ex("UPDATE t SET v=20 WHERE id=1")
	ex("INSERT INTO t(id,v) VALUES (2,10)")
	ex("INSERT INTO t(id,v) VALUES (3,10)")
	dump := func() {
		for _, pfx := range [][]byte{[]byte{3, 'M', '.'}} {
			snap, err := st.SnapshotMustIncludeTxID(ctx, pfx, st.LastCommittedTxID())
			if err != nil {
				fmt.Println("snap", err)
				continue
			}
			r, _ := snap.NewKeyReader(store.KeyReaderSpec{Prefix: pfx})
			for {
				k, v, err := r.Read(ctx)
				if err != nil {
					break
				}
				fmt.Printf("  %x tx=%d hc=%d del=%v\n", k, v.Tx(), v.HC(), v.KVMetadata() != nil && v.KVMetadata().Deleted())
			}
			r.Close()
			snap.Close()
		}
	}
	dump()
	rows, err := e.Query(ctx, nil, "SELECT id, v FROM t", nil)
	if err == nil {
		for {
			row, err := rows.Read(ctx)
			if err != nil {
				break
			}
			fmt.Println("row", row.ValuesByPosition[0].RawValue(), row.ValuesByPosition[1].RawValue())
		}
		rows.Close()
	}
}
