package c19

// eng.go: the real document.Engine over a store in a temp dir

import (
	"bytes"
	"context"
	"errors"
	"fmt"
	"math"
	"os"
	"time"

	"github.com/codenotary/immudb/embedded/document"
	"github.com/codenotary/immudb/embedded/logger"
	"github.com/codenotary/immudb/embedded/sql"
	"github.com/codenotary/immudb/embedded/store"
	"github.com/codenotary/immudb/pkg/api/protomodel"
	"google.golang.org/protobuf/proto"
	"google.golang.org/protobuf/types/known/structpb"
)

var ctx = context.Background()

// negZeroKeysDistinct probes the real key encoder: does it give -0.0 and +0.0 different keys
// (the model's `s_nz`)?
func negZeroKeysDistinct() bool {
	a, _, e1 := sql.EncodeRawValueAsKey(math.Copysign(0, -1), sql.Float64Type, 0)
	b, _, e2 := sql.EncodeRawValueAsKey(float64(0), sql.Float64Type, 0)
	c, _, e3 := sql.EncodeValueAsKey(sql.NewFloat64(math.Copysign(0, -1)), sql.Float64Type, 0)
	d, _, e4 := sql.EncodeValueAsKey(sql.NewFloat64(0), sql.Float64Type, 0)
	return e1 != nil || e2 != nil || e3 != nil || e4 != nil || !bytes.Equal(a, b) || !bytes.Equal(c, d)
}

type Eng struct {
	dir string
	st  *store.ImmuStore
	e   *document.Engine
}

func openEng() (*Eng, error) {
	dir, err := os.MkdirTemp("", "vh-c19-")
	if err != nil {
		return nil, err
	}
	st, err := store.Open(dir, store.DefaultOptions().WithMultiIndexing(true).WithSynced(false).WithMaxTxEntries(96).WithLogger(logger.NewMemoryLogger()))
	if err != nil {
		os.RemoveAll(dir)
		return nil, err
	}
	e, err := document.NewEngine(st, document.DefaultOptions().WithPrefix([]byte{3}))
	if err != nil {
		st.Close()
		os.RemoveAll(dir)
		return nil, err
	}
	return &Eng{dir: dir, st: st, e: e}, nil
}

func (g *Eng) Close() {
	g.st.Close()
	os.RemoveAll(g.dir)
}

// wait until everything committed is indexed: the document engine reads through snapshots that
// need not include the latest transactions (that staleness belongs to other properties)
func (g *Eng) wait() {
	c, cancel := context.WithTimeout(ctx, opTimeout)
	defer cancel()
	g.st.WaitForIndexingUpto(c, g.st.LastCommittedTxID())
}

// codeFlags: facts about the code as it is, probed on the real engine (the `flags` of the model)
type codeFlags struct{ nz, strict, uf bool }

var flagsProbed *codeFlags

func probeFlags(g *Eng) codeFlags {
	if flagsProbed != nil {
		return *flagsProbed
	}
	fl := codeFlags{nz: negZeroKeysDistinct()}
	// strict: is a non-integral number rejected for an INTEGER field?
	cs := &Coll{Name: "probe_strict", IDName: "_id", Fields: []Field{{"n", tInt, 1}}}
	if err := g.createCollection(cs); err == nil {
		_, err := g.insert(cs.Name, []map[string]any{{"n": 0.5}})
		fl.strict = err != nil
	}
	// uf: insert 20, delete it, insert 20, insert 20: is the last one admitted?
	cu := &Coll{Name: "probe_unique", IDName: "_id", Fields: []Field{{"n", tInt, 1}}, Indexes: []Index{{Cols: []string{"n"}, Unique: true}}}
	if err := g.createCollection(cu); err == nil {
		refresh := func() {
			g.search(cu.Name, &Query{Order: []Ord{{"n", false}}, Limit: 1}, 0)
			g.search(cu.Name, &Query{}, 0)
		}
		ids, err := g.insert(cu.Name, []map[string]any{{"n": 20.0}})
		if err == nil && len(ids) == 1 {
			refresh()
			g.delete(cu.Name, byID(cu, ids[0]))
			refresh()
			g.insert(cu.Name, []map[string]any{{"n": 20.0}})
			refresh()
			_, err = g.insert(cu.Name, []map[string]any{{"n": 20.0}})
			fl.uf = err == nil
		}
	}
	flagsProbed = &fl
	return fl
}

// guard converts a Go runtime panic inside the engine into an error value the caller reports
type panicErr struct{ v any }

func (p panicErr) Error() string { return fmt.Sprintf("PANIC: %v", p.v) }

// hungErr: the call did not return within opTimeout (the engine is then abandoned)
type hungErr struct{}

func (hungErr) Error() string { return "HANG: the call did not return" }

var opTimeout = 40 * time.Second

func guard(f func() error) error {
	done := make(chan error, 1)
	go func() {
		defer func() {
			if r := recover(); r != nil {
				done <- panicErr{r}
			}
		}()
		done <- f()
	}()
	select {
	case err := <-done:
		return err
	case <-time.After(opTimeout):
		return hungErr{}
	}
}

func isHung(err error) bool { var h hungErr; return errors.As(err, &h) }

func isPanic(err error) bool { var p panicErr; return errors.As(err, &p) }

func toStruct(m map[string]any) (*structpb.Struct, error) {
	return structpb.NewStruct(cloneJSON(m).(map[string]any))
}

func pbQuery(coll string, q *Query) (*protomodel.Query, error) {
	pq := &protomodel.Query{CollectionName: coll, Limit: q.Limit}
	for _, g := range q.Groups {
		ex := &protomodel.QueryExpression{}
		for _, c := range g {
			v, err := structpb.NewValue(c.Val)
			if err != nil {
				return nil, err
			}
			ex.FieldComparisons = append(ex.FieldComparisons, &protomodel.FieldComparison{Field: c.Field, Operator: c.Op, Value: v})
		}
		pq.Expressions = append(pq.Expressions, ex)
	}
	for _, o := range q.Order {
		pq.OrderBy = append(pq.OrderBy, &protomodel.OrderByClause{Field: o.Field, Desc: o.Desc})
	}
	return pq, nil
}

func (g *Eng) createCollection(c *Coll) error {
	var fs []*protomodel.Field
	for _, f := range c.Fields {
		fs = append(fs, &protomodel.Field{Name: f.Name, Type: f.Type})
	}
	var ixs []*protomodel.Index
	for _, ix := range c.Indexes {
		ixs = append(ixs, &protomodel.Index{Fields: ix.Cols, IsUnique: ix.Unique})
	}
	idn := c.IDName
	if idn == document.DefaultDocumentIDField {
		idn = ""
	}
	err := guard(func() error { return g.e.CreateCollection(ctx, "vh", c.Name, idn, fs, ixs) })
	g.wait()
	return err
}

func (g *Eng) insert(coll string, docs []map[string]any) (ids []string, err error) {
	var ss []*structpb.Struct
	for _, d := range docs {
		s, err := toStruct(d)
		if err != nil {
			return nil, err
		}
		ss = append(ss, s)
	}
	err = guard(func() error {
		_, dids, e := g.e.InsertDocuments(ctx, "vh", coll, ss)
		for _, d := range dids {
			ids = append(ids, d.EncodeToHexString())
		}
		return e
	})
	g.wait()
	if err != nil {
		return nil, err
	}
	return ids, nil
}

type written struct {
	ID  string
	Rev uint64
}

func (g *Eng) replace(coll string, q *Query, doc map[string]any) (w []written, err error) {
	pq, err := pbQuery(coll, q)
	if err != nil {
		return nil, err
	}
	s, err := toStruct(doc)
	if err != nil {
		return nil, err
	}
	err = guard(func() error {
		revs, e := g.e.ReplaceDocuments(ctx, "vh", pq, s)
		for _, r := range revs {
			w = append(w, written{r.DocumentId, r.Revision})
		}
		return e
	})
	g.wait()
	if err != nil {
		return nil, err
	}
	return w, nil
}

func (g *Eng) delete(coll string, q *Query) error {
	pq, err := pbQuery(coll, q)
	if err != nil {
		return err
	}
	err = guard(func() error { return g.e.DeleteDocuments(ctx, "vh", pq) })
	g.wait()
	return err
}

type found struct {
	ID  string
	Doc map[string]any
}

func (g *Eng) search(coll string, q *Query, off int64) (out []found, err error) {
	pq, err := pbQuery(coll, q)
	if err != nil {
		return nil, err
	}
	err = guard(func() error {
		r, e := g.e.GetDocuments(ctx, pq, off)
		if e != nil {
			return e
		}
		defer r.Close()
		for {
			d, e := r.Read(ctx)
			if errors.Is(e, document.ErrNoMoreDocuments) {
				return nil
			}
			if e != nil {
				return e
			}
			out = append(out, found{d.DocumentId, d.Document.AsMap()})
		}
	})
	if err != nil {
		return nil, err
	}
	return out, nil
}

func (g *Eng) count(coll string, q *Query, off int64) (n int64, err error) {
	pq, err := pbQuery(coll, q)
	if err != nil {
		return 0, err
	}
	err = guard(func() error {
		var e error
		n, e = g.e.CountDocuments(ctx, pq, off)
		return e
	})
	return n, err
}

// decodePayload extracts the document from the encoded row exactly as Engine.getDocument and
// verification.VerifyDocument do
func decodePayload(enc []byte) (map[string]any, error) {
	voff := sql.EncLenLen + sql.EncIDLen
	if len(enc) < voff {
		return nil, fmt.Errorf("short encoded document")
	}
	_, n, err := sql.DecodeValue(enc[voff:], sql.BLOBType)
	if err != nil {
		return nil, err
	}
	voff += n + sql.EncIDLen
	if len(enc) < voff {
		return nil, fmt.Errorf("short encoded document")
	}
	v, _, err := sql.DecodeValue(enc[voff:], sql.BLOBType)
	if err != nil {
		return nil, err
	}
	s := &structpb.Struct{}
	if err := proto.Unmarshal(v.RawValue().([]byte), s); err != nil {
		return nil, err
	}
	return s.AsMap(), nil
}

func (g *Eng) get(coll, id string) (rev uint64, doc map[string]any, err error) {
	did, err := document.NewDocumentIDFromHexEncodedString(id)
	if err != nil {
		return 0, nil, err
	}
	err = guard(func() error {
		_, _, enc, e := g.e.GetEncodedDocument(ctx, coll, did, 0)
		if e != nil {
			return e
		}
		if enc.KVMetadata != nil && enc.KVMetadata.Deleted() {
			return document.ErrDocumentNotFound
		}
		rev = enc.Revision
		doc, e = decodePayload(enc.EncodedDocument)
		return e
	})
	return rev, doc, err
}

type auditEntry struct {
	Rev     uint64
	Deleted bool
	Doc     map[string]any
}

func (g *Eng) audit(coll, id string, desc bool, off uint64, lim int) (out []auditEntry, err error) {
	did, err := document.NewDocumentIDFromHexEncodedString(id)
	if err != nil {
		return nil, err
	}
	err = guard(func() error {
		rs, e := g.e.AuditDocument(ctx, coll, did, desc, off, lim, true)
		if e != nil {
			return e
		}
		for _, r := range rs {
			a := auditEntry{Rev: r.Revision, Deleted: r.Metadata != nil && r.Metadata.Deleted}
			if r.Document != nil {
				a.Doc = r.Document.AsMap()
			}
			out = append(out, a)
		}
		return nil
	})
	return out, err
}

func (g *Eng) addField(coll string, f Field) error {
	err := guard(func() error {
		return g.e.AddField(ctx, "vh", coll, &protomodel.Field{Name: f.Name, Type: f.Type})
	})
	g.wait()
	return err
}

func (g *Eng) removeField(coll, name string) error {
	err := guard(func() error { return g.e.RemoveField(ctx, "vh", coll, name) })
	g.wait()
	return err
}

func (g *Eng) createIndex(coll string, cols []string, uniq bool) error {
	err := guard(func() error { return g.e.CreateIndex(ctx, "vh", coll, cols, uniq) })
	g.wait()
	return err
}

func (g *Eng) deleteIndex(coll string, cols []string) error {
	err := guard(func() error { return g.e.DeleteIndex(ctx, "vh", coll, cols) })
	g.wait()
	return err
}
