// scratch exploration of the real document engine (not part of the check)
package main

import (
	"context"
	"encoding/json"
	"fmt"
	"os"

	"github.com/codenotary/immudb/embedded/document"
	"github.com/codenotary/immudb/embedded/logger"
	"github.com/codenotary/immudb/embedded/store"
	"github.com/codenotary/immudb/pkg/api/protomodel"
	"google.golang.org/protobuf/types/known/structpb"
)

var ctx = context.Background()
var gst *store.ImmuStore
func wait() { gst.WaitForIndexingUpto(ctx, gst.LastCommittedTxID()) }

func mk() (*document.Engine, func()) {
	dir, _ := os.MkdirTemp("", "c19x")
	st, err := store.Open(dir, store.DefaultOptions().WithMultiIndexing(true).WithLogger(logger.NewMemoryLogger()))
	if err != nil {
		panic(err)
	}
	gst = st
	e, err := document.NewEngine(st, document.DefaultOptions().WithPrefix([]byte{3}))
	if err != nil {
		panic(err)
	}
	return e, func() { st.Close(); os.RemoveAll(dir) }
}

func doc(js string) *structpb.Struct {
	var m map[string]any
	if err := json.Unmarshal([]byte(js), &m); err != nil {
		panic(err)
	}
	s, err := structpb.NewStruct(m)
	if err != nil {
		panic(err)
	}
	return s
}

func cmp(f string, op protomodel.ComparisonOperator, v any) *protomodel.FieldComparison {
	pv, _ := structpb.NewValue(v)
	return &protomodel.FieldComparison{Field: f, Operator: op, Value: pv}
}

func q(col string, lim uint32, ob []*protomodel.OrderByClause, groups ...[]*protomodel.FieldComparison) *protomodel.Query {
	qq := &protomodel.Query{CollectionName: col, Limit: lim, OrderBy: ob}
	for _, g := range groups {
		qq.Expressions = append(qq.Expressions, &protomodel.QueryExpression{FieldComparisons: g})
	}
	return qq
}

func search(e *document.Engine, qq *protomodel.Query, off int64) string {
	r, err := e.GetDocuments(ctx, qq, off)
	if err != nil {
		return "ERR " + err.Error()
	}
	defer r.Close()
	out := ""
	for {
		d, err := r.Read(ctx)
		if err != nil {
			if err != document.ErrNoMoreDocuments {
				out += " ERR:" + err.Error()
			}
			break
		}
		b, _ := json.Marshal(d.Document.AsMap())
		out += " " + string(b)
	}
	n, err := e.CountDocuments(ctx, qq, off)
	return fmt.Sprintf("%s | count=%d err=%v", out, n, err)
}

const (
	EQ = protomodel.ComparisonOperator_EQ
	NE = protomodel.ComparisonOperator_NE
	LT = protomodel.ComparisonOperator_LT
	LE = protomodel.ComparisonOperator_LE
	GT = protomodel.ComparisonOperator_GT
	GE = protomodel.ComparisonOperator_GE
)


func audit(e *document.Engine, id string, desc bool, off uint64, lim int) string {
	did, _ := document.NewDocumentIDFromHexEncodedString(id)
	rs, err := e.AuditDocument(ctx, "c", did, desc, off, lim, true)
	if err != nil {
		return "ERR " + err.Error()
	}
	out := ""
	for _, r := range rs {
		var b []byte
		if r.Document != nil {
			b, _ = json.Marshal(r.Document.AsMap())
		}
		out += fmt.Sprintf(" [rev=%d tx=%d del=%v doc=%s]", r.Revision, r.TransactionId, r.Metadata != nil && r.Metadata.Deleted, b)
	}
	return out
}




func main() {
	e, done := mk()
	defer done()
	err := e.CreateCollection(ctx, "u", "c", "", []*protomodel.Field{
		{Name: "n", Type: protomodel.FieldType_INTEGER},
		{Name: "m", Type: protomodel.FieldType_INTEGER},
		{Name: "s", Type: protomodel.FieldType_STRING},
	}, []*protomodel.Index{{Fields: []string{"n"}, IsUnique: true}})
	fmt.Println("create", err)
	ins := func(js string) string {
		wait()
		_, id, err := e.InsertDocument(ctx, "u", "c", doc(js))
		fmt.Println("insert", js, "->", id.EncodeToHexString(), err)
		wait()
		return id.EncodeToHexString()
	}
	rep := func(id, js string) {
		r, err := e.ReplaceDocuments(ctx, "u", q("c", 0, nil, []*protomodel.FieldComparison{cmp("_id", EQ, id)}), doc(js))
		fmt.Println("replace", id[24:], js, r, err)
		wait()
	}
	del := func(id string) {
		err := e.DeleteDocuments(ctx, "u", q("c", 0, nil, []*protomodel.FieldComparison{cmp("_id", EQ, id)}))
		fmt.Println("delete", id[24:], err)
		wait()
	}
	id1 := ins(`{"n":20,"s":"D"}`)
	del(id1)
	ins(`{"n":20,"s":"E"}`)
	ins(`{"n":20,"s":"F"}`)
	id4 := ins(`{"n":21,"s":"G"}`)
	rep(id4, `{"n":20,"s":"G"}`)
	_ = rep
	fmt.Println("all:", search(e, q("c", 0, nil), 0))
}
