package c19

// coq.go: Coq terms of the case files (types of coq/Doc/Model.v and coq/Tie/C19.v)

import (
	"encoding/hex"
	"fmt"
	"math"
	"sort"
	"strconv"
	"strings"

	"github.com/codenotary/immudb/pkg/api/protomodel"
)

func itoa(i int64) string   { return strconv.FormatInt(i, 10) }
func ftoa(f float64) string { return strconv.FormatFloat(f, 'g', -1, 64) }

// bytesTerm: a byte string as `B len 0x...` (a numeral is far cheaper for coqc than a string)
func bytesTerm(b []byte) string {
	if len(b) == 0 {
		return "(B 0 0)"
	}
	if len(b) > 16 {
		same := true
		for _, x := range b {
			if x != b[0] {
				same = false
			}
		}
		if same {
			return fmt.Sprintf("(R %d %d)", len(b), b[0])
		}
		// big numerals are slow to split into bytes: chunks of 8
		var parts []string
		for i := 0; i < len(b); i += 8 {
			j := i + 8
			if j > len(b) {
				j = len(b)
			}
			parts = append(parts, fmt.Sprintf("B %d 0x%s", j-i, hex.EncodeToString(b[i:j])))
		}
		return "(" + strings.Join(parts, " ++ ") + ")%list"
	}
	return fmt.Sprintf("(B %d 0x%s)", len(b), hex.EncodeToString(b))
}

func hexS(s string) string { return bytesTerm([]byte(s)) }

// document ids are bound once per case (`let iN := B 16 0x... in`) and referred to by name
var idVars map[string]string
var idOrder []string

func resetIDs() { idVars, idOrder = map[string]string{}, nil }

// hexID: the document id given as hex text -> the id bytes
func hexID(id string) string {
	if v, ok := idVars[id]; ok {
		return v
	}
	v := fmt.Sprintf("i%d", len(idOrder))
	idVars[id] = v
	idOrder = append(idOrder, id)
	return v
}

func idBindings() string {
	var sb strings.Builder
	for i, id := range idOrder {
		b, _ := hex.DecodeString(id)
		fmt.Fprintf(&sb, "let i%d := %s in ", i, bytesTerm(b))
	}
	return sb.String()
}

// numTerm: f = (-1)^neg * man * 2^e exactly (finite doubles only)
func numTerm(f float64) string {
	neg := math.Signbit(f)
	a := math.Abs(f)
	if a == 0 {
		return fmt.Sprintf("(nm %v 0 false 0)", neg)
	}
	fr, e := math.Frexp(a) // a = fr * 2^e, fr in [0.5,1)
	man := uint64(fr * (1 << 53))
	e -= 53
	for man%2 == 0 {
		man /= 2
		e++
	}
	if e < 0 {
		return fmt.Sprintf("(nm %v %d true %d)", neg, man, -e)
	}
	return fmt.Sprintf("(nm %v %d false %d)", neg, man, e)
}

func jvTerm(v any) string {
	switch x := v.(type) {
	case nil:
		return "JNull"
	case bool:
		return fmt.Sprintf("(JBool %v)", x)
	case float64:
		return "(jn" + numTerm(x)[3:]
	case string:
		if v, ok := idVars[x]; ok {
			return "(hx " + v + ")"
		}
		return "(js " + bytesTerm([]byte(x)) + ")"
	case []any:
		parts := make([]string, len(x))
		for i := range x {
			parts[i] = jvTerm(x[i])
		}
		return "(JList [" + strings.Join(parts, "; ") + "])"
	case map[string]any:
		keys := make([]string, 0, len(x))
		for k := range x {
			keys = append(keys, k)
		}
		sort.Strings(keys) // byte order
		parts := make([]string, len(keys))
		for i, k := range keys {
			parts[i] = "(" + hexS(k) + ", " + jvTerm(x[k]) + ")"
		}
		return "(JObj [" + strings.Join(parts, "; ") + "])"
	}
	panic(fmt.Sprintf("jvTerm: %T", v))
}

func ftypeTerm(t protomodel.FieldType) string {
	switch t {
	case protomodel.FieldType_INTEGER:
		return "TInt"
	case protomodel.FieldType_DOUBLE:
		return "TDbl"
	case protomodel.FieldType_STRING:
		return "TStr"
	case protomodel.FieldType_BOOLEAN:
		return "TBool"
	case protomodel.FieldType_UUID:
		return "TUuid"
	}
	panic("ftype")
}

func opTerm(o protomodel.ComparisonOperator) string {
	switch o {
	case protomodel.ComparisonOperator_EQ:
		return "OpEQ"
	case protomodel.ComparisonOperator_NE:
		return "OpNE"
	case protomodel.ComparisonOperator_LT:
		return "OpLT"
	case protomodel.ComparisonOperator_LE:
		return "OpLE"
	case protomodel.ComparisonOperator_GT:
		return "OpGT"
	case protomodel.ComparisonOperator_GE:
		return "OpGE"
	}
	panic("op")
}

func colsTerm(cols []string) string {
	p := make([]string, len(cols))
	for i, c := range cols {
		p[i] = hexS(c)
	}
	return "[" + strings.Join(p, "; ") + "]"
}

func indexTerm(ix Index) string {
	return fmt.Sprintf("(mkix %s %v)", colsTerm(ix.Cols), ix.Unique)
}

func queryTerm(q *Query) string {
	gs := make([]string, len(q.Groups))
	for i, g := range q.Groups {
		cs := make([]string, len(g))
		for j, c := range g {
			cs[j] = fmt.Sprintf("(mkc %s %s %s)", hexS(c.Field), opTerm(c.Op), jvTerm(c.Val))
		}
		gs[i] = "[" + strings.Join(cs, "; ") + "]"
	}
	os := make([]string, len(q.Order))
	for i, o := range q.Order {
		os[i] = fmt.Sprintf("(%s, %v)", hexS(o.Field), o.Desc)
	}
	return fmt.Sprintf("(mkq [%s] [%s] %d)", strings.Join(gs, "; "), strings.Join(os, "; "), q.Limit)
}

func idsTerm(ids []string) string {
	p := make([]string, len(ids))
	for i, id := range ids {
		p[i] = hexID(id)
	}
	return "[" + strings.Join(p, "; ") + "]"
}

func queryString(q *Query) string {
	var sb strings.Builder
	for i, g := range q.Groups {
		if i > 0 {
			sb.WriteString(" OR ")
		}
		sb.WriteString("(")
		for j, c := range g {
			if j > 0 {
				sb.WriteString(" AND ")
			}
			fmt.Fprintf(&sb, "%s %s %s", c.Field, c.Op, jsonString(c.Val))
		}
		sb.WriteString(")")
	}
	for i, o := range q.Order {
		if i == 0 {
			sb.WriteString(" ORDER BY ")
		} else {
			sb.WriteString(", ")
		}
		sb.WriteString(o.Field)
		if o.Desc {
			sb.WriteString(" DESC")
		}
	}
	if q.Limit > 0 {
		fmt.Fprintf(&sb, " LIMIT %d", q.Limit)
	}
	return sb.String()
}

func jsonString(v any) string {
	switch x := v.(type) {
	case nil:
		return "null"
	case bool:
		return fmt.Sprint(x)
	case float64:
		if x == 0 && math.Signbit(x) {
			return "-0"
		}
		return ftoa(x)
	case string:
		return strconv.Quote(x)
	case []any:
		p := make([]string, len(x))
		for i := range x {
			p[i] = jsonString(x[i])
		}
		return "[" + strings.Join(p, ",") + "]"
	case map[string]any:
		keys := make([]string, 0, len(x))
		for k := range x {
			keys = append(keys, k)
		}
		sort.Strings(keys)
		p := make([]string, len(keys))
		for i, k := range keys {
			p[i] = strconv.Quote(k) + ":" + jsonString(x[k])
		}
		return "{" + strings.Join(p, ",") + "}"
	}
	return fmt.Sprintf("%v", v)
}
