package c19

// witness.go: scripted histories reproducing the known findings on every run, and the document
// proofs of pkg/database verified with pkg/verification

import (
	"fmt"
	"math"
	"os"
	"strings"
	"time"

	"github.com/codenotary/immudb/embedded/document"
	"github.com/codenotary/immudb/embedded/logger"
	"github.com/codenotary/immudb/pkg/api/protomodel"
	"github.com/codenotary/immudb/pkg/api/schema"
	"github.com/codenotary/immudb/pkg/database"
	"github.com/codenotary/immudb/pkg/verification"
	"google.golang.org/protobuf/types/known/structpb"

	"verif/harness/vk"
)

const (
	opEQ = protomodel.ComparisonOperator_EQ
	opGT = protomodel.ComparisonOperator_GT
	opGE = protomodel.ComparisonOperator_GE
	opLT = protomodel.ComparisonOperator_LT
)

func one(f string, op protomodel.ComparisonOperator, v any) *Query {
	return &Query{Groups: [][]Cmp{{{f, op, v}}}}
}

func okStr(ok bool, ids []string) string {
	if !ok {
		return "fails"
	}
	return "answers " + short(ids)
}

func witnesses() []histCfg {
	return []histCfg{
		{
			name: "witness-int-trunc",
			coll: &Coll{Name: "c19", IDName: "_id", Fields: []Field{{"n", tInt, 1}}, nextGen: 1},
			fixed: func(h *hist) {
				h.insertDocs([]map[string]any{{"n": 0.5}})
				h.insertDocs([]map[string]any{{"n": 1e300}})
				h.insertDocs([]map[string]any{{"n": -0.5}})
				h.insertDocs([]map[string]any{{"n": 3.0}})
				h.doSearch(one("n", opEQ, 0.0), 0, true)
				h.doSearch(one("n", opGT, 0.0), 0, true)
				h.doSearch(one("n", opEQ, 0.5), 0, true)
				h.doSearch(one("n", opLT, 0.0), 0, true)
			},
		},
		{
			name: "witness-negzero-index",
			coll: &Coll{Name: "c19", IDName: "_id", Fields: []Field{{"d", tDbl, 1}}, nextGen: 1},
			fixed: func(h *hist) {
				h.insertDocs([]map[string]any{{"d": math.Copysign(0, -1)}})
				h.insertDocs([]map[string]any{{"d": 0.0}})
				h.insertDocs([]map[string]any{{"d": 1.0}})
				q := one("d", opEQ, 0.0)
				a, _ := h.doSearch(q, 0, true)
				h.createIndex([]string{"d"}, false)
				b, _ := h.doSearch(q, 0, true)
				if !samePageUpToTies(h.c, q, 0, a, b) {
					h.finding(lblNegZ, fmt.Sprintf("search depends on the index on (d): %s returns %s without and %s with it", queryString(q), short(a), short(b)))
				}
				q2 := &Query{Groups: [][]Cmp{{{"d", opGE, 0.0}}}, Order: []Ord{{"d", false}}}
				h.doSearch(q2, 0, true)
			},
		},
		{
			name: "witness-late-field",
			coll: &Coll{Name: "c19", IDName: "_id", Fields: []Field{{"n", tInt, 1}}, nextGen: 1},
			fixed: func(h *hist) {
				h.insertDocs([]map[string]any{{"n": 1.0, "m": 5.0}})
				f := Field{Name: "m", Type: tInt}
				err := h.g.addField(h.c.Name, f)
				h.step(fmt.Sprintf("OAddField %s %s", hexS("m"), ftypeTerm(tInt)), errObs(err))
				h.c.nextGen++
				f.Gen = h.c.nextGen
				h.c.Fields = append(h.c.Fields, f)
				h.insertDocs([]map[string]any{{"n": 2.0, "m": 5.0}})
				h.doSearch(one("m", opEQ, 5.0), 0, true)
			},
		},
		{
			name: "witness-unique-after-tombstone",
			coll: &Coll{Name: "c19", IDName: "_id", Fields: []Field{{"n", tInt, 1}}, Indexes: []Index{{Cols: []string{"n"}, Unique: true}}, nextGen: 1},
			fixed: func(h *hist) {
				ids := h.insertDocs([]map[string]any{{"n": 20.0, "s": "D"}})
				if len(ids) == 1 {
					h.delete(byID(h.c, ids[0]))
				}
				h.insertDocs([]map[string]any{{"n": 20.0, "s": "E"}})
				h.insertDocs([]map[string]any{{"n": 20.0, "s": "F"}})
				h.doSearch(one("n", opEQ, 20.0), 0, true)
			},
		},
		{
			// a string constant longer than the 512-byte column: the range bound cannot be encoded as an index
			// key, the query fails exactly when an index on the field is used
			name: "witness-long-constant-index",
			coll: &Coll{Name: "c19", IDName: "_id", Fields: []Field{{"s", tStr, 1}}, nextGen: 1},
			fixed: func(h *hist) {
				long := strings.Repeat("x", 513)
				h.insertDocs([]map[string]any{{"s": "a"}})
				h.insertDocs([]map[string]any{{"s": "y"}})
				ord := func(q *Query) *Query { q.Order = []Ord{{"s", false}}; return q }
				for _, q := range []*Query{one("s", opEQ, long), ord(one("s", opGE, long)), ord(one("s", opLT, long))} {
					a, ok1 := h.doSearch(q, 0, true)
					h.createIndex([]string{"s"}, false)
					b, ok2 := h.doSearch(q, 0, true)
					if ok1 != ok2 || (ok1 && !samePageUpToTies(h.c, q, 0, a, b)) {
						h.finding(lblLongC, fmt.Sprintf("query %s: %v without and %v with the index on (s)", queryString(q)[:14]+"...\"", okStr(ok1, a), okStr(ok2, b)))
					}
					h.deleteIndex([]string{"s"})
				}
			},
		},
		{
			// InsertDocuments runs with a snapshot that need not include the latest transactions and its
			// read-set validation stops at the first up-to-date snapshot: a read that refreshes only the
			// primary index between two inserts lets the second one pass the unique check
			name: "witness-unique-stale-snapshot", untied: true,
			coll: &Coll{Name: "c19", IDName: "_id", Fields: []Field{{"s", tStr, 1}}, Indexes: []Index{{Cols: []string{"s"}, Unique: true}}, nextGen: 1},
			fixed: func(h *hist) {
				h.noRefresh = true
				h.insertDocs([]map[string]any{{"s": "a"}})
				h.insertDocs([]map[string]any{{"s": "b"}}) // each insert is followed by a search of everything
				h.insertDocs([]map[string]any{{"s": "b"}})
			},
		},
		{
			// an index over two STRING fields: its keys exceed the store's key length, the index is never
			// built and a query that scans it waits forever
			name: "witness-two-string-index", ownEngine: true,
			coll: &Coll{Name: "c19", IDName: "_id", Fields: []Field{{"s", tStr, 1}, {"t", tStr, 2}}, nextGen: 2},
			fixed: func(h *hist) {
				old := opTimeout
				opTimeout = 8 * time.Second
				defer func() { opTimeout = old }()
				h.insertDocs([]map[string]any{{"s": "a", "t": "b"}})
				h.createIndex([]string{"s", "t"}, false)
				h.doSearch(&Query{Order: []Ord{{"s", false}, {"t", false}}}, 0, false)
			},
		},
	}
}

// proofChecks: pkg/database document API: every stored document's proof verifies with
// pkg/verification (current and historical revisions, chained trusted state)
func proofChecks(r *vk.Run) error {
	dir, err := os.MkdirTemp("", "vh-c19-db-")
	if err != nil {
		return err
	}
	defer os.RemoveAll(dir)
	opts := database.DefaultOptions().WithDBRootPath(dir)
	d, err := database.NewDB("c19db", nil, opts, logger.NewMemoryLogger())
	if err != nil {
		return err
	}
	defer d.Close()
	fail := func(f string, a ...any) { r.Finding("C19 document proof: " + fmt.Sprintf(f, a...)) }
	coll := "proofs"
	_, err = d.CreateCollection(ctx, "vh", &protomodel.CreateCollectionRequest{Name: coll,
		Fields:  []*protomodel.Field{{Name: "n", Type: tInt}, {Name: "s", Type: tStr}, {Name: "a.x", Type: tDbl}},
		Indexes: []*protomodel.Index{{Fields: []string{"n"}}}})
	if err != nil {
		return err
	}
	rng := r.Rng
	c := &Coll{Name: coll, IDName: "_id", Fields: []Field{{"n", tInt, 1}, {"s", tStr, 2}, {"a.x", tDbl, 3}}}
	type stored struct {
		id   string
		docs []*structpb.Struct // one per revision
		txs  []uint64
	}
	var all []*stored
	var known *schema.ImmutableState
	nver := 0
	verify := func(s *stored, rev int) {
		req := &protomodel.ProofDocumentRequest{CollectionName: coll, DocumentId: s.id}
		if rev < len(s.docs)-1 {
			req.TransactionId = s.txs[rev]
		}
		if known != nil {
			req.ProofSinceTransactionId = known.TxId
		}
		p, err := d.ProofDocument(ctx, req)
		if err != nil {
			fail("ProofDocument(%s rev %d) fails: %v", s.id, rev+1, err)
			return
		}
		st, err := verification.VerifyDocument(ctx, p, s.docs[rev], known, nil)
		if err != nil {
			fail("proof of document %s revision %d (tx %d) does not verify: %v", s.id, rev+1, s.txs[rev], err)
			return
		}
		nver++
		if known == nil || st.TxId >= known.TxId {
			known = st
		}
		// the same proof must not verify a different document
		other := &structpb.Struct{Fields: map[string]*structpb.Value{}}
		for k, v := range s.docs[rev].Fields {
			other.Fields[k] = v
		}
		other.Fields["tampered"] = structpb.NewBoolValue(true)
		if _, err := verification.VerifyDocument(ctx, p, other, known, nil); err == nil {
			fail("proof of document %s also verifies an altered document", s.id)
		}
	}
	for i := 0; i < 12; i++ {
		doc := genDoc(rng, c, i, genOpts{edgy: true})
		sp, err := toStruct(doc)
		if err != nil {
			return err
		}
		res, err := d.InsertDocuments(ctx, "vh", &protomodel.InsertDocumentsRequest{CollectionName: coll, Documents: []*structpb.Struct{sp}})
		if err != nil {
			continue // e.g. a value of the wrong type
		}
		d.WaitForIndexingUpto(ctx, res.TransactionId)
		id := res.DocumentIds[0]
		doc[document.DefaultDocumentIDField] = id
		sp, _ = toStruct(doc)
		s := &stored{id: id, docs: []*structpb.Struct{sp}, txs: []uint64{res.TransactionId}}
		all = append(all, s)
		verify(s, 0)
		if i%3 == 2 && len(all) > 0 { // replace an earlier document, then verify both revisions
			t := all[rng.Intn(len(all))]
			nd := genDoc(rng, c, 100+i, genOpts{edgy: true})
			nsp, err := toStruct(nd)
			if err != nil {
				return err
			}
			v, _ := structpb.NewValue(t.id)
			rr, err := d.ReplaceDocuments(ctx, "vh", &protomodel.ReplaceDocumentsRequest{
				Query:    &protomodel.Query{CollectionName: coll, Expressions: []*protomodel.QueryExpression{{FieldComparisons: []*protomodel.FieldComparison{{Field: "_id", Operator: opEQ, Value: v}}}}},
				Document: nsp})
			if err != nil || len(rr.Revisions) != 1 {
				continue
			}
			d.WaitForIndexingUpto(ctx, rr.Revisions[0].TransactionId)
			nd[document.DefaultDocumentIDField] = t.id
			nsp, _ = toStruct(nd)
			t.docs = append(t.docs, nsp)
			t.txs = append(t.txs, rr.Revisions[0].TransactionId)
			verify(t, len(t.docs)-1)
			verify(t, rng.Intn(len(t.docs)))
		}
	}
	for _, s := range all {
		verify(s, len(s.docs)-1)
	}
	r.Stats["proofs/verified"] += nver
	return nil
}
