#!/bin/bash
# usage: seedconfirm.sh <worktree> <k> <demo test file> <demo pkg dir> <run regex> "<pkgs whose existing tests must keep their result>"
# Confirms a seeded change in a scratch worktree: demo passes without / fails with the patch; the listed
# packages' existing tests give the same pass/fail sets with and without the patch.
wt=$1; k=$2; demo=$3; pkg=$4; re=$5; pkgs=$6
export GOFLAGS=-mod=mod GOPROXY=off
cd $wt || exit 2
git checkout -q -- . ; 
res() { go test -json -vet=off -count=1 -timeout 25m $pkgs 2>/dev/null | python3 -c "
import json,sys
f=set();p=set()
for l in sys.stdin:
    try:e=json.loads(l)
    except: continue
    if e.get('Test') and e.get('Action') in('pass','fail'): (p if e['Action']=='pass' else f).add(e['Package']+'::'+e['Test'])
print(len(p),sorted(f))"; }
cp OUT/$k/$demo $pkg/
echo "demo on unchanged tree:"; go test -vet=off -count=1 -timeout 300s -run "$re" ./$pkg/ 2>&1 | grep -v INFO | tail -2
rm -f $pkg/$demo
echo "suite unchanged: $(res)"
git apply OUT/$k/patch.diff || exit 3
go build ./... 2>&1 | head -3
cp OUT/$k/$demo $pkg/
echo "demo with patch:"; go test -vet=off -count=1 -timeout 300s -run "$re" ./$pkg/ 2>&1 | grep -v INFO | grep -v "^immudb" | tail -4
rm -f $pkg/$demo
echo "suite with patch: $(res)"
git checkout -q -- .
