#!/bin/bash
# usage: mutrun_iso.sh <prop> <patch.diff> [more props...]
# Runs bin/check <prop> against a seeded change WITHOUT touching /repo: a scratch worktree of /repo's HEAD
# (plus /repo's untracked add-only hook files) gets the patch, a scratch copy of /verif (sources, compiled
# .vo, tools; not .git/.run/replays) is pointed at it (VERIF_REPO + the harness module's replace line).
# Used while other checks run concurrently against /repo; the prescribed in-place variant is tools/mutrun.sh.
prop=$1; patch=$(readlink -f $2); shift 2; more="$@"
ISO=/tmp/iso-$$; mkdir -p $ISO
git -C /repo worktree add -q --detach $ISO/repo HEAD || exit 2
(cd /repo && git ls-files --others --exclude-standard | grep 'verif_hooks' | while read f; do cp $f $ISO/repo/$f; done)
if ! git -C $ISO/repo apply --check $patch 2>/dev/null; then echo "PATCH-DOES-NOT-APPLY $patch"; git -C /repo worktree remove --force $ISO/repo; rm -rf $ISO; exit 3; fi
git -C $ISO/repo apply $patch
rsync -a --exclude .git --exclude .run --exclude replays --exclude '.cache/build.lock' /verif/ $ISO/verif/
sed -i "s#=> /repo#=> $ISO/repo#" $ISO/verif/harness/go.mod
for p in $prop $more; do
  (cd $ISO/verif && VERIF_REPO=$ISO/repo timeout 3000 bin/check $p > $ISO/out.$p 2>&1); rc=$?
  echo "== $p $patch rc=$rc"; grep -c '^VIOLATION' $ISO/out.$p; grep '^VIOLATION' $ISO/out.$p | head -3
  for f in $(grep '^VIOLATION' $ISO/out.$p | head -2 | sed 's/.*replay=\([^ ]*\).*/\1/'); do python3 - "$f" <<'PY'
import json,sys
try:
    j=json.load(open(sys.argv[1])); print(json.dumps({k:(v if not isinstance(v,dict) else {kk:str(vv)[:120] for kk,vv in v.items()}) for k,v in j.items() if k in('kind','what','case')})[:700])
except Exception as e: print('replay unreadable', e)
PY
  done
done
git -C /repo worktree remove --force $ISO/repo; rm -rf $ISO
