#!/bin/bash
# usage: seedsave2.sh <PROP> <worktree-suffix e.g. c17b> <k> "<caught_by>"   (appends as next seeded/<PROP>-<n>, fixes excerpt and check_run)
P=$1; w=$2; k=$3; c=$4
d=$(SEED_APPEND=1 python3 /verif/tools/seedsave.py $P /tmp/mut-$w $k "$c")
python3 - "$d" /tmp/seedconfirm-$w.log "$w $k" "$P" "$k" <<'PY'
import json,re,sys
d,logf,key,P,k=sys.argv[1:6]
log=open(logf).read()
s=[x for x in re.split(r'(?m)^#### ',log) if x.startswith(key)]
p=d+'/meta.json'; j=json.load(open(p))
if s: j['confirm_log_excerpt']='#### '+s[0][:2500]
n=d.split('/')[-1]
j['check_run']="tools/mutrun_iso.sh %s seeded/%s/patch.diff  (scratch worktree of /repo HEAD + patch, scratch copy of /verif pointed at it; bin/check %s)  or in place: tools/mutrun.sh %s seeded/%s/patch.diff"%(P,n,P,P,n)
json.dump(j,open(p,'w'),indent=1)
print(d)
PY
