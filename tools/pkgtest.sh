#!/bin/bash
# usage: pkgtest.sh <pkg dir relative to /repo> ... ; lists failing tests that are in the stable baseline
export GOFLAGS=-mod=mod GOPROXY=off
cd ${PKGTEST_REPO:-/repo}
for p in "$@"; do
  go test -json -vet=off -count=1 -timeout 25m ./$p 2>/dev/null > /tmp/pkgtest.$$.json
  python3 - /tmp/pkgtest.$$.json <<'PY'
import json,sys
base=set(json.load(open('/root/.vp/BASELINE.json'))['stable_pass'])
fails=set(); passes=set()
for l in open(sys.argv[1]):
    try: e=json.loads(l)
    except: continue
    if e.get('Test') and e.get('Action') in('fail','pass'):
        k=e['Package']+'::'+e['Test']
        (fails if e['Action']=='fail' else passes).add(k)
bad=[f for f in sorted(fails) if f in base]
print("passes",len(passes),"fails",len(fails),"stable-baseline fails:",bad)
missing=[b for b in base if b.split('::')[0] in {p.split('::')[0] for p in passes|fails} and b not in passes]
print("stable tests not passing:",missing[:20])
PY
  rm -f /tmp/pkgtest.$$.json
done
