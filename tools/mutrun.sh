#!/bin/bash
# usage: mutrun.sh <prop> <patch.diff> : apply a seeded change to /repo, run the quick check, undo it (only the patched files)
prop=$1; patch=$2
files=$(grep '^+++ b/' $patch | sed 's#^+++ b/##')
cd /repo || exit 2
if ! git apply --check $patch 2>/dev/null; then echo "PATCH-DOES-NOT-APPLY $patch"; exit 3; fi
git apply $patch
cd /verif && timeout 3000 bin/check $prop > /tmp/mutrun.$$.out 2>&1; rc=$?
cd /repo && git checkout -- $files
echo "== $prop $patch rc=$rc"; grep -c VIOLATION /tmp/mutrun.$$.out; grep VIOLATION /tmp/mutrun.$$.out | head -3
for f in $(grep VIOLATION /tmp/mutrun.$$.out | head -2 | sed 's/.*replay=\([^ ]*\).*/\1/'); do python3 - "$f" <<'PY'
import json,sys
j=json.load(open(sys.argv[1])); print(json.dumps({k:(v if not isinstance(v,dict) else {kk:str(vv)[:120] for kk,vv in v.items()}) for k,v in j.items() if k in('kind','what','case')})[:600])
PY
done
rm -f /tmp/mutrun.$$.out
