#!/usr/bin/env python3
"""Rewrites the generated blocks of DESIGN.md (between <!-- gen:NAME --> and <!-- /gen:NAME -->):
   fixes  = table of `fixed` entries of known_findings/*.json
   known  = table of `known` entries
   seeded = table of seeded changes and the check that catches each."""
import json, glob, os, re
def esc(s): return s.replace('|', '\\|').replace('\n', ' ')
fixes, known = [], []
for f in sorted(glob.glob('/verif/known_findings/C*.json')):
    for e in json.load(open(f))['findings']:
        if e.get('status') == 'fixed':
            line = e.get('line', '')
            m = re.match(r'fixed: property=(\S+) (\S+) (.*)', line, flags=re.S)
            fixes.append((e['property'], m.group(2) if m else e.get('commit', ''), m.group(3) if m else line))
        else:
            known.append((e['property'], e.get('what', e.get('match', '')), e.get('replay', '')))
seeded = []
for d in sorted(glob.glob('/verif/seeded/C*'), key=lambda x: (x.split('/')[-1].split('-')[0], int(x.split('-')[-1]))):
    j = json.load(open(d + '/meta.json'))
    files = j.get('files_changed') or sorted(set(re.findall(r'^\+\+\+ b/(\S+)', open(d + '/patch.diff').read(), flags=re.M)))
    what = j.get('what_and_needs_to_manifest') or j.get('what') or ''
    seeded.append((os.path.basename(d), ', '.join(files), what.replace(' (full text: README.md)', '')[:260], j.get('caught_by', '')))
blocks = {
 'fixes': '| property | commit | what failed |\n|---|---|---|\n' + '\n'.join(f'| {p} | {c} | {esc(w)} |' for p, c, w in fixes),
 'known': '| property | what fails | replay |\n|---|---|---|\n' + '\n'.join(f'| {p} | {esc(w)} | {esc(r)} |' for p, w, r in known),
 'seeded': '| change | files | what (abridged; full text in seeded/<id>/README.md) | caught by |\n|---|---|---|---|\n' + '\n'.join(f'| {i} | {esc(f)} | {esc(w)} | {esc(c)} |' for i, f, w, c in seeded),
}
man = json.load(open('/verif/MANIFEST.json'))
blocks['status'] = '| prop | level | what is proved, tied and left partial (MANIFEST `level_claimed.text`) | trusted / note |\n|---|---|---|---|\n' + '\n'.join(
    f"| {c['property_id']} | {c['level_claimed']['level'] if 'level' in c['level_claimed'] else ''} | {esc(c['level_claimed']['text'])} | {esc(c.get('level_note',''))} |" for c in man['checks'])
s = open('/verif/DESIGN.md').read()
for k, v in blocks.items():
    s, n = re.subn(rf'(<!-- gen:{k} -->\n).*?(<!-- /gen:{k} -->)', lambda m: m.group(1) + v + '\n' + m.group(2), s, flags=re.S)
    if n == 0: print('block missing:', k)
open('/verif/DESIGN.md', 'w').write(s)
print(len(fixes), 'fixes', len(known), 'known', len(seeded), 'seeded')
