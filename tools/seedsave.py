#!/usr/bin/env python3
"""seedsave.py <prop> <worktree> <k> <caught_by text> [confirm-log file] : copy a seeded change (patch, demo, README) to seeded/<prop>-<k>/ with meta.json"""
import sys, os, shutil, json, glob, re
prop, wt, k, caught = sys.argv[1:5]
log = open(sys.argv[5]).read() if len(sys.argv) > 5 and os.path.exists(sys.argv[5]) else ""
src = f"{wt}/OUT/{k}"
# continue numbering after existing ones
existing = [int(d.split('-')[1]) for d in os.listdir('/verif/seeded') if d.startswith(prop + '-')]
n = max(existing + [0]) + 1 if os.environ.get("SEED_APPEND") else int(k)
d = f"/verif/seeded/{prop}-{n}"
os.makedirs(d, exist_ok=True)
for f in os.listdir(src):
    if f.endswith(('.diff', '_test.go', 'README.md', 'demo_pkg.txt', 'demo_run.txt')):
        shutil.copy(os.path.join(src, f), d)
readme = open(os.path.join(src, 'README.md')).read() if os.path.exists(os.path.join(src, 'README.md')) else ''
first = next((l.strip() for l in readme.splitlines() if l.strip() and not l.startswith('#')), '')
files = sorted(set(re.findall(r'^\+\+\+ b/(\S+)', open(os.path.join(src, 'patch.diff')).read(), flags=re.M)))
json.dump({"property": prop, "files_changed": files, "what_and_needs_to_manifest": first[:600] + " (full text: README.md)",
           "confirmed": "tools/seedconfirm.sh (or an equivalent manual run) in the scratch worktree: the demonstration passes on the unchanged tree and fails with the patch; the existing tests of the affected packages give the same pass/fail sets with and without the patch",
           "confirm_log_excerpt": log[-1500:],
           "check_run": f"tools/mutrun.sh {prop} seeded/{prop}-{n}/patch.diff  (git -C /repo apply; bin/check {prop}; checkout of the patched files)",
           "caught_by": caught}, open(os.path.join(d, 'meta.json'), 'w'), indent=1)
print(d)
