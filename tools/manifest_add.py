#!/usr/bin/env python3
"""tools/manifest_add.py Cnn '<level text>' '<level note>' '<technique>' [category]: register/replace a check."""
import json, sys
pid, text, note, tech = sys.argv[1:5]
cat = sys.argv[5] if len(sys.argv) > 5 else "proof"
m = json.load(open('/verif/MANIFEST.json'))
m["checks"] = [c for c in m["checks"] if c["property_id"] != pid]
m["checks"].append({
    "property_id": pid, "quick_cmd": "bin/check %s --tier quick" % pid, "thorough_cmd": "bin/check %s --tier thorough" % pid,
    "evidence_file": "evidence/%s.json" % pid, "replay_cmd_template": "bin/check %s --replay {path}" % pid,
    "engine": "coq-model+tie",
    "level_claimed": {"category": cat, "text": text, "design_ref": "DESIGN.md section 4, %s" % pid},
    "level_note": note, "technique": tech})
m["checks"].sort(key=lambda c: c["property_id"])
m["not_applicable"] = [n for n in m.get("not_applicable", []) if n["property_id"] != pid]
m["engines"][0]["serves_properties"] = [c["property_id"] for c in m["checks"]]
json.dump(m, open('/verif/MANIFEST.json', 'w'), indent=1)
